#!/bin/sh
HERE="$(cd "$(dirname "$0")" && pwd)"
if [ -x /venv/bin/python ]; then PY=/venv/bin/python; else PY=python3; fi
exec "$PY" "$HERE/selftest/run.py" "$@"
