# -*- coding: utf-8 -*-
# rules added after the tenth round of independent seeded changes (sa/r_round10.py)
M, B, U = 'mutant', 'benign', 'unknown-idiom'
MAP = 'chython/files/_mapping.py'
RINGS = 'chython/algorithms/rings.py'
MOL = 'chython/files/mdl/mol.py'
STD = 'chython/algorithms/standardize/molecule.py'
DSMI = 'chython/files/daylight/smiles.py'
MFP = 'chython/algorithms/fingerprints/morgan.py'
ISO = 'chython/algorithms/isomorphism.py'
UNP = 'chython/containers/_unpack_v0v2.pyx'

CATALOGUE = [
    dict(id='XV01-unmapped-atom-gets-no-slot', kind=M, props=['C03'], rule='C03.D7-positional-mapping-list',
         edits=[(MAP, "                    tmp.append(m)\n                else:\n                    tmp.append(0)\n\n    length", "                    tmp.append(m)\n\n    length")]),
    dict(id='XVB1-mapping-ladder-flattened', kind=B, props=['C03', 'C11', 'C15'],
         edits=[(MAP, "                if m:\n                    if m in used:\n                        if not ignore:\n                            raise MappingError('mapping in molecules should be unique')\n                        molecule['log'].append(f'non-unique mapping in molecule: {m}')\n                    else:\n                        used.add(m)\n                    tmp.append(m)\n                else:\n                    tmp.append(0)",
                 "                if not m:\n                    tmp.append(0)\n                    continue\n                if m not in used:\n                    used.add(m)\n                elif not ignore:\n                    raise MappingError('mapping in molecules should be unique')\n                else:\n                    molecule['log'].append(f'non-unique mapping in molecule: {m}')\n                tmp.append(m)")]),
    dict(id='XV02-neighbour-rings-share-two-bonds', kind=M, props=['C06'], rule='C06.D8-shared-bond-threshold',
         edits=[(RINGS, "len(seen_rings[x].keys() & ck.keys()) > 1", "len(seen_rings[x].keys() & ck.keys()) > 2")]),
    dict(id='XVB2-shared-atoms-ge-two', kind=B, props=['C06'],
         edits=[(RINGS, "len(seen_rings[x].keys() & ck.keys()) > 1", "len(seen_rings[x].keys() & ck.keys()) >= 2")]),
    dict(id='XV03-property-line-zero-based-bound', kind=M, props=['C11'], rule='C11.D8-one-based-bound',
         edits=[(MOL, "                if not atom or atom > len(atoms):", "                if not atom or atom >= len(atoms):")]),
    dict(id='XVB3-property-line-chained-bound', kind=B, props=['C11'],
         edits=[(MOL, "                if not atom or atom > len(atoms):", "                if not 0 < atom <= len(atoms):")]),
    dict(id='XV04-rollback-at-plus-four', kind=M, props=['C14'], rule='C14.D7-charge-rollback-threshold',
         edits=[(STD, "                    if a.charge > 4:", "                    if a.charge >= 4:")]),
    dict(id='XVB4-rollback-ge-five', kind=B, props=['C14'],
         edits=[(STD, "                    if a.charge > 4:", "                    if a.charge >= 5:")]),
    dict(id='XV05-fragment-bound-off-by-one', kind=M, props=['C15'], rule='C15.D7-fragment-index-bound',
         edits=[(DSMI, "            if max(x for x in contract for x in x) >= mol_count:", "            if max(x for x in contract for x in x) >= mol_count - 1:")]),
    dict(id='XV06-morgan-window-depth-from-zero', kind=M, props=['C17'], rule='C17.D7-morgan-window-radius',
         edits=[(MFP, "enumerate(self._morgan_hash_dict(min_radius, max_radius), min_radius - 1):", "enumerate(self._morgan_hash_dict(min_radius, max_radius)):")]),
    dict(id='XV07-pack-length-after-cursor', kind=M, props=['C10'], rule='C10.D8-pack-length-before-cursor',
         edits=[(UNP, "    size = cis_trans_shift + 4 * cis_trans_count\n", "    size = 0\n"), (UNP, "            cis_trans_shift += 4\n", "            cis_trans_shift += 4\n    size = cis_trans_shift + 4 * cis_trans_count\n")]),
    dict(id='XV08-shallow-copy-of-skin-graph', kind=M, props=['C19', 'C13'],
         edits=[(RINGS, "        bonds = {n: ms.copy() for n, ms in self.skin_graph.items()}", "        bonds = self.skin_graph.copy()")]),
    dict(id='XV09-target-read-with-query-number', kind=M, props=['C07', 'C08'],
         edits=[(ISO, "                if other.atom(m).stereo is None:  # stereo in query should match only stereo atom", "                if other.atom(n).stereo is None:  # stereo in query should match only stereo atom")]),
]
