# -*- coding: utf-8 -*-
# rules added after the eighth round of independent seeded changes and the sixth round of (light) refactorings
M, B, U = 'mutant', 'benign', 'unknown-idiom'
ISO = 'chython/algorithms/isomorphism.py'
RINGS = 'chython/algorithms/rings.py'
KEK = 'chython/algorithms/aromatics/kekule.py'
DSMI = 'chython/files/daylight/smiles.py'
DSMA = 'chython/files/daylight/smarts.py'
CONV = 'chython/files/_convert.py'
WR = 'chython/files/mdl/write.py'
PACK = 'chython/containers/_pack_v2.pyx'
ELT = 'chython/periodictable/base/element.py'
SMI = 'chython/algorithms/smiles.py'
STD = 'chython/algorithms/standardize/molecule.py'
QRY = 'chython/periodictable/base/query.py'

CATALOGUE = [
    # stereo gates of the query matcher
    dict(id='XT01-yield-before-bond-stereo', kind=M, props=['C07', 'C08'],
         edits=[(ISO, "            else:\n                for n, m, b in self.bonds():\n                    if b.stereo is None:\n                        continue",
                 "            else:\n                yield mapping\n                continue\n                for n, m, b in self.bonds():\n                    if b.stereo is None:\n                        continue")]),
    dict(id='XTB1-fast-path-both-kinds-empty', kind=B, props=['C07', 'C08'],
         edits=[(ISO, "        for mapping in self._get_mapping(other, automorphism_filter=automorphism_filter, searching_scope=searching_scope,\n                                         components=components, get_mapping=get_mapping):\n            reverse = None",
                 "        marked_atoms = [n for n, a in self.atoms() if isinstance(a, ExtendedQuery) and a.stereo is not None]\n        marked_bonds = [b for _, _, b in self.bonds() if b.stereo is not None]\n"
                 "        for mapping in self._get_mapping(other, automorphism_filter=automorphism_filter, searching_scope=searching_scope,\n                                         components=components, get_mapping=get_mapping):\n"
                 "            if not marked_atoms and not marked_bonds:\n                yield mapping\n                continue\n            reverse = None")]),
    # class-level caches
    dict(id='XT02-charge-dependent-class-cache', kind=M, props=['C18'], rule='C18.D5-class-cache-scope',
         edits=[(ELT, "    @class_cached_property\n    def _compiled_valence_rules(self)", "    @class_cached_property\n    def _charged_now(self):\n        return self.charge != 0\n\n    @class_cached_property\n    def _compiled_valence_rules(self)")]),
    # canonical ring orientation
    dict(id='XT03-edge-branch-flipped', kind=M, props=['C06'], rule='C06.D6-canonic-ring-orientation',
         edits=[(RINGS, "        if ring[-1] < ring[1]:\n            return n, *ring[:0:-1]", "        if ring[-1] > ring[1]:\n            return n, *ring[:0:-1]")]),
    dict(id='XTB2-general-branch-other-spelling', kind=B, props=['C06'],
         edits=[(RINGS, "    if ring[ndx + 1] > ring[ndx - 1]:\n        return *ring[ndx::-1], *ring[:ndx:-1]\n    return *ring[ndx:], *ring[:ndx]",
                 "    if ring[ndx - 1] > ring[ndx + 1]:\n        return *ring[ndx:], *ring[:ndx]\n    return *ring[ndx::-1], *ring[:ndx:-1]")]),
    # pyrrole pairs
    dict(id='XT04-pairs-counted-above-two', kind=M, props=['C05'], rule='C05.D6-pyrrole-pairs',
         edits=[(KEK, "for n, b in g.items()) >= 2:", "for n, b in g.items()) >= 3:")]),
    dict(id='XTB3-pairs-any-spelling', kind=B, props=['C05'],
         edits=[(KEK, "for n, b in g.items()) >= 2:", "for n, b in g.items()) > 1:")]),
    # sibling options
    dict(id='XT05-molecule-branch-keeps-implicit-off', kind=M, props=['C03'], rule='C03.D6-sibling-options',
         edits=[(DSMI, "                              ignore_carbon_radicals=ignore_carbon_radicals, keep_implicit=keep_implicit,\n                              ignore_aromatic_radicals=ignore_aromatic_radicals, ignore=ignore,\n                              _cls=_m_cls)",
                 "                              ignore_carbon_radicals=ignore_carbon_radicals,\n                              ignore_aromatic_radicals=ignore_aromatic_radicals, ignore=ignore,\n                              _cls=_m_cls)")]),
    dict(id='XT06-reaction-does-not-forward-radicals', kind=M, props=['C03'], rule='C03.D6-sibling-options',
         edits=[(CONV, "                                          keep_radicals=keep_radicals,\n", "")]),
    # cx index language
    dict(id='XT07-smarts-radicals-one-digit', kind=M, props=['C03'], rule='C03.D6-cx-index-language',
         edits=[(DSMA, "cx_radicals = compile(r'\\^[1-7]:[0-9]+(?:,[0-9]+)*')", "cx_radicals = compile(r'\\^[1-7]:[0-9](?:,[0-9])*')")]),
    dict(id='XTB4-radicals-digit-class', kind=B, props=['C03', 'C02'],
         edits=[(DSMI, "cx_radicals = compile(r'\\^[1-7]:[0-9]+(?:,[0-9]+)*')", "cx_radicals = compile(r'\\^[1-7]:\\d+(?:,\\d+)*')")]),
    # property lines by position
    dict(id='XT08-charge-line-by-atom-number', kind=M, props=['C11'], rule='C11.D6-property-line-positions',
         edits=[(WR, "        for n, (_, a) in enumerate(g.atoms(), start=1):\n            if a.isotope:", "        for n, (_, a) in enumerate(g.atoms()):\n            if a.isotope:")]),
    dict(id='XTB5-property-loop-over-atoms-dict', kind=B, props=['C11'],
         edits=[(WR, "        for n, (_, a) in enumerate(g.atoms(), start=1):\n            if a.isotope:", "        for n, (_, a) in enumerate(g._atoms.items(), start=1):\n            if a.isotope:")]),
    # half-float encoder
    dict(id='XT09-subnormal-threshold-shifted', kind=M, props=['C10'], rule='C10.D6-half-float-encoder',
         edits=[(PACK, "    f *= 2.0\n    if e < -14:", "    f *= 2.0\n    if e < -15:")]),
    dict(id='XTB6-guard-before-adjustment-with-shifted-bounds', kind=B, props=['C10'],
         edits=[(PACK, "    e -= 1\n    if f < .5 or f >= 1. or e >= 16 or e < -25:\n        p[0] = p[1] = 0\n        return  # ignore big values\n",
                 "    if f < .5 or f >= 1. or e >= 17 or e < -24:\n        p[0] = p[1] = 0\n        return  # ignore big values\n    e -= 1\n")]),
    # set loops
    dict(id='XT10-molecule-ring-loop-returns-early', kind=M, props=['C09'], rule='C09.D4-set-loops-complete',
         edits=[(ISO, "                for r in a.ring_sizes:\n                    if r > 65:  # big rings not supported\n                        continue\n                    v4 |= 1 << (65 - r)\n                if not v4:  # only 65+ rings. set as rings-free.\n                    v4 = 0x8000000000000000\n            else:  # not in rings\n                v4 = 0x8000000000000000\n\n            bits1",
                 "                for r in a.ring_sizes:\n                    if r > 65:  # big rings not supported\n                        break\n                    v4 |= 1 << (65 - r)\n                if not v4:  # only 65+ rings. set as rings-free.\n                    v4 = 0x8000000000000000\n            else:  # not in rings\n                v4 = 0x8000000000000000\n\n            bits1")]),
    # H14 argument lands in another optional parameter
    dict(id='XT11-stereo-into-in-ring', kind=M, props=['C08'], rule='C08.H-dataflow-hygiene',
         edits=[(DSMA, "                    b = QueryBond(b, stereo=s1 == s2)", "                    b = QueryBond(b, s1 == s2)")]),
    # benign round 6
    dict(id='XTB7-hydrogen-token-conditional-expression', kind=B, props=['C02', 'C03'],
         edits=[(SMI, "            if atom.implicit_hydrogens == 1:\n                smi[4] = 'H'\n            elif atom.implicit_hydrogens:\n                smi[4] = f'H{atom.implicit_hydrogens}'",
                 "            if atom.implicit_hydrogens:\n                smi[4] = 'H' if atom.implicit_hydrogens == 1 else f'H{atom.implicit_hydrogens}'")]),
    dict(id='XT12-bare-H-for-two', kind=M, props=['C02'], rule='C02.D1-codebooks',
         edits=[(SMI, "            if atom.implicit_hydrogens == 1:\n                smi[4] = 'H'\n            elif atom.implicit_hydrogens:\n                smi[4] = f'H{atom.implicit_hydrogens}'",
                 "            if atom.implicit_hydrogens == 2:\n                smi[4] = 'H'\n            elif atom.implicit_hydrogens:\n                smi[4] = f'H{atom.implicit_hydrogens}'")]),
    dict(id='XTB8-implicify-guard-clause', kind=B, props=['C04', 'C14'],
         edits=[(STD, "                    if m not in hi and bond != 8:\n                        explicit_sum += bond.order\n                        explicit_dict[(bond.order, atoms[m].atomic_number)] += 1",
                 "                    if m in hi or bond == 8:\n                        continue\n                    explicit_sum += bond.order\n                    explicit_dict[(bond.order, atoms[m].atomic_number)] += 1")]),
    dict(id='XT13-implicify-excludes-all-hydrogens', kind=M, props=['C04', 'C14'],
         edits=[(STD, "                    if m not in hi and bond != 8:\n                        explicit_sum += bond.order", "                    if m not in hs and bond != 8:\n                        explicit_sum += bond.order")]),
    dict(id='XTB9-validate-guard-clauses', kind=B, props=['C08', 'C09'],
         edits=[(QRY, "    elif isinstance(value, int):\n        if value < 0 or value > 14:\n            raise ValueError(f'{prop} should be in range [0, 14]')\n        return (value,)\n    elif isinstance(value, (tuple, list)):",
                 "    if isinstance(value, int):\n        if not 0 <= value <= 14:\n            raise ValueError(f'{prop} should be in range [0, 14]')\n        return (value,)\n    if isinstance(value, (tuple, list)):")]),
    dict(id='XT14-validate-admits-fifteen', kind=M, props=['C09'],
         edits=[(QRY, "        if value < 0 or value > 14:\n            raise ValueError(f'{prop} should be in range [0, 14]')", "        if not 0 <= value <= 15:\n            raise ValueError(f'{prop} should be in range [0, 14]')")]),
    dict(id='XTB10-radical-bits-one-by-one', kind=B, props=['C09', 'C18'],
         edits=[(ISO, "                if a.is_radical:\n                    v3 |= 0x200000000000\n                else:\n                    v3 |= 0x100000000000\n            elif a.is_radical:\n                v3 = 0x8000200000000000\n            else:\n                v3 = 0x8000100000000000\n",
                 "            else:\n                v3 = 0x8000000000000000\n            if a.is_radical:\n                v3 |= 0x200000000000\n            else:\n                v3 |= 0x100000000000\n")]),
    dict(id='XT15-radical-bits-swapped-one-by-one', kind=M, props=['C09'],
         edits=[(ISO, "                if a.is_radical:\n                    v3 |= 0x200000000000\n                else:\n                    v3 |= 0x100000000000\n            elif a.is_radical:\n                v3 = 0x8000200000000000\n            else:\n                v3 = 0x8000100000000000\n",
                 "            else:\n                v3 = 0x8000000000000000\n            if a.is_radical:\n                v3 |= 0x100000000000\n            else:\n                v3 |= 0x200000000000\n")]),
]
