# -*- coding: utf-8 -*-
M, B, U = 'mutant', 'benign', 'unknown-idiom'
MOLC = 'chython/containers/molecule.py'
CATALOGUE = [
    dict(id='V01-calc_implicit-missing-assign', kind=M, props=['C04'], rule='C04.D2-definite-assignment',
         edits=[(MOLC, "        except ValenceError:\n            atom._implicit_hydrogens = None\n            return\n        for s, d, h in rules:", "        except ValenceError:\n            return\n        for s, d, h in rules:")]),
    dict(id='V02-check_implicit-ge-to-gt', kind=M, props=['C04'], rule='C04.D3-sibling-agreement',
         edits=[(MOLC, "            if h == _h and s.issubset(explicit_dict) and all(explicit_dict[k] >= c for k, c in d.items()):", "            if h == _h and s.issubset(explicit_dict) and all(explicit_dict[k] > c for k, c in d.items()):")]),
    dict(id='V03-calc_implicit-counts-coordinate', kind=M, props=['C04'], rule='C04.D3-sibling-agreement',
         edits=[(MOLC, "                    atom._implicit_hydrogens = None\n                    return\n            elif bond != 8:  # any bond used for complexes\n                explicit_sum += bond.order",
                 "                    atom._implicit_hydrogens = None\n                    return\n            else:\n                explicit_sum += bond.order")]),
    dict(id='V04-aromatic-table', kind=M, props=['C04'], rule='C04.D3-aromatic-carbon',
         edits=[(MOLC, "            if explicit_sum == 0:  # H-Ar\n                atom._implicit_hydrogens = 1\n            elif explicit_sum == 1:  # R-Ar\n                atom._implicit_hydrogens = 0",
                 "            if explicit_sum == 0:  # H-Ar\n                atom._implicit_hydrogens = 1\n            elif explicit_sum == 1:  # R-Ar\n                atom._implicit_hydrogens = 1")]),
    dict(id='V05-brutto-forgets-hydrogens', kind=M, props=['C04'], rule='C04.D4-totals',
         edits=[(MOLC, "        c['H'] += sum(a.implicit_hydrogens for _, a in self.atoms())\n", "")]),
    dict(id='V06-implicify-env-by-symbol', kind=M, props=['C04'], rule='C04.D3-sibling-agreement',
         edits=[('chython/algorithms/standardize/molecule.py', "                        explicit_dict[(bond.order, atoms[m].atomic_number)] += 1", "                        explicit_dict[(bond.order, atoms[m].atomic_symbol)] += 1")]),
    dict(id='V07-compiler-key-order', kind=M, props=['C04'], rule='C04.D1-tables-compile',
         edits=[('chython/periodictable/base/element.py', "                rules[(charge, is_radical, explicit)].append((explicit_set, explicit_dict, 0))", "                rules[(charge, is_radical, implicit)].append((explicit_set, explicit_dict, 0))")]),
    dict(id='V08-check_valence-inverted', kind=M, props=['C04'], rule='C04.D2-definite-assignment',
         edits=[('chython/algorithms/standardize/molecule.py', "return [n for n, a in self.atoms() if a.implicit_hydrogens is None]", "return [n for n, a in self.atoms() if not a.implicit_hydrogens]")]),
    dict(id='VB1-mass-refactored', kind=B, props=['C04'],
         edits=[(MOLC, "        h = _H().atomic_mass\n        return sum(a.atomic_mass + a.implicit_hydrogens * h for _, a in self.atoms())",
                 "        h = _H().atomic_mass\n        total = 0.\n        for _, a in self.atoms():\n            total += a.atomic_mass\n            total += h * a.implicit_hydrogens\n        return total")]),
]
