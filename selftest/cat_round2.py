# -*- coding: utf-8 -*-
# rules added after the second round of independent seeded changes: escape/ownership, role pairing, scope plumbing, fresh keys,
# pending-set accumulator, constraint normalisers, BFS distance, closure slots, seeded canonical string, cis/trans keys, distinctness
M, B, U = 'mutant', 'benign', 'unknown-idiom'
KEK = 'chython/algorithms/aromatics/kekule.py'
ISO = 'chython/algorithms/isomorphism.py'
RDF = 'chython/files/RDFrw.py'
MRV = 'chython/files/MRVrw.py'
DSM = 'chython/files/daylight/smiles.py'
RXC = 'chython/containers/reaction.py'
STD = 'chython/algorithms/standardize/molecule.py'
GR = 'chython/containers/graph.py'
MOLC = 'chython/containers/molecule.py'
QRY = 'chython/periodictable/base/query.py'
SMI = 'chython/algorithms/smiles.py'
PRS = 'chython/files/daylight/parser.py'
ST = 'chython/algorithms/stereo.py'
PACK = 'chython/containers/_pack_v2.pyx'

CATALOGUE = [
    # -- ESC-1 / ESC-2 ---------------------------------------------------------------------------------------------------------------------
    dict(id='R01-kekule-first-backtrack-in-place', kind=M, props=['C05'], rule='C05.D4-yielded-forms-immutable',
         edits=[(KEK, "            del stack[-1]\n            if stack:\n                path = path[:stack[-1][-1][-1]]\n                hashed_path = {x for x, *_ in path}\n        elif atom != start:",
                 "            del stack[-1]\n            if stack:\n                del path[stack[-1][-1][-1]:]\n                hashed_path = {x for x, *_ in path}\n        elif atom != start:")]),
    dict(id='R02-kekule-full-flatten-in-place', kind=M, props=['C05'], rule='C05.D4-pooled-forms-copied',
         edits=[(KEK, "            yield [x for x in keks for x in x]", "            form = keks[0]\n            for k in keks[1:]:\n                form.extend(k)\n            yield form")]),
    dict(id='R03-automorphism-no-copy', kind=M, props=['C07'], rule='C07.D3-pooled-mappings-copied',
         edits=[(ISO, "    for match in lazy_product(*mappers):\n        mapping = match[0].copy()", "    for match in lazy_product(*mappers):\n        mapping = match[0]")]),
    dict(id='R04-single-component-mutates-yielded', kind=M, props=['C07'], rule='C07.D3-yielded-mappings-immutable',
         edits=[(ISO, "                        seen.add(atoms)\n                    yield mapping\n        else:", "                        seen.add(atoms)\n                    yield mapping\n                    mapping.clear()\n        else:")]),
    dict(id='RB1-copy-by-dict-call', kind=B, props=['C07'],
         edits=[(ISO, "                    for match in lazy_product(*mappers):\n                        mapping = match[0].copy()", "                    for match in lazy_product(*mappers):\n                        mapping = dict(match[0])")]),
    dict(id='RB2-kekule-backtrack-list-slice', kind=B, props=['C05'],
         edits=[(KEK, "            del stack[-1]\n            if stack:\n                path = path[:stack[-1][-1][-1]]\n                hashed_path = {x for x, *_ in path}\n        elif atom != start:",
                 "            del stack[-1]\n            if stack:\n                cut = stack[-1][-1][-1]\n                path = list(path[:cut])\n                hashed_path = {x for x, *_ in path}\n        elif atom != start:")]),
    # -- role pairing ----------------------------------------------------------------------------------------------------------------------
    dict(id='R05-mrv-role-pairing', kind=M, props=['C11'], rule='C11.D1-role-pairing',
         edits=[(MRV, "zip(rxn.molecules(), chain(tmp['reactants'], tmp['reagents'], tmp['products']))", "zip(rxn.molecules(), chain(tmp['reagents'], tmp['reactants'], tmp['products']))")]),
    dict(id='R06-smiles-role-pairing', kind=M, props=['C03', 'C15'],
         edits=[(DSM, "zip(rxn.molecules(), chain(record['reactants'], record['reagents'], record['products']))", "zip(rxn.molecules(), chain(record['reactants'], record['products'], record['reagents']))")]),
    dict(id='R07-molecules-order-changed', kind=M, props=['C11', 'C15'],
         edits=[(RXC, "        return chain(self.reactants, self.reagents, self.products)", "        return chain(self.reactants, self.products, self.reagents)")]),
    # -- compiled scope --------------------------------------------------------------------------------------------------------------------
    dict(id='R08-compiled-scope-from-searching-scope', kind=M, props=['C09'], rule='C09.D3-path-selection',
         edits=[(ISO, "array('I', [n in scope for n in other]))", "array('I', [not searching_scope or n in searching_scope for n in other]))")]),
    dict(id='RB3-compiled-scope-local-name', kind=B, props=['C09'],
         edits=[(ISO, "                    return _cython_get_mapping(query, other._cython_compiled_structure,\n                                               array('I', [n in scope for n in other]))",
                 "                    mask = array('I', [n in scope for n in other])\n                    return _cython_get_mapping(query, other._cython_compiled_structure, mask)")]),
    # -- fresh keys ------------------------------------------------------------------------------------------------------------------------
    dict(id='R09-add-atom-count-key', kind=M, props=['C13', 'C14'],
         edits=[(GR, "            n = max(self._atoms, default=0) + 1", "            n = len(self._atoms) + 1")]),
    dict(id='RB4-explicify-max-default', kind=B, props=['C14'],
         edits=[(STD, "            m = start_map if start_map is not None else max(atoms) + 1", "            m = start_map if start_map is not None else max(atoms, default=0) + 1")]),
    # -- pending set accumulator -----------------------------------------------------------------------------------------------------------
    dict(id='R10-add-bond-overwrites-pending', kind=M, props=['C13', 'C04'], rule='B7-pending-change-set',
         edits=[(MOLC, "            if self._changed is None:\n                self._changed = {n, m}\n            else:\n                self._changed.add(n)\n                self._changed.add(m)",
                 "            self._changed = {n, m}")]),
    # -- constraint normalisers ------------------------------------------------------------------------------------------------------------
    dict(id='R11-hybridization-falsy', kind=M, props=['C08'], rule='C08.D2-constraint-normalisers',
         edits=[(QRY, "    def hybridization(self, value):\n        if value is None:", "    def hybridization(self, value):\n        if not value:")]),
    dict(id='R12-validate-range-off', kind=M, props=['C08'], rule='C08.D2-constraint-normalisers',
         edits=[(QRY, "        if value < 0 or value > 14:\n            raise ValueError(f'{prop} should be in range [0, 14]')\n        return (value,)", "        if value <= 0 or value > 14:\n            raise ValueError(f'{prop} should be in range [0, 14]')\n        return (value,)")]),
    dict(id='R13-ring-sizes-zero-lost', kind=M, props=['C08'], rule='C08.D2-constraint-normalisers',
         edits=[(QRY, "            if value < 3 and value != 0:", "            if value < 3:")]),
    dict(id='RB5-validate-range-chained', kind=B, props=['C08'],
         edits=[(QRY, "        if value < 0 or value > 14:\n            raise ValueError(f'{prop} should be in range [0, 14]')\n        return (value,)", "        if not 0 <= value <= 14:\n            raise ValueError(f'{prop} should be in range [0, 14]')\n        return (value,)")]),
    # -- BFS distance ----------------------------------------------------------------------------------------------------------------------
    dict(id='R14-sticky-bfs-lifo', kind=M, props=['C01'], rule='C01.D2-bfs-distance',
         edits=[(SMI, "            while queue:\n                n, d = queue.pop(0)\n                for m in bonds[n].keys() - seen.keys():\n                    queue.append((m, d - 10))", "            while queue:\n                n, d = queue.pop()\n                for m in bonds[n].keys() - seen.keys():\n                    queue.append((m, d - 10))")]),
    dict(id='RB6-bfs-deque', kind=B, props=['C01'],
         edits=[(SMI, "                queue = [(start, 1)]\n                while queue:\n                    n, d = queue.pop(0)", "                queue = deque([(start, 1)])\n                while queue:\n                    n, d = queue.popleft()"),
                (SMI, "from collections import defaultdict", "from collections import defaultdict, deque")]),
    # -- closure slots ---------------------------------------------------------------------------------------------------------------------
    dict(id='R15-closure-index-after-append', kind=M, props=['C03', 'C02'],
         edits=[(PRS, "                cycles[token] = (last_num, previous, len(order[last_num]))\n                order[last_num].append(None)  # Reserve a table",
                 "                order[last_num].append(None)  # Reserve a table\n                cycles[token] = (last_num, previous, len(order[last_num]))")]),
    dict(id='R16-closure-fills-closing-atom', kind=M, props=['C03', 'C02'],
         edits=[(PRS, "                order[a][ind] = last_num", "                order[last_num][ind] = a")]),
    # -- seeded canonical string -----------------------------------------------------------------------------------------------------------
    dict(id='R17-format-seeds-without-cx', kind=M, props=['C02', 'C19', 'C01'],
         edits=[(SMI, "            if (cx := self._format_cxsmiles(order)) is not None:  # cache molecule smiles\n                self.__dict__['__cached_method___str__'] = f'{smiles} {cx}'\n            else:\n                self.__dict__['__cached_method___str__'] = smiles",
                 "            self.__dict__['__cached_method___str__'] = smiles")]),
    # -- cis/trans keys --------------------------------------------------------------------------------------------------------------------
    dict(id='R18-pack-uses-centers', kind=M, props=['C10'], rule='C10.D4-cis-trans-keys',
         edits=[(PACK, "    py_stereo = molecule._stereo_cis_trans_terminals", "    py_stereo = molecule._stereo_cis_trans_centers")]),
    dict(id='R19-terminals-parity-filter', kind=M, props=['C10'], rule='C10.D4-cis-trans-keys',
         edits=[(ST, "            n, m = path[0], path[-1]\n            i = len(path) // 2\n            terminals[n] = terminals[m] = (path[i - 1], path[i])", "            n, m = path[0], path[-2]\n            i = len(path) // 2\n            terminals[n] = terminals[m] = (path[i - 1], path[i])")]),
    dict(id='RB7-unpack-centers-alias', kind=B, props=['C10'],
         edits=[(MOLC, "            for n, m, s in cis_trans:\n                if n in mol._stereo_cis_trans_centers:  # check for invalid CT data\n                    mol.bond(*mol._stereo_cis_trans_centers[n])._stereo = s",
                 "            centers = mol._stereo_cis_trans_centers\n            for n, m, s in cis_trans:\n                if n in centers:  # check for invalid CT data\n                    bond = mol.bond(*centers[n])\n                    bond._stereo = s")]),
    # -- distinctness predicates -----------------------------------------------------------------------------------------------------------
    dict(id='R20-cumulene-or', kind=M, props=['C12'], rule='C12.D6-distinctness-predicates',
         edits=[(ST, "            if morgan[n1] != morgan.get(n2, 0) and morgan[m1] != morgan.get(m2, 0):\n                n, m = path[0], path[-1]", "            if morgan[n1] != morgan.get(n2, 0) or morgan[m1] != morgan.get(m2, 0):\n                n, m = path[0], path[-1]")]),
    dict(id='R20b-allene-group-sibling-or', kind=M, props=['C12'], rule='C12.D6-distinctness-predicates',
         edits=[(ST, "                        n1, m1, n2, m2 = allenes[group[0]]\n                        if morgan[n1] != morgan.get(n2, 0) and morgan[m1] != morgan.get(m2, 0):", "                        n1, m1, n2, m2 = allenes[group[0]]\n                        if morgan[n1] != morgan.get(n2, 0) or morgan[m1] != morgan.get(m2, 0):")]),
    dict(id='R21-linker-cross-pairs', kind=M, props=['C12'], rule='C12.D6-distinctness-predicates',
         edits=[(ST, "                        if morgan[n1] != morgan[n2] and morgan[m1] != morgan[m2])", "                        if morgan[n1] != morgan[m1] and morgan[n2] != morgan[m2])")]),
    dict(id='RB8-linker-swapped-conjuncts', kind=B, props=['C12'],
         edits=[(ST, "                        if morgan[n1] != morgan[n2] and morgan[m1] != morgan[m2])", "                        if morgan[m2] != morgan[m1] and morgan[n2] != morgan[n1])")]),
]

# -- dataflow hygiene ----------------------------------------------------------------------------------------------------------------------
CATALOGUE += [
    dict(id='R22-query-get-mapping-drops-searching-scope', kind=M, props=['C07', 'C09'],
         edits=[(ISO, "        for mapping in self._get_mapping(other, automorphism_filter=automorphism_filter, searching_scope=searching_scope,\n                                         components=components, get_mapping=get_mapping):\n            reverse = None",
                 "        for mapping in self._get_mapping(other, automorphism_filter=automorphism_filter,\n                                         components=components, get_mapping=get_mapping):\n            reverse = None")]),
    dict(id='R23-explicify-start-map-ignored', kind=M, props=['C14'], rule='C14.H-dataflow-hygiene',
         edits=[(STD, "            m = start_map if start_map is not None else max(atoms) + 1", "            m = max(atoms) + 1")]),
    dict(id='R24-closure-record-unused-index', kind=M, props=['C03'],
         edits=[(PRS, "                order[a][ind] = last_num", "                order[a][order[a].index(None)] = last_num")]),
    dict(id='RB9-unused-underscore-local', kind=B, props=['C07', 'C14'],
         edits=[(STD, "            m = start_map if start_map is not None else max(atoms) + 1", "            _first = max(atoms) + 1\n            m = start_map if start_map is not None else max(atoms) + 1")]),
]
