# -*- coding: utf-8 -*-
M, B, U = 'mutant', 'benign', 'unknown-idiom'
WR = 'chython/files/mdl/write.py'
RD = 'chython/files/mdl/read.py'
CATALOGUE = [
    dict(id='L01-charge_map-2-as-3', kind=M, props=['C11'], rule='C11.D1-codebooks',
         edits=[(WR, "1: '  3', 2: '  2', 3: '  1'", "1: '  3', 2: '  3', 3: '  1'")]),
    dict(id='L02-iter-catches-narrow', kind=M, props=['C11'], rule='C11.D2-record-loop',
         edits=[(RD, "            except (ValueError, LookupError):  # damaged record. skip it.", "            except ValueError:  # damaged record. skip it.")]),
    dict(id='L03-iter-catches-invalidv2000-only', kind=M, props=['C11'],
         edits=[(RD, "            except (ValueError, LookupError):  # damaged record. skip it.", "            except (InvalidV2000, LookupError):  # damaged record. skip it."),
                (RD, "from ...containers import ReactionContainer, MoleculeContainer\n", "from ...containers import ReactionContainer, MoleculeContainer\nfrom ...exceptions import InvalidV2000\n")]),
    dict(id='L04-wedge-code', kind=M, props=['C11'], rule='C11.D1-codebooks',
         edits=[(WR, '{s == 1 and "1" or "6"}', '{s == 1 and "6" or "1"}')]),
    dict(id='L05-rxn-partition', kind=M, props=['C11'], rule='C11.D1-reaction-roles',
         edits=[('chython/files/mdl/rxn.py', "    return {'reactants': molecules[:reactants_count], 'products': molecules[reactants_count:products_count],\n            'reagents': molecules[products_count:]", "    return {'reactants': molecules[:reactants_count], 'reagents': molecules[reactants_count:products_count],\n            'products': molecules[products_count:]")]),
    dict(id='L06-parser-raises-runtimeerror', kind=M, props=['C11'], rule='C11.D2-raise-family',
         edits=[('chython/files/mdl/mol.py', "            raise ValueError('list of atoms not supported')", "            raise RuntimeError('list of atoms not supported')")]),
    dict(id='L07-m-chg-condition', kind=M, props=['C11'], rule='C11.D1-codebooks',
         edits=[(WR, "            if a.charge in (-4, 4):", "            if a.charge == 4:")]),
    dict(id='L08-v3000-rad-key', kind=M, props=['C11'], rule='C11.D1-codebooks',
         edits=[('chython/files/mdl/emol.py', "            elif k == 'RAD':", "            elif k == 'RADICAL':")]),
    dict(id='L09-slice-loop-narrow', kind=M, props=['C11'], rule='C11.D2-record-loop',
         edits=[(RD, "                        try:\n                            records.append(self.read_structure(current=False))\n                        except EOFError:\n                            break\n                        except (ValueError, LookupError):\n                            pass",
                 "                        try:\n                            records.append(self.read_structure(current=False))\n                        except EOFError:\n                            break\n                        except ValueError:\n                            pass")]),
]
