# -*- coding: utf-8 -*-
# rules added after the fifth round of independent seeded changes and the third round of independent behaviour-preserving refactorings
M, B, U = 'mutant', 'benign', 'unknown-idiom'
TOK = 'chython/files/daylight/tokenize.py'
DSM = 'chython/files/daylight/smiles.py'
DYN = 'chython/periodictable/base/dynamic.py'
BND = 'chython/containers/bonds.py'
STD = 'chython/algorithms/standardize/molecule.py'
ISO = 'chython/algorithms/isomorphism.py'
EMOL = 'chython/files/mdl/emol.py'
FMG = 'chython/algorithms/fingerprints/morgan.py'
RINGS = 'chython/algorithms/rings.py'
MO = 'chython/algorithms/standardize/_metal_organics.py'
MOLC = 'chython/containers/molecule.py'
WR = 'chython/files/mdl/write.py'

CATALOGUE = [
    # NOT-bond complement table
    dict(id='W01-not-single-admits-single', kind=M, props=['C08'], rule='C08.D5-not-bond-complement',
         edits=[(TOK, "not_dict = {'-': [2, 3, 4],", "not_dict = {'-': [1, 3, 4],")]),
    dict(id='WB1-not-dict-reordered', kind=B, props=['C08', 'C03'],
         edits=[(TOK, "'=': [1, 3, 4], '#': [1, 2, 4]", "'=': [4, 3, 1], '#': [4, 1, 2]")]),
    # list-shaped regexes
    dict(id='W02-radical-list-digit-once', kind=M, props=['C03'], rule='C03.D2-list-patterns',
         edits=[(DSM, r"cx_radicals = compile(r'\^[1-7]:[0-9]+(?:,[0-9]+)*')", r"cx_radicals = compile(r'\^[1-7]:[0-9]+(?:,[0-9])*')")]),
    dict(id='WB2-fragment-regex-digit-class', kind=B, props=['C03', 'C08'],
         edits=[(DSM, r"cx_fragments = compile(r'f:(?:[0-9]+(?:\.[0-9]+)+)(?:,(?:[0-9]+(?:\.[0-9]+)+))*')", r"cx_fragments = compile(r'f:(?:\d+(?:\.\d+)+)(?:,(?:\d+(?:\.\d+)+))*')")]),
    # hash covers eq
    dict(id='W03-dynamic-bond-hash-order-twice', kind=M, props=['C15'], rule='C15.D3-hash-covers-eq',
         edits=[(BND, "        return hash((self.order or 0, self.p_order or 0))", "        return hash((self.order or 0, self.order or 0))")]),
    dict(id='W04-dynamic-hash-drops-radical', kind=M, props=['C15'], rule='C15.D3-hash-covers-eq',
         edits=[(DYN, "self.charge, self.p_charge,\n                     self.is_radical, self.p_is_radical))", "self.charge, self.p_charge,\n                     self.is_radical))")]),
    dict(id='WB3-dynamic-hash-reordered', kind=B, props=['C15'],
         edits=[(DYN, "        return hash((self.isotope or 0, self.atomic_number, self.charge, self.p_charge,\n                     self.is_radical, self.p_is_radical))",
                 "        return hash((self.atomic_number, self.isotope or 0, self.p_charge, self.charge,\n                     self.p_is_radical, self.is_radical))")]),
    # interim cache entries
    dict(id='W05-pairs-order-not-dropped', kind=M, props=['C01', 'C13', 'C19'],
         edits=[(STD, "                    if fix:\n                        changed.append(atom_1)\n            del self.__dict__['atoms_order']  # remove invalid morgan\n",
                 "                    if fix:\n                        changed.append(atom_1)\n")]),
    dict(id='WB4-interim-order-popped', kind=B, props=['C01', 'C13', 'C19', 'C14'],
         edits=[(STD, "                    if fix:\n                        changed.append(atom_1)\n            del self.__dict__['atoms_order']  # remove invalid morgan",
                 "                    if fix:\n                        changed.append(atom_1)\n            self.__dict__.pop('atoms_order', None)  # remove invalid morgan")]),
    # polarity of the automorphism flag
    dict(id='W06-expansion-unconditional', kind=M, props=['C07'], rule='C07.D2-filter-operators',
         edits=[(ISO, "                if not automorphism_filter:\n                    for auto in sub.get_automorphism_mapping():", "                if True:\n                    for auto in sub.get_automorphism_mapping():")]),
    dict(id='W07-skip-when-filter-off', kind=M, props=['C07'], rule='C07.D2-filter-operators',
         edits=[(ISO, "                for mapping in get_mapping(components[0], scope=candidate):\n                    if automorphism_filter:", "                for mapping in get_mapping(components[0], scope=candidate):\n                    if not automorphism_filter:")]),
    dict(id='WB5-expansion-early-continue', kind=B, props=['C07', 'C09'],
         edits=[(ISO, "                yield fm\n                if not automorphism_filter:\n                    for auto in sub.get_automorphism_mapping():  # enumerate all possible automorphisms\n                        yield {n: auto[m] for n, m in fm.items()}",
                 "                yield fm\n                if automorphism_filter:\n                    continue\n                for auto in sub.get_automorphism_mapping():  # enumerate all possible automorphisms\n                    yield {n: auto[m] for n, m in fm.items()}")]),
    # a star-point id looked up among the numbered atoms
    dict(id='W08-star-point-first-arm', kind=M, props=['C11'], rule='C11.D3-star-point-lookup',
         edits=[(EMOL, "                continue\n            try:\n                star = atom_map[a2]", "                continue\n            try:\n                star = atom_map[a1]")]),
    # hoisted precomputation
    dict(id='W09-morgan-layer-uses-first-identifiers', kind=M, props=['C17'], rule='C17.D2-order-free-hash',
         edits=[(FMG, "        out = [identifiers]\n        for _ in range(1, max_radius):\n            identifiers = {idx: hash((tpl, *(x for x in sorted((int(b), identifiers[ngb])\n                                                               for ngb, b in bonds[idx].items()) for x in x)))",
                 "        env = {idx: sorted((int(b), identifiers[ngb]) for ngb, b in bonds[idx].items()) for idx in identifiers}\n        out = [identifiers]\n        for _ in range(1, max_radius):\n            identifiers = {idx: hash((tpl, *(x for x in env[idx] for x in x)))")]),
    # dead update
    dict(id='W10-closure-mask-wrong-word', kind=M, props=['C09'], rule='C09.H-dataflow-hygiene',
         edits=[(ISO, "                                v |= 0x4000000000000000\n                            elif o == 2:\n                                v |= 0x1000000000000000", "                                v |= 0x4000000000000000\n                            elif o == 2:\n                                v2 |= 0x1000000000000000")]),
    # simple cycles
    dict(id='W11-odd-ring-site-unguarded', kind=M, props=['C06'], rule='C06.D5-simple-cycles',
         edits=[(RINGS, "                    c = c1 + c2[-2:0:-1]\n                    if len(c) == len(set(c)):\n                        yield _canonic_ring(c)\n        else:", "                    c = c1 + c2[-2:0:-1]\n                    yield _canonic_ring(c)\n        else:")]),
    dict(id='WB6-simple-cycle-early-continue', kind=B, props=['C06', 'C05'],
         edits=[(RINGS, "                c = c1 + c2[-2:0:-1]\n                if len(c) == len(set(c)):\n                    yield _canonic_ring(c)\n\n\ndef _canonic_ring", "                c = c1 + c2[-2:0:-1]\n                if len(set(c)) != len(c):\n                    continue\n                yield _canonic_ring(c)\n\n\ndef _canonic_ring")]),
    # patch order
    dict(id='W12-cyanide-rule-carbon-first', kind=M, props=['C14'], rule='C14.D2-patch-order',
         edits=[(MO, "    atom_fix = {3: (1, None), 1: (-1, None)}", "    atom_fix = {1: (-1, None), 3: (1, None)}")]),
    # de-refactoring normaliser: the helper's body is what the rules see
    dict(id='W13-extracted-helper-with-wrong-table', kind=M, props=['C04'],
         edits=[(MOLC, "from .graph import Graph", "from .graph import Graph\n\n_aromatic_ch = {0: 1, 1: 1}\n"),
                (MOLC, "            if explicit_sum == 0:  # H-Ar\n                atom._implicit_hydrogens = 1\n            elif explicit_sum == 1:  # R-Ar\n                atom._implicit_hydrogens = 0\n            else:  # invalid aromaticity\n                atom._implicit_hydrogens = None",
                 "            atom._implicit_hydrogens = _aromatic_ch.get(explicit_sum)")]),
    dict(id='WB7-extracted-helper-with-table', kind=B, props=['C04', 'C13'],
         edits=[(MOLC, "from .graph import Graph", "from .graph import Graph\n\n_aromatic_ch = {0: 1, 1: 0}\n"),
                (MOLC, "            if explicit_sum == 0:  # H-Ar\n                atom._implicit_hydrogens = 1\n            elif explicit_sum == 1:  # R-Ar\n                atom._implicit_hydrogens = 0\n            else:  # invalid aromaticity\n                atom._implicit_hydrogens = None",
                 "            atom._implicit_hydrogens = _aromatic_ch.get(explicit_sum)")]),
    # M  CHG condition, any spelling
    dict(id='W14-m-chg-only-plus-four', kind=M, props=['C11'], rule='C11.D1-codebooks',
         edits=[(WR, "            if a.charge in (-4, 4):", "            if a.charge == 4:")]),
    dict(id='WB8-m-chg-abs', kind=B, props=['C11'],
         edits=[(WR, "            if a.charge in (-4, 4):", "            if a.charge == 4 or a.charge == -4:")]),
]
