# -*- coding: utf-8 -*-
# rules added after the seventh round of independent seeded changes ("subtle": wrongness depends on a fact stated elsewhere) and the fifth round of refactorings
M, B, U = 'mutant', 'benign', 'unknown-idiom'
ST = 'chython/algorithms/stereo.py'
SMI = 'chython/algorithms/smiles.py'
TH = 'chython/algorithms/aromatics/thiele.py'
RINGS = 'chython/algorithms/rings.py'
MOLC = 'chython/containers/molecule.py'
PYX = 'chython/algorithms/_isomorphism.pyx'
UNP = 'chython/containers/_unpack_v0v2.pyx'
SDF = 'chython/files/SDFrw.py'
MO = 'chython/algorithms/standardize/_metal_organics.py'
RX = 'chython/containers/reaction.py'
ISO = 'chython/algorithms/isomorphism.py'
RDK = 'chython/utils/rdkit.py'
KEK = 'chython/algorithms/aromatics/kekule.py'

CATALOGUE = [
    # H13 view signatures
    dict(id='XS01-allene-uses-centers-table', kind=M, props=['C12'], rule='C12.H-dataflow-hygiene',
         edits=[(ST, "        stereo_cis_trans = self._stereo_cis_trans_terminals", "        stereo_cis_trans = self._stereo_cis_trans_counterpart")]),
    dict(id='XS02-kekule-raw-adjacency', kind=M, props=['C05'], rule='C05.H-dataflow-hygiene',
         edits=[(TH, "        nsc = self.not_special_connectivity\n", "        nsc = self._bonds\n")]),
    # closure id scope
    dict(id='XS03-casted-cycles-per-component', kind=M, props=['C02'], rule='C02.D3-closure-id-scope',
         edits=[(SMI, "        casted_cycles = {}\n        string = []", "        string = []"), (SMI, "            tokens = defaultdict(list)\n            while stack:", "            tokens = defaultdict(list)\n            casted_cycles = {}\n            while stack:")]),
    # ring mark is a bool
    dict(id='XS04-ring-mark-from-get', kind=M, props=['C08', 'C06'],
         edits=[(MOLC, "            anr = atoms_rings.get(n) or False", "            anr = atoms_rings.get(n)")]),
    dict(id='XSB1-ring-mark-bool-call', kind=B, props=['C08', 'C06', 'C09'],
         edits=[(MOLC, "                bond._in_ring = anr and (amr := atoms_rings.get(m) or False) and not anr.isdisjoint(amr)  # have common rings",
                 "                bond._in_ring = bool(anr and (amr := atoms_rings.get(m)) and not anr.isdisjoint(amr))")]),
    # pyx scratch map
    dict(id='XS05-pyx-clear-only-on-mismatch', kind=M, props=['C07'], rule='C07.D1-admission-guards',
         edits=[(PYX, "                            # fill an array with nulls\n                            for j in range(m_atom.from_, m_atom.to_):\n                                j_bond = molecule.bonds[j]\n                                closures[j_bond.index] = 0",
                 "                            else:\n                                # fill an array with nulls\n                                for j in range(m_atom.from_, m_atom.to_):\n                                    j_bond = molecule.bonds[j]\n                                    closures[j_bond.index] = 0")]),
    # half float
    dict(id='XS06-subnormal-with-leading-bit', kind=M, props=['C10'], rule='C10.D1-half-float',
         edits=[(UNP, "    if e:\n        x += 1.\n        e -= 15\n    else:\n        e = -14", "    x += 1.\n    if e:\n        e -= 15\n    else:\n        e = -14")]),
    dict(id='XSB2-half-float-test-swapped', kind=B, props=['C10'],
         edits=[(UNP, "    if e:\n        x += 1.\n        e -= 15\n    else:\n        e = -14", "    if not e:\n        e = -14\n    else:\n        x += 1.\n        e -= 15")]),
    # SDF boundary
    dict(id='XS07-m-end-last-wins', kind=M, props=['C11'], rule='C11.D3-first-m-end',
         edits=[(SDF, "            if not m_end and line.startswith('M  END'):", "            if line.startswith('M  END'):")]),
    # overlap atoms
    dict(id='XS08-any-atoms-without-metals', kind=M, props=['C14'], rule='C14.D2-overlap-atoms',
         edits=[(MO, "        any_atoms.extend(n for n, a in q.atoms() if a.atomic_symbol == 'M')\n", "")]),
    dict(id='XSB3-any-atoms-one-comprehension', kind=B, props=['C14', 'C05'],
         edits=[(MO, "        any_atoms = [n for n, a in q.atoms() if a.atomic_symbol == 'A' and n not in atom_fix]\n        any_atoms.extend(n for n, a in q.atoms() if a.atomic_symbol == 'M')\n",
                 "        any_atoms = [n for n, a in q.atoms() if a.atomic_symbol == 'M' or a.atomic_symbol == 'A' and n not in atom_fix]\n")]),
    # fragment counter
    dict(id='XS09-counter-skips-salt-pieces', kind=M, props=['C15'], rule='C15.D1-fragment-counter',
         edits=[(RX, "                    count += m.connected_components_count\n", "                    count += 1\n")]),
    dict(id='XSB4-counter-single-add', kind=B, props=['C15'],
         edits=[(RX, "                if m.connected_components_count > 1:\n                    contract.append([str(x + count) for x in range(m.connected_components_count)])\n                    count += m.connected_components_count\n                else:\n                    count += 1",
                 "                if m.connected_components_count > 1:\n                    contract.append([str(x + count) for x in range(m.connected_components_count)])\n                count += m.connected_components_count")]),
    # isotope window of the query encoder
    dict(id='XS10-query-isotope-window-narrow', kind=M, props=['C09'], rule='C09.D1-i-positions',
         edits=[(ISO, "                        v3 = 1 << (a.isotope - a.mdl_isotope + 54)\n                        if a.is_radical:", "                        shift = a.isotope - a.mdl_isotope\n                        v3 = 1 << (shift + 54) if -7 <= shift <= 7 else 0\n                        if a.is_radical:")]),
    dict(id='XSB5-query-isotope-alias', kind=B, props=['C09', 'C18'],
         edits=[(ISO, "                        v3 = 1 << (a.isotope - a.mdl_isotope + 54)\n                        if a.is_radical:", "                        shift = a.isotope - a.mdl_isotope\n                        v3 = 1 << (shift + 54)\n                        if a.is_radical:")]),
    # index inverse
    dict(id='XS11-rdkit-inverse-sorted-values', kind=M, props=['C20'], rule='C20.D5-index-inverse',
         edits=[(RDK, "    inverted = {v: k for k, v in mapping.items()}", "    inverted = sorted(mapping, key=mapping.get, reverse=True)")]),
    dict(id='XSB6-rdkit-inverse-list', kind=B, props=['C20'],
         edits=[(RDK, "    inverted = {v: k for k, v in mapping.items()}", "    inverted = list(mapping)  # insertion order is rdkit index order")]),
    # pid tables
    dict(id='XS12-pid2-kept-on-new-shortest', kind=M, props=['C06'], rule='C06.D5-pid-tables',
         edits=[(RINGS, "                elif ij > ikj:  # A new shortest path\n                    pid2[i][j] = {}\n", "                elif ij > ikj:  # A new shortest path\n                    pid2[i][j].update({})\n")]),
    # hydrogen last
    dict(id='XS13-tetrahedron-hydrogen-first', kind=M, props=['C12', 'C02'],
         edits=[(ST, "                    order = (*order, next(x for x in env if self._atoms[x] == H))  # see translate scheme", "                    order = (next(x for x in env if self._atoms[x] == H), *order)  # see translate scheme")]),
    # local rename must stay silent (normaliser)
    dict(id='XSB7-locals-renamed-in-kekule', kind=B, props=['C05', 'C04', 'C13'],
         edits=[(KEK, "                if not mm and not match.isdisjoint(seen):  # prevent double patching of atoms", "                if not mm and not match.isdisjoint(patched_atoms):  # prevent double patching of atoms"),
                (KEK, "                seen.update(match)", "                patched_atoms.update(match)"),
                (KEK, "        seen = set()\n        keep = True\n        for q, af, bf, mm in rules:", "        patched_atoms = set()\n        keep = True\n        for q, af, bf, mm in rules:"),
                (KEK, "        if seen:\n            self.flush_cache(keep_sssr=keep, keep_components=keep)", "        if patched_atoms:\n            self.flush_cache(keep_sssr=keep, keep_components=keep)")]),
]
