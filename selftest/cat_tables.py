# -*- coding: utf-8 -*-
# mutants / benign variants for the table engines (C18, C12, C10 tables)
M = 'mutant'
B = 'benign'
U = 'unknown-idiom'
ST = 'chython/algorithms/stereo.py'
CATALOGUE = [
    dict(id='T01-tetra-flip', kind=M, props=['C12'], rule='C12.D1-tetrahedron-table',
         edits=[(ST, '(0, 3, 1): False,', '(0, 3, 1): True,')]),
    dict(id='T02-alkene-flip', kind=M, props=['C12'], rule='C12.D2-alkene-table',
         edits=[(ST, '(2, 3): False,', '(2, 3): True,')]),
    dict(id='T03-allene-ladder-index', kind=M, props=['C12'], rule='C12.D3-ladders',
         edits=[(ST, """        n0, n1, n2, n3 = self.stereogenic_allenes[c]
        if nn == n0:  # same start
            t0 = 0
            if nm == n1:
                t1 = 1
            elif nm == n3 or n3 is None and self._atoms[nm] == H:
                t1 = 3""", """        n0, n1, n2, n3 = self.stereogenic_allenes[c]
        if nn == n0:  # same start
            t0 = 0
            if nm == n1:
                t1 = 1
            elif nm == n3 or n3 is None and self._atoms[nm] == H:
                t1 = 1""")]),
    dict(id='T04-cistrans-swap-dropped', kind=M, props=['C12'], rule='C12.D3-ladders',
         edits=[(ST, "            n, m = m, n  # in alkenes sign not order depended\n            nn, nm = nm, nn\n",
                 "            n, m = m, n  # in alkenes sign not order depended\n")]),
    dict(id='T05-tetra-flip-inverted', kind=M, props=['C12'], rule='C12.D1-tetrahedron-use',
         edits=[(ST, "        if _tetrahedron_translate[translate]:\n            return not s\n        return s",
                 "        if _tetrahedron_translate[translate]:\n            return s\n        return not s")]),
    dict(id='T06-tetra-h-first', kind=M, props=['C12'], rule='C12.D1-tetrahedron-use',
         edits=[(ST, "order = (*order, next(x for x in env if self._atoms[x] == H))",
                 "order = (next(x for x in env if self._atoms[x] == H), *order)")]),
    dict(id='T07-fallback-wrong-index', kind=M, props=['C12'], rule='C12.D3-ladders',
         edits=[(ST, """        elif nn == n3 or n3 is None and self._atoms[nn] == H:
            t0 = 3
            if nm == n0:
                t1 = 0
            elif nm == n2 or n2 is None and self._atoms[nm] == H:
                t1 = 2
            else:
                raise KeyError
        else:
            raise KeyError

        if _alkene_translate[(t0, t1)]:
            return not s
        return s

    @cached_property
    def _wedge_map""", """        elif nn == n3 or n2 is None and self._atoms[nn] == H:
            t0 = 3
            if nm == n0:
                t1 = 0
            elif nm == n2 or n2 is None and self._atoms[nm] == H:
                t1 = 2
            else:
                raise KeyError
        else:
            raise KeyError

        if _alkene_translate[(t0, t1)]:
            return not s
        return s

    @cached_property
    def _wedge_map""")]),
    dict(id='T10-Hs-typo-back', kind=M, props=['C18'], rule='C18.2-isotopes',
         edits=[('chython/periodictable/groupVIII.py', 'return {270: 1.0}', 'return {240: 1.0}')]),
    dict(id='T11-pack-common-isotope', kind=M, props=['C18'], rule='C18.4-duplicates',
         edits=[('chython/containers/_pack_v2.pyx', 'common_isotopes[:] = [0, -15, -12, -9, -7, -5, -4, -2, 0, 3,', 'common_isotopes[:] = [0, -15, -12, -9, -7, -5, -4, -2, 1, 3,')]),
    dict(id='T12-unpack-elements-swap', kind=M, props=['C18'], rule='C18.4-duplicates',
         edits=[('chython/containers/_unpack_v0v2.pyx', 'elements = [None, H, He, Li, Be, B, C, N, O, F,', 'elements = [None, H, He, Li, Be, B, C, O, N, F,')]),
    dict(id='T13-valence-symbol-typo', kind=M, props=['C18'], rule='C18.5-valence-compile',
         edits=[('chython/periodictable/groupI.py', "return (1, False, 0, ()), (0, True, 0, ()), (-1, False, 0, ())", "return (1, False, 0, ()), (0, True, 0, ((1, 'Cx'),)), (-1, False, 0, ())")]),
    dict(id='T14-query-loop-number', kind=M, props=['C18'], rule='C18.6-generated',
         edits=[('chython/periodictable/__init__.py', "                                  'atomic_number': v.atomic_number,\n                                  'mdl_isotope': v.mdl_isotope})",
                 "                                  'atomic_number': v.atomic_number,\n                                  'mdl_isotope': v.atomic_number})")]),
    dict(id='T15-isotope-out-of-window', kind=M, props=['C18'], rule='C18.3-representable',
         edits=[('chython/periodictable/groupI.py', "return {1: 0.999885, 2: 0.000115, 3: 0.}", "return {1: 0.999885, 2: 0.000115, 3: 0., 12: 0.}"),
                ('chython/periodictable/groupI.py', "return {1: 1.007825, 2: 2.014102, 3: 3.016049}", "return {1: 1.007825, 2: 2.014102, 3: 3.016049, 12: 12.0}")]),
    dict(id='T16-group-base-wrong', kind=M, props=['C18'], rule='C18.1-bijection',
         edits=[('chython/periodictable/groupXVIII.py', 'class Rn(Element, PeriodVI, GroupXVIII):', 'class Rn(Element, PeriodVI, GroupXVII):'),
                ('chython/periodictable/groupXVIII.py', 'from .base.groups import GroupXVIII', 'from .base.groups import GroupXVIII, GroupXVII')]),
    dict(id='T17-charge-range-widened', kind=M, props=['C18'], rule='C18.3-representable',
         edits=[('chython/periodictable/base/element.py', "        elif value > 4 or value < -4:\n            raise ValueError('formal charge should be in range [-4, 4]')\n        self._charge = value",
                 "        elif value > 5 or value < -5:\n            raise ValueError('formal charge should be in range [-4, 4]')\n        self._charge = value")]),
    dict(id='TB1-reformat-table', kind=B, props=['C12'],
         edits=[(ST, "_alkene_translate = {(0, 1): False, (1, 0): False, (0, 3): True, (3, 0): True,\n                     (2, 3): False, (3, 2): False, (2, 1): True, (1, 2): True}",
                 "_alkene_translate = {\n    (3, 2): False, (2, 3): False,\n    (0, 1): False, (1, 0): False,\n    (0, 3): True, (3, 0): True,\n    (2, 1): True, (1, 2): True,\n}")]),
    dict(id='TB2-unrelated-element-attr', kind=B, props=['C18'],
         edits=[('chython/periodictable/groupI.py', "class Li(Element, PeriodII, GroupI):\n    __slots__ = ()\n", "class Li(Element, PeriodII, GroupI):\n    __slots__ = ()\n\n    @property\n    def is_alkali(self):\n        return True\n")]),
    dict(id='TU1-tetra-key-rewritten', kind=U, props=['C12'],
         edits=[(ST, "        translate = tuple(order.index(x) for x in env[:3])\n        if _tetrahedron_translate[translate]:",
                 "        a, b, c = env[0], env[1], env[2]\n        translate = (order.index(a), order.index(b), order.index(c))\n        if _tetrahedron_translate[translate]:")]),
]
CATALOGUE += [
    dict(id='T20-flush-stereo-drops-less', kind=M, props=['C12'], rule='C12.D5-stereo-cache',
         edits=[(ST, "        self.__dict__.pop('_chiral_morgan', None)\n", "")]),
    dict(id='T21-thiele-no-fix_stereo', kind=M, props=['C12'], rule='C12.D5-fix_stereo-reached',
         edits=[('chython/algorithms/aromatics/thiele.py', "        self.fix_stereo()  # check if any stereo centers vanished.\n        return True", "        return True")]),
]
