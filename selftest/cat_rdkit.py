# -*- coding: utf-8 -*-
M, B, U = 'mutant', 'benign', 'unknown-idiom'
RD = 'chython/utils/rdkit.py'
CATALOGUE = [
    dict(id='D01-export-chiral-swapped', kind=M, props=['C20'], rule='C20.D2-sign-conventions',
         edits=[(RD, "ra.SetChiralTag(_chiral_ccw if s else _chiral_cw)", "ra.SetChiralTag(_chiral_cw if s else _chiral_ccw)")]),
    dict(id='D02-bond-map-aromatic-single', kind=M, props=['C20'], rule='C20.D1-bond-books',
         edits=[(RD, "4: BondType.AROMATIC, 8: BondType.DATIVE}", "4: BondType.SINGLE, 8: BondType.DATIVE}")]),
    dict(id='D03-cis-constant-swapped', kind=M, props=['C20'], rule='C20.D2-sign-conventions',
         edits=[(RD, "_trans = BondStereo.STEREOE\n_cis = BondStereo.STEREOZ", "_trans = BondStereo.STEREOZ\n_cis = BondStereo.STEREOE")]),
    dict(id='D04-import-drops-isotope', kind=M, props=['C20'], rule='C20.D3-attribute-coverage',
         edits=[(RD, "a = e(ra.GetIsotope() or None, charge=", "a = e(None, charge=")]),
    dict(id='D05-export-drops-radical', kind=M, props=['C20'], rule='C20.D3-attribute-coverage',
         edits=[(RD, "        if a.is_radical:\n            ra.SetNumRadicalElectrons(1)\n", "")]),
    dict(id='D06-import-cis-polarity', kind=M, props=['C20'], rule='C20.D2-sign-conventions',
         edits=[(RD, "mapping[nn], mapping[nm], s == _cis))", "mapping[nn], mapping[nm], s == _trans))")]),
]
