# -*- coding: utf-8 -*-
# rules added after the ninth round of independent seeded changes (sa/r_round9.py)
M, B, U = 'mutant', 'benign', 'unknown-idiom'
ELT = 'chython/periodictable/base/element.py'
DSMI = 'chython/files/daylight/smiles.py'
KEK = 'chython/algorithms/aromatics/kekule.py'
ISO = 'chython/algorithms/isomorphism.py'
TOK = 'chython/files/daylight/tokenize.py'
ST = 'chython/algorithms/stereo.py'
READ = 'chython/files/mdl/read.py'
GRAPH = 'chython/containers/graph.py'
STD = 'chython/algorithms/standardize/molecule.py'
RXN = 'chython/containers/reaction.py'
MFP = 'chython/algorithms/fingerprints/morgan.py'
RINGS = 'chython/algorithms/rings.py'
DYN = 'chython/periodictable/base/dynamic.py'

CATALOGUE = [
    dict(id='XU01-hash-without-ring-mark', kind=M, props=['C01'], rule='C01.D6-morgan-seed-fields',
         edits=[(ELT, "                     self.implicit_hydrogens or 0, self.in_ring))", "                     self.implicit_hydrogens or 0))")]),
    dict(id='XUB1-hash-fields-reordered', kind=B, props=['C01', 'C02', 'C19'],
         edits=[(ELT, "        return hash((self.isotope or 0, self.atomic_number, self.charge, self.is_radical,\n                     self.implicit_hydrogens or 0, self.in_ring))",
                 "        return hash((self.atomic_number, self.isotope or 0, self.charge, self.is_radical,\n                     self.in_ring, self.implicit_hydrogens or 0))")]),
    dict(id='XU02-reader-drops-hydrogens-from-list', kind=M, props=['C02', 'C12'],
         edits=[(DSMI, "            stereo.append((molecule.add_atom_stereo, n, order[n], s))", "            stereo.append((molecule.add_atom_stereo, n, [x for x in order[n] if x in st[n]], s))")]),
    dict(id='XUB2-reader-list-alias', kind=B, props=['C02', 'C12', 'C03'],
         edits=[(DSMI, "            stereo.append((molecule.add_atom_stereo, n, order[n], s))", "            written = order[n]\n            stereo.append((molecule.add_atom_stereo, n, written, s))")]),
    dict(id='XU03-double-bonded-keys-only', kind=M, props=['C05'], rule='C05.D7-emptied-lists-filtered',
         edits=[(KEK, "        double_bonded = {n for n, ms in double_bonded.items() if ms and n in rings}", "        double_bonded = {n for n, ms in double_bonded.items() if n in rings}")]),
    dict(id='XUB3-double-bonded-filter-order', kind=B, props=['C05'],
         edits=[(KEK, "        double_bonded = {n for n, ms in double_bonded.items() if ms and n in rings}", "        double_bonded = {n for n, ms in double_bonded.items() if n in rings and ms}")]),
    dict(id='XU04-out-of-scope-component-skipped', kind=M, props=['C07'], rule='C07.D5-scope-abandons-permutation',
         edits=[(ISO, "                        candidate = searching_scope.intersection(candidate)\n                        if not candidate:\n                            break\n                    mappers.append(",
                 "                        candidate = searching_scope.intersection(candidate)\n                        if not candidate:\n                            continue\n                    mappers.append(")]),
    dict(id='XU05-mixed-or-list-accepted', kind=M, props=['C08'], rule='C08.D7-or-list-one-primitive',
         edits=[(TOK, "            elif len(p) != 1 and len({x[0] for x in p}) > 1:\n                raise IncorrectSmarts('Unsupported OR statement')\n            elif (t := p[0][0])",
                 "            elif (t := p[0][0])")]),
    dict(id='XUB4-mixed-or-list-other-spelling', kind=B, props=['C08'],
         edits=[(TOK, "            elif len(p) != 1 and len({x[0] for x in p}) > 1:", "            elif len(set(x[0] for x in p)) > 1:")]),
    dict(id='XU06-central-atom-key-off-by-one', kind=M, props=['C10', 'C12'],
         edits=[(ST, "terminals[path[i]] = terminals[path[i - 1]] = (n, m)", "terminals[path[i]] = terminals[path[i + 1]] = (n, m)")]),
    dict(id='XUB5-central-atoms-separate-statements', kind=B, props=['C10', 'C12'],
         edits=[(ST, "            terminals[n] = terminals[m] = terminals[path[i]] = terminals[path[i - 1]] = (n, m)",
                 "            terminals[n] = terminals[m] = (n, m)\n            terminals[path[i - 1]] = terminals[path[-i]] = (n, m)")]),
    dict(id='XU07-slice-shortcut-on-order', kind=M, props=['C11'], rule='C11.D7-slice-shortcut',
         edits=[(READ, "                if start == stop:\n                    return []", "                if stop <= start:\n                    return []")]),
    dict(id='XUB6-slice-shortcut-by-range', kind=B, props=['C11'],
         edits=[(READ, "                if start == stop:\n                    return []", "                if start == stop or step > 0 and start > stop:\n                    return []")]),
    dict(id='XU08-prune-isolated-only-if-plain', kind=M, props=['C12'], rule='C12.D6-prune-condition',
         edits=[(ST, "if not ms or len(ms) == 1 and n not in stereogenic)", "if (not ms or len(ms) == 1) and n not in stereogenic)")]),
    dict(id='XUB7-prune-condition-len-form', kind=B, props=['C12'],
         edits=[(ST, "if not ms or len(ms) == 1 and n not in stereogenic)", "if len(ms) == 0 or (len(ms) == 1 and n not in stereogenic))")]),
    dict(id='XU09-back-connection-tested-in-row', kind=M, props=['C13'], rule='C13.D6-back-connection-guard',
         edits=[(GRAPH, "                if m in cb:  # bond partially exists. need back-connection.", "                if m in cbn:  # bond partially exists. need back-connection.")]),
    dict(id='XU10-radical-state-truth-test', kind=M, props=['C14'], rule='C14.D6-radical-patch-tristate',
         edits=[(STD, "                    if ir is not None:\n                        a._is_radical = ir", "                    if ir:\n                        a._is_radical = ir")]),
    dict(id='XUB8-radical-state-early-skip', kind=B, props=['C14'],
         edits=[(STD, "                    if ir is not None:\n                        a._is_radical = ir", "                    if ir is None:\n                        continue\n                    a._is_radical = ir")]),
    dict(id='XU11-radical-slots-only-for-radical-molecules', kind=M, props=['C15'], rule='C15.D6-positional-radical-list',
         edits=[(RXN, "                radicals.extend(m.atom(n).is_radical for n in o)", "                if m.is_radical:\n                    radicals.extend(m.atom(n).is_radical for n in o)")]),
    dict(id='XU12-isolated-atoms-keep-identifier', kind=M, props=['C17'], rule='C17.D6-morgan-layers-fresh',
         edits=[(MFP, "                                                               for ngb, b in bonds[idx].items()) for x in x)))\n                           for idx, tpl in identifiers.items()}",
                 "                                                               for ngb, b in bonds[idx].items()) for x in x))) if bonds[idx] else tpl\n                           for idx, tpl in identifiers.items()}")]),
    dict(id='XU13-second-cut-same-direction', kind=M, props=['C06'], rule='C06.D7-scissors-pairing',
         edits=[(RINGS, "                    c = _canonic_ring((*_ring_scissors(c, n, m), *_ring_scissors(r, m, n)[1:-1]))", "                    c = _canonic_ring((*_ring_scissors(c, n, m), *_ring_scissors(r, n, m)[1:-1]))")]),
    dict(id='XUB9-glue-with-named-parts', kind=B, props=['C06'],
         edits=[(RINGS, "                            mc = _canonic_ring((*_ring_scissors(parent, n, m), *_ring_scissors(child, m, n)[1:-1]))",
                 "                            head = _ring_scissors(parent, n, m)\n                            tail = _ring_scissors(child, m, n)[1:-1]\n                            mc = _canonic_ring((*head, *tail))")]),
    dict(id='XU14-prefix-by-lstrip', kind=M, props=['C18'], rule='C18.D6-strip-charset',
         edits=[(DYN, "        return self.__class__.__name__[7:]", "        return self.__class__.__name__.lstrip('Dynamic')")]),
    dict(id='XUB10-prefix-by-removeprefix', kind=B, props=['C18'],
         edits=[(DYN, "        return self.__class__.__name__[7:]", "        return self.__class__.__name__.removeprefix('Dynamic')")]),
]

CATALOGUE += [
    # the repaired defect comes back: the header line met with an empty buffer ends the record
    dict(id='XU15-rdf-own-header-ends-record', kind=M, props=['C11'], rule='C11.D7-index-lands-on-header',
         edits=[('chython/files/RDFrw.py', "                if buffer:  # next record found\n                    break\n                continue  # own header of the record: seek() positions the file on it\n",
                 "                break\n")]),
    dict(id='XUB11-rdf-own-header-skipped-first', kind=B, props=['C11'],
         edits=[('chython/files/RDFrw.py', "                if buffer:  # next record found\n                    break\n                continue  # own header of the record: seek() positions the file on it\n",
                 "                if not buffer:  # own header of the record\n                    continue\n                break\n")]),
]
