# -*- coding: utf-8 -*-
M, B, U = 'mutant', 'benign', 'unknown-idiom'
PK = 'chython/containers/_pack_v2.pyx'
UP = 'chython/containers/_unpack_v0v2.pyx'
RX = 'chython/containers/reaction.py'
MOLC = 'chython/containers/molecule.py'
CATALOGUE = [
    dict(id='B01-writer-charge-shift', kind=M, props=['C10'], rule='C10.D4-layout',
         edits=[(PK, "        hcr |= (charge + 4) << 1", "        hcr |= (charge + 4) << 2")]),
    dict(id='B02-reader-isotope-mask', kind=M, props=['C10'], rule='C10.D4-layout',
         edits=[(UP, "        isotope = (a & 0x0f) << 1 | b >> 7", "        isotope = (a & 0x07) << 1 | b >> 7")]),
    dict(id='B03-reader-charge-offset', kind=M, props=['C10'], rule='C10.D4-layout',
         edits=[(UP, "        py_atom._charge = ((a >> 1) & 0x0f) - 4", "        py_atom._charge = ((a >> 1) & 0x0f) - 3")]),
    dict(id='B04-writer-atom-number-nibble', kind=M, props=['C10'], rule='C10.D4-layout',
         edits=[(PK, "        data[atoms_shift + 1] = n << 4 | ngb_count  # 1-4b AN, 4b NC", "        data[atoms_shift + 1] = n << 3 | ngb_count  # 1-4b AN, 4b NC")]),
    dict(id='B05-header-ct-shift', kind=M, props=['C10'], rule='C10.D4-layout',
         edits=[(UP, "    cis_trans_count = (b & 0x0f) << 8 | c", "    cis_trans_count = (b & 0x0f) << 4 | c")]),
    dict(id='B06-pack_len-ceil-wrong', kind=M, props=['C10'], rule='C10.D3-sizes',
         edits=[(RX, "shift += 3 * neighbors + ceil(neighbors * 3 / 8) + (acs & 0x0fff) * 4", "shift += 3 * neighbors + ceil(neighbors * 3 / 4) + (acs & 0x0fff) * 4")]),
    dict(id='B07-writer-atom-record-size', kind=M, props=['C10'], rule='C10.D3-sizes',
         edits=[(PK, "    bonds_shift = 4 + 9 * atoms_count  # connection table starting byte", "    bonds_shift = 4 + 8 * atoms_count  # connection table starting byte")]),
    dict(id='B08-limit-neighbours', kind=M, props=['C10'], rule='C10.D2-limits',
         edits=[(MOLC, "            if any(len(x) > 15 for x in bonds.values()):", "            if any(len(x) > 16 for x in bonds.values()):")]),
    dict(id='B09-stereo-code-swapped', kind=M, props=['C10'], rule='C10.D4-stereo-codes',
         edits=[(UP, "        elif stereo == 0b0010:\n            py_nan_bool = False\n        elif stereo == 0b0011:\n            py_nan_bool = True", "        elif stereo == 0b0010:\n            py_nan_bool = True\n        elif stereo == 0b0011:\n            py_nan_bool = False")]),
    dict(id='B10-none-hydrogens-code', kind=M, props=['C10'], rule='C10.D4-layout',
         edits=[(UP, "        if hydrogens == 7:", "        if hydrogens == 6:")]),
    dict(id='B11-unpack-isotope-table', kind=M, props=['C10'], rule='C10.D1-isotope-tables',
         edits=[(UP, "common_isotopes[:] = [0, -15, -12, -9, -7, -5, -4, -2, 0, 3,", "common_isotopes[:] = [0, -15, -12, -9, -7, -5, -4, -2, 0, 4,")]),
    dict(id='B12-xy-bytes-swapped', kind=M, props=['C10'], rule='C10.D4-layout',
         edits=[(PK, "        double_to_float16(py_atom.x, &data[atoms_shift + 4])\n        double_to_float16(py_atom.y, &data[atoms_shift + 6])", "        double_to_float16(py_atom.y, &data[atoms_shift + 4])\n        double_to_float16(py_atom.x, &data[atoms_shift + 6])")]),
    dict(id='B13-reaction-header-order', kind=M, props=['C10'], rule='C10.D2-limits',
         edits=[(RX, "bytearray((1, len(self.reactants), len(self.reagents), len(self.products)))", "bytearray((1, len(self.reactants), len(self.products), len(self.reagents)))")]),
]
