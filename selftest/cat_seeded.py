# -*- coding: utf-8 -*-
# the independent seeded changes of /verif/seeded/<id>/ (sub-agents saw only the property text): each must be reported by the checks
# recorded in its meta.json
import json
import os
HERE = os.path.dirname(os.path.abspath(__file__))
SEEDED = os.path.join(os.path.dirname(HERE), 'seeded')
CATALOGUE = []
for sid in sorted(os.listdir(SEEDED)):
    mp = os.path.join(SEEDED, sid, 'meta.json')
    if os.path.exists(mp):
        m = json.load(open(mp))
        if m.get('detected_by'):
            CATALOGUE.append(dict(id=f'Z-{sid}', kind='mutant', props=m['detected_by'], patch=os.path.join(SEEDED, sid, 'patch.diff')))
