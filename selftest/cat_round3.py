# -*- coding: utf-8 -*-
# rules added after the third round of independent seeded changes
M, B, U = 'mutant', 'benign', 'unknown-idiom'
TOK = 'chython/files/daylight/tokenize.py'
SALT = 'chython/algorithms/standardize/salts.py'
MOLC = 'chython/containers/molecule.py'
INCHI = 'chython/files/libinchi/wrapper.py'
DSM = 'chython/files/daylight/smiles.py'
DSA = 'chython/files/daylight/smarts.py'
MDLS = 'chython/files/mdl/stereo.py'
FPM = 'chython/algorithms/fingerprints/morgan.py'
CINIT = 'chython/containers/__init__.py'
RES = 'chython/algorithms/standardize/resonance.py'
ISO = 'chython/algorithms/isomorphism.py'
ELT = 'chython/periodictable/base/element.py'
ST = 'chython/algorithms/stereo.py'
TH = 'chython/algorithms/aromatics/thiele.py'

CATALOGUE = [
    # tokenizer one-step exploration
    dict(id='T01-single-digit-zero-accepted', kind=M, props=['C03', 'C08'],
         edits=[(TOK, "                if s == '0':\n                    raise IncorrectSmiles('number starts with 0')\n                elif token:", "                if token:")]),
    dict(id='T02-percent-then-letter-accepted', kind=M, props=['C03'], rule='C03.D3-tokenizer-rejections',
         edits=[(TOK, "        elif token_type == 7:\n            raise IncorrectSmiles('expected closure number')\n", "")]),
    dict(id='TB1-state-test-respelled', kind=B, props=['C03', 'C08'],
         edits=[(TOK, "        elif s.isnumeric():  # closures\n            if token_type in (10, 11):", "        elif s.isnumeric():  # closures\n            if token_type == 10 or token_type == 11:")]),
    # keep flags
    dict(id='T03-remove-metals-keeps-components', kind=M, props=['C13', 'C14'],
         edits=[(SALT, "            self.flush_cache(keep_sssr=True)", "            self.flush_cache(keep_sssr=True, keep_components=True)")]),
    # exists-rule semantics of check_implicit
    dict(id='T04-check-implicit-default-true', kind=M, props=['C04'], rule='C04.D3-sibling-agreement',
         edits=[(MOLC, "                return True\n        return False\n\n    def flush_cache", "                return True\n        return True\n\n    def flush_cache")]),
    dict(id='T05-check-implicit-count-outside', kind=M, props=['C04'], rule='C04.D3-sibling-agreement',
         edits=[(MOLC, "            if h == _h and s.issubset(explicit_dict) and all(explicit_dict[k] >= c for k, c in d.items()):\n                return True",
                 "            if s.issubset(explicit_dict) and all(explicit_dict[k] >= c for k, c in d.items()):\n                return h == _h")]),
    dict(id='TB2-check-implicit-conjuncts-reordered', kind=B, props=['C04'],
         edits=[(MOLC, "            if h == _h and s.issubset(explicit_dict) and all(explicit_dict[k] >= c for k, c in d.items()):\n                return True",
                 "            if s.issubset(explicit_dict) and h == _h and all(explicit_dict[k] >= c for k, c in d.items()):\n                return True")]),
    # retry flush
    dict(id='T06-inchi-retry-without-flush', kind=M, props=['C12'], rule='C12.D5-retry-flush',
         edits=[(INCHI, "            molecule.flush_stereo_cache()\n            continue", "            continue")]),
    dict(id='T07-smiles-retry-flush-hoisted', kind=M, props=['C02', 'C03', 'C12'],
         edits=[(DSM, "            molecule.flush_stereo_cache()\n            continue\n        break\n", "            continue\n        break\n    molecule.flush_stereo_cache()\n")]),
    dict(id='TB3-mdl-retry-flush-full', kind=B, props=['C11', 'C12'],
         edits=[(MDLS, "            molecule.flush_stereo_cache()\n            if calc_cis_trans:", "            molecule.flush_cache(keep_sssr=True, keep_components=True)\n            if calc_cis_trans:")]),
    # cx radical lists
    dict(id='T08-smiles-cx-first-index-only', kind=M, props=['C02', 'C03'],
         edits=[(DSM, "cx_radicals = compile(r'\\^[1-7]:[0-9]+(?:,[0-9]+)*')", "cx_radicals = compile(r'\\^[1-7]:([0-9]+)(?:,[0-9]+)*')")]),
    dict(id='TB4-smarts-cx-whole-list-group', kind=B, props=['C08', 'C03'],
         edits=[(DSA, "cx_radicals = compile(r'\\^[1-7]:[0-9]+(?:,[0-9]+)*')", "cx_radicals = compile(r'\\^[1-7]:([0-9]+(?:,[0-9]+)*)')"),
                (DSA, "                for i in x[3:].split(','):", "                for i in x.split(','):")]),
    # morgan layers
    dict(id='T09-morgan-extra-round', kind=M, props=['C17'], rule='C17.D3-morgan-layers',
         edits=[(FPM, "        for _ in range(1, max_radius):", "        for _ in range(max_radius):")]),
    dict(id='TB5-morgan-rounds-respelled', kind=B, props=['C17'],
         edits=[(FPM, "        for _ in range(1, max_radius):", "        for _ in range(max_radius - 1):")]),
    # unpach dispatch
    dict(id='T10-unpach-header-two-only', kind=M, props=['C10'], rule='C10.D3-unpach-dispatch',
         edits=[(CINIT, "    try:\n        return MoleculeContainer.unpack(data, compressed=False)\n    except ValueError:\n        pass\n    # second try\n",
                 "    if data[0] == 2:\n        return MoleculeContainer.unpack(data, compressed=False)\n")]),
    dict(id='TB6-unpach-header-both-versions', kind=B, props=['C10'],
         edits=[(CINIT, "    try:\n        return MoleculeContainer.unpack(data, compressed=False)\n    except ValueError:\n        pass\n    # second try\n",
                 "    if data[0] in (0, 2):\n        return MoleculeContainer.unpack(data, compressed=False)\n")]),
    # tentative rollback
    dict(id='T11-resonance-no-rollback', kind=M, props=['C14', 'C13'],
         edits=[(RES, "                        atoms[m]._charge += 1  # roll back\n                        continue", "                        continue")]),
    # filter memory
    dict(id='T12-filter-memory-per-assignment', kind=M, props=['C07'], rule='C07.D2-filter-operators',
         edits=[(ISO, "                else:\n                    for match in lazy_product(*mappers):\n                        mapping = match[0].copy()", "                else:\n                    seen = set()\n                    for match in lazy_product(*mappers):\n                        mapping = match[0].copy()")]),
    dict(id='TB7-filter-memory-per-component-single-branch', kind=B, props=['C07'],
         edits=[(ISO, "                    if not candidate:\n                        continue\n                for mapping in get_mapping(components[0], scope=candidate):", "                    if not candidate:\n                        continue\n                seen = set()\n                for mapping in get_mapping(components[0], scope=candidate):")]),
    # isotope setter
    dict(id='T13-isotope-positive-abundance-only', kind=M, props=['C18', 'C10'],
         edits=[(ELT, "            if value not in self.isotopes_distribution:", "            if self.isotopes_distribution.get(value, 0) <= 0:")]),
    dict(id='TB8-isotope-membership-in-masses', kind=B, props=['C18'],
         edits=[(ELT, "            if value not in self.isotopes_distribution:", "            if self.isotopes_distribution.get(value) is None:")]),
    # pair key symmetry
    dict(id='T14-cis-trans-group-key-second-terminal', kind=M, props=['C01', 'C12'],
         edits=[(ST, "                    if (mn := morgan[n]) <= (mm := morgan[m]):\n                        grouped_stereo[mn].append((n, nm))\n                    else:\n                        grouped_stereo[mm].append((m, nm))",
                 "                    grouped_stereo[morgan[m]].append((m, nm))")]),
    dict(id='TB9-cis-trans-group-key-min', kind=B, props=['C01', 'C12'],
         edits=[(ST, "                    if (mn := morgan[n]) <= (mm := morgan[m]):\n                        grouped_stereo[mn].append((n, nm))\n                    else:\n                        grouped_stereo[mm].append((m, nm))",
                 "                    x = min(n, m, key=morgan.get)\n                    grouped_stereo[min(morgan[n], morgan[m])].append((x, nm))")]),
    # exocyclic double bond
    dict(id='T15-exocyclic-any-multiple-bond', kind=M, props=['C05'], rule='C05.D2-exocyclic-double-bond',
         edits=[(TH, "any(m not in rings[n] and b == 2 for m, b in bonds[n].items())", "any(m not in rings[n] and b != 1 for m, b in bonds[n].items())")]),
    dict(id='TB10-exocyclic-conjuncts-swapped', kind=B, props=['C05'],
         edits=[(TH, "any(m not in rings[n] and b == 2 for m, b in bonds[n].items())", "any(b == 2 and m not in rings[n] for m, b in bonds[n].items())")]),
]
