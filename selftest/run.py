#!/usr/bin/env python3
# -*- coding: utf-8 -*-
"""
Self-test of the checkers (not a property check): every catalogue entry is applied to a scratch copy of
/repo/chython, must still byte-compile, and the named checks must FIRE (mutants) or stay SILENT (benign).
Scratch copies live under tempfile.mkdtemp() and are removed in `finally`.

usage: selftest/run.py [--only ID[,ID..]] [--jobs N] [--repo /repo] [--keep-going]
"""
import argparse
import concurrent.futures as cf
import json
import os
import py_compile
import shutil
import subprocess
import sys
import tempfile

HERE = os.path.dirname(os.path.abspath(__file__))
VERIF = os.path.dirname(HERE)
sys.path.insert(0, HERE)


def load_catalogue():
    cat = []
    for fn in sorted(os.listdir(HERE)):
        if fn.startswith('cat_') and fn.endswith('.py'):
            ns = {'__file__': os.path.join(HERE, fn)}
            with open(os.path.join(HERE, fn)) as fh:
                exec(compile(fh.read(), fn, 'exec'), ns)
            cat.extend(ns['CATALOGUE'])
    return cat


def apply_edit(root, entry):
    """entry['edits'] = [(relpath, old, new)], each `old` must occur exactly once; or entry['patch'] = unified diff file"""
    if entry.get('patch'):
        p = subprocess.run(['patch', '-p1', '-s', '-d', root, '-i', entry['patch']], capture_output=True, text=True)
        if p.returncode:
            return f'patch does not apply: {(p.stdout + p.stderr)[-200:]}'
        return None
    for rel, old, new in entry['edits']:
        path = os.path.join(root, rel)
        with open(path, encoding='utf-8') as fh:
            s = fh.read()
        n = s.count(old)
        if n != 1:
            return f'edit anchor occurs {n} times in {rel}: {old[:60]!r}'
        s = s.replace(old, new)
        with open(path, 'w', encoding='utf-8') as fh:
            fh.write(s)
        if rel.endswith('.py'):
            try:
                compile(s, path, 'exec')
            except SyntaxError as e:
                return f'mutant does not compile: {e}'
    return None


def run_entry(entry, repo):
    tmp = tempfile.mkdtemp(prefix='sa-selftest-')
    try:
        shutil.copytree(os.path.join(repo, 'chython'), os.path.join(tmp, 'chython'),
                        ignore=shutil.ignore_patterns('__pycache__', '*.so', '*.pyc'))
        err = apply_edit(tmp, entry)
        if err:
            return entry['id'], False, [f'SETUP: {err}']
        msgs = []
        ok = True
        env = dict(os.environ, VERIF_EVIDENCE_DIR=os.path.join(tmp, 'evidence'))
        for pid in entry['props']:
            p = subprocess.run([os.path.join(VERIF, 'check'), pid, '--repo', tmp, '--tier', entry.get('tier', 'quick')],
                               capture_output=True, text=True, env=env)
            out = p.stdout + p.stderr
            fired = p.returncode == 1 and f'VIOLATION property={pid}' in out
            if entry['kind'] == 'mutant':
                good = fired
                rule = entry.get('rule')
                if good and rule and f'[{rule}' not in out:
                    good = False
                    msgs.append(f'{pid}: fired, but not by rule {rule}')
                if not good:
                    ok = False
                    msgs.append(f'{pid}: expected VIOLATION, got exit {p.returncode}: ' + out.strip().splitlines()[-1][:200] if out.strip() else f'{pid}: no output')
            elif entry['kind'] == 'benign':
                if p.returncode != 0:
                    ok = False
                    msgs.append(f'{pid}: expected silence, got exit {p.returncode}: ' + '\n'.join(out.strip().splitlines()[-4:])[:600])
            elif entry['kind'] == 'unknown-idiom':  # must not be a VIOLATION; exit 0 or 2 both acceptable
                if p.returncode == 1:
                    ok = False
                    msgs.append(f'{pid}: behaviour-preserving rewrite reported as VIOLATION: ' + '\n'.join(out.strip().splitlines()[-4:])[:600])
        return entry['id'], ok, msgs
    finally:
        shutil.rmtree(tmp, ignore_errors=True)


def main():
    ap = argparse.ArgumentParser()
    ap.add_argument('--only')
    ap.add_argument('--jobs', type=int, default=min(16, os.cpu_count() or 4))
    ap.add_argument('--repo', default='/repo')
    args = ap.parse_args()
    cat = load_catalogue()
    ids = [e['id'] for e in cat]
    assert len(ids) == len(set(ids)), 'duplicate catalogue ids'
    if args.only:
        want = set(args.only.split(','))
        cat = [e for e in cat if e['id'] in want or any(e['id'].startswith(w) for w in want)]
    fails = 0
    with cf.ThreadPoolExecutor(args.jobs) as ex:
        for eid, ok, msgs in ex.map(lambda e: run_entry(e, args.repo), cat):
            print(('PASS ' if ok else 'FAIL ') + eid + ('' if ok else '  :: ' + ' | '.join(msgs)))
            fails += not ok
    kinds = {}
    for e in cat:
        kinds[e['kind']] = kinds.get(e['kind'], 0) + 1
    print(f'selftest: {len(cat)} entries {kinds}, {fails} failed')
    sys.exit(1 if fails else 0)


if __name__ == '__main__':
    main()
