# -*- coding: utf-8 -*-
M, B, U = 'mutant', 'benign', 'unknown-idiom'
RX = 'chython/containers/reaction.py'
MOLC = 'chython/containers/molecule.py'
SMI = 'chython/algorithms/smiles.py'
CATALOGUE = [
    dict(id='E01-compose-broken-bond-side', kind=M, props=['C15'], rule='C15.D2-sides',
         edits=[(MOLC, "                        bond = DynamicBond(None, bond.order)", "                        bond = DynamicBond(bond.order, None)")]),
    dict(id='E02-reaction-sort-removed', kind=M, props=['C15'], rule='C15.D1-roles',
         edits=[(RX, "            if not format_spec or '!c' not in format_spec:\n                mso.sort(key=itemgetter(1))\n", "")]),
    dict(id='E03-writer-role-order', kind=M, props=['C15'], rule='C15.D1-roles',
         edits=[(RX, "        for ml in (self.reactants, self.reagents, self.products):", "        for ml in (self.reactants, self.products, self.reagents):")]),
    dict(id='E04-reader-role-order', kind=M, props=['C15'], rule='C15.D1-roles',
         edits=[('chython/files/daylight/smiles.py', "            reactants, reagents, products = smi.split('>')", "            reactants, products, reagents = smi.split('>')")]),
    dict(id='E05-common-slot-swapped', kind=M, props=['C15'], rule='C15.D2-sides',
         edits=[(MOLC, "            for m, bond in other._bonds[n].items():\n                if m in common:\n                    an[m][1] = bond.order", "            for m, bond in other._bonds[n].items():\n                if m in common:\n                    an[m][0] = bond.order")]),
    dict(id='E06-from_atoms-swapped', kind=M, props=['C15'], rule='C15.D2-sides',
         edits=[('chython/periodictable/base/dynamic.py', "        dynamic._charge = atom1.charge\n        dynamic._p_charge = atom2.charge", "        dynamic._charge = atom2.charge\n        dynamic._p_charge = atom1.charge")]),
    dict(id='E07-reaction-compose-sides', kind=M, props=['C15'], rule='C15.D2-sides',
         edits=[(RX, "        return r ^ p", "        return p ^ r")]),
    dict(id='E08-dyn-order-duplicate-token', kind=M, props=['C15'], rule='C15.D3-signature-tables',
         edits=[(SMI, "(2, 1): '[=>-]'", "(2, 1): '[->=]'")]),
    dict(id='E09-is_dynamic-ignores-radical', kind=M, props=['C15'], rule='C15.D2-sides',
         edits=[('chython/periodictable/base/dynamic.py', "        return self.charge != self.p_charge or self.is_radical != self.p_is_radical", "        return self.charge != self.p_charge")]),
    dict(id='E10-sort-by-molecule-not-string', kind=M, props=['C15'], rule='C15.D1-roles',
         edits=[(RX, "                mso.sort(key=itemgetter(1))", "                mso.sort(key=itemgetter(2))")]),
    dict(id='E11-pack-slices-back', kind=M, props=['C10'],
         edits=[(RX, "        return cls(molecules[:reactants], molecules[reactants + reagents:], molecules[reactants: reactants + reagents])", "        return cls(molecules[:reactants], molecules[-products:], molecules[reactants: -products])")]),
]
