# -*- coding: utf-8 -*-
# rules added after the fourth round of independent seeded changes (each agent was assigned a kind of slip)
M, B, U = 'mutant', 'benign', 'unknown-idiom'
ST = 'chython/algorithms/stereo.py'
RINGS = 'chython/algorithms/rings.py'
SMI = 'chython/algorithms/smiles.py'
MOLC = 'chython/containers/molecule.py'
STD = 'chython/algorithms/standardize/molecule.py'
ELT = 'chython/periodictable/base/element.py'
G16 = 'chython/periodictable/groupXVI.py'
ISO = 'chython/algorithms/isomorphism.py'
RXC = 'chython/containers/reaction.py'
ERXN = 'chython/files/mdl/erxn.py'
RXN = 'chython/files/mdl/rxn.py'
LIN = 'chython/algorithms/fingerprints/linear.py'
PRS = 'chython/files/daylight/parser.py'
RDK = 'chython/utils/rdkit.py'
TH = 'chython/algorithms/aromatics/thiele.py'
DSM = 'chython/files/daylight/smiles.py'
CGR = 'chython/containers/cgr.py'

CATALOGUE = [
    # index / sequence affinity, elements vs positions, unused walrus (hygiene H3-H5)
    dict(id='U01-linker-index-from-other-ring', kind=M, props=['C12'], rule='C12.H-dataflow-hygiene',
         edits=[(ST, "out[n] = (nr[ni - 1], nr[ni - len(nr) + 1], mr[mi - 1], mr[mi - len(mr) + 1])", "out[n] = (nr[ni - 1], nr[ni - len(nr) + 1], mr[ni - 1], mr[mi - len(mr) + 1])")]),
    dict(id='U02-scissors-compare-atoms', kind=M, props=['C06'], rule='C06.H-dataflow-hygiene',
         edits=[(RINGS, "    if ndx < mdx:\n        return *ring[ndx::-1], *ring[:ndx:-1]", "    if n > m:\n        return *ring[ndx::-1], *ring[:ndx:-1]")]),
    dict(id='U03-ct-map-wrong-seen', kind=M, props=['C02'], rule='C02.H-dataflow-hygiene',
         edits=[(SMI, "                            if y := ctc.get(v):\n                                ct_map[v] = k\n                                seen.add(y)", "                            if y := ctc.get(v):\n                                ct_map[v] = k\n                                seen.add(k)")]),
    # valence parity
    dict(id='U04-sulfonium-row-h-off-by-one', kind=M, props=['C04'], rule='C04.D1-valence-parity',
         edits=[(G16, "(1, False, 0, ((1, 'C'), (1, 'C'), (1, 'B'))),", "(1, False, 1, ((1, 'C'), (1, 'C'), (1, 'B'))),")]),
    # keep defaults
    dict(id='U05-flush-keeps-components-by-default', kind=M, props=['C13'], rule='B2a-keep-lists',
         edits=[(MOLC, "    def flush_cache(self, *, keep_sssr=False, keep_components=False):", "    def flush_cache(self, *, keep_sssr=False, keep_components=True):")]),
    # charge domain
    dict(id='U06-charge-lower-bound', kind=M, props=['C18', 'C10'],
         edits=[(ELT, "        elif value > 4 or value < -4:", "        elif value > 4 or value < -3:")]),
    dict(id='UB1-charge-range-membership', kind=B, props=['C18', 'C10', 'C09'],
         edits=[(ELT, "        elif value > 4 or value < -4:", "        elif value not in range(-4, 5):")]),
    # encoder field set
    dict(id='U07-encoder-explicit-hydrogens', kind=M, props=['C09'], rule='C09.D1-i-positions',
         edits=[(ISO, "v3 |= 1 << ((a.implicit_hydrogens or 0) + 30)", "v3 |= 1 << ((a.explicit_hydrogens or 0) + 30)")]),
    # size arithmetic with floor division
    dict(id='U08-pack-len-v2-floor', kind=M, props=['C10'], rule='C10.D3-sizes',
         edits=[(RXC, "shift += 3 * neighbors + ceil(neighbors * 3 / 8) + (acs & 0x0fff) * 4", "shift += 3 * neighbors + neighbors * 3 // 8 + (acs & 0x0fff) * 4")]),
    # allene reference choice (reader side)
    dict(id='U09-reader-allene-reference-by-env', kind=M, props=['C02', 'C12'],
         edits=[(DSM, "            n1 = next(x for x in order[t1] if x in env)", "            n1 = next(x for x in env if x in order[t1])")]),
    # stale cached read
    dict(id='U10-standardize-charges-no-drop', kind=M, props=['C19', 'C14', 'C13'],
         edits=[(STD, "        if pairs:\n            self.__dict__.pop('atoms_order', None)  # remove cached morgan\n", "        if pairs:\n")]),
    # hybridisation table
    dict(id='U11-triple-bond-not-sp', kind=M, props=['C08', 'C06'],
         edits=[(MOLC, "                    if bond == 3:\n                        hybridization = 3", "                    if bond == 3:\n                        hybridization = 2")]),
    dict(id='UB2-hybridisation-ladder-flattened', kind=B, props=['C08', 'C06', 'C09'],
         edits=[(MOLC, "                elif hybridization != 4:\n                    if bond == 3:\n                        hybridization = 3\n                    elif bond == 2:\n                        if hybridization == 1:\n                            hybridization = 2\n                        elif hybridization == 2:\n                            hybridization = 3",
                 "                elif hybridization == 4:\n                    pass\n                elif bond == 3:\n                    hybridization = 3\n                elif bond == 2 and hybridization == 1:\n                    hybridization = 2\n                elif bond == 2 and hybridization == 2:\n                    hybridization = 3")]),
    # dropped component bookkeeping (V2000 sibling)
    dict(id='U12-rxn-v2000-empty-no-bookkeeping', kind=M, props=['C11'], rule='C11.D1-dropped-component-bookkeeping',
         edits=[(RXN, "            if isinstance(e, EmptyMolecule):\n                log.append(f'ignored empty molecule {n}')\n            elif ignore:", "            if isinstance(e, EmptyMolecule):\n                log.append(f'ignored empty molecule {n}')\n                continue\n            elif ignore:")]),
    # import revalidation
    dict(id='U13-import-fix-stereo-tetrahedra-only', kind=M, props=['C20'], rule='C20.D4-import-revalidates',
         edits=[(RDK, "    if tetrahedron_stereo or cis_trans_stereo:\n        mol.fix_stereo()", "    if tetrahedron_stereo:\n        mol.fix_stereo()")]),
    dict(id='UB3-import-fix-stereo-unconditional', kind=B, props=['C20', 'C12'],
         edits=[(RDK, "    if tetrahedron_stereo or cis_trans_stereo:\n        mol.fix_stereo()", "    mol.fix_stereo()")]),
    # chain length window
    dict(id='U14-chains-grow-one-too-far', kind=M, props=['C17'], rule='C17.D2-length-window',
         edits=[(LIN, "                if len(var[0]) < max_radius:", "                if len(var[0]) <= max_radius:")]),
    # leniency scope
    dict(id='U15-lenient-on-wedge-mismatch', kind=M, props=['C03'], rule='C03.D3-leniency-scope',
         edits=[(PRS, "                            elif ob != 1:\n                                raise IncorrectSmiles('not equal cycle bonds')", "                            elif ob != 1 and strong_cycle:\n                                raise IncorrectSmiles('not equal cycle bonds')")]),
    # conditional exemptions of the protocol
    dict(id='U16-restore-kekule-even-if-recharged', kind=M, props=['C14', 'C13'],
         edits=[(STD, "            if c or fix_tautomers and any(hgs[n] != a.implicit_hydrogens for n, a in self.atoms()):\n                self.kekule()  # we need to do full kekule again",
                 "            if fix_tautomers and any(hgs[n] != a.implicit_hydrogens for n, a in self.atoms()):\n                self.kekule()  # we need to do full kekule again")]),
    dict(id='U17-tetracycle-reset-any', kind=M, props=['C05'],
         edits=[(TH, "            if seen.issuperset(ring):\n                n, *_, m = ring", "            if seen.intersection(ring):\n                n, *_, m = ring")]),
    # container protocols
    dict(id='U18-cgr-without-len', kind=M, props=['C15', 'C07'],
         edits=[(CGR, "    def __len__(self):\n        return len(self._atoms)\n\n", "")]),
]
