# -*- coding: utf-8 -*-
# rules added after the sixth round of independent seeded changes (free choice of slip) and the fourth round of refactorings
M, B, U = 'mutant', 'benign', 'unknown-idiom'
KEK = 'chython/algorithms/aromatics/kekule.py'
RINGS = 'chython/algorithms/rings.py'
QRY = 'chython/periodictable/base/query.py'
RES = 'chython/algorithms/standardize/resonance.py'
RDK = 'chython/utils/rdkit.py'
ISO = 'chython/algorithms/isomorphism.py'
MOLC = 'chython/containers/molecule.py'
RDF = 'chython/files/RDFrw.py'
SMI = 'chython/algorithms/smiles.py'
LIN = 'chython/algorithms/fingerprints/linear.py'
STD = 'chython/algorithms/standardize/molecule.py'
TH = 'chython/algorithms/aromatics/thiele.py'

CATALOGUE = [
    # H8 tri-state ladders
    dict(id='XR01-boron-ladder-falsy', kind=M, props=['C05'], rule='C05.H-dataflow-hygiene',
         edits=[(KEK, "                            if atom.implicit_hydrogens is None:  # b1ccccc1, C=1OBOC=1 or B1C=CC=N1", "                            if not atom.implicit_hydrogens:  # b1ccccc1, C=1OBOC=1 or B1C=CC=N1")]),
    # H9 argument mutated in place
    dict(id='XR02-skin-graph-without-copy', kind=M, props=['C06'], rule='C06.H-dataflow-hygiene',
         edits=[(RINGS, "    bonds = {n: set(ms) for n, ms in bonds.items() if ms}\n    while True:  # skip not-cycle chains", "    while True:  # skip not-cycle chains")]),
    dict(id='XRB1-connected-rings-list-copy', kind=B, props=['C06', 'C05'],
         edits=[(RINGS, "    rings = rings.copy()\n    out = []", "    rings = list(rings)\n    out = []")]),
    # H10 substring membership
    dict(id='XR03-elements-joined-membership', kind=M, props=['C08'], rule='C08.H-dataflow-hygiene',
         edits=[(QRY, "if x.__name__ in self._elements)", "if x.__name__ in ','.join(self._elements))")]),
    # H11 read of the slice that was just cut off
    dict(id='XR04-thiele-path-cut-then-read', kind=M, props=['C05'], rule='C05.H-dataflow-hygiene',
         edits=[(TH, "                        seen.difference_update(x for _, x, _ in path[depth:])\n                        path = path[:depth]", "                        path = path[:depth]\n                        seen.difference_update(x for _, x, _ in path[depth:])")]),
    # H12 swallowing try around a loop
    dict(id='XR05-rdkit-cis-trans-try-hoisted', kind=M, props=['C20'], rule='C20.H-dataflow-hygiene',
         edits=[(RDK, "    for n, m, nn, nm, s in cis_trans_stereo:\n        try:\n            mol.bond(n, m)._stereo = mol._translate_cis_trans_sign(n, m, nn, nm, s)\n        except KeyError:\n            pass",
                 "    try:\n        for n, m, nn, nm, s in cis_trans_stereo:\n            mol.bond(n, m)._stereo = mol._translate_cis_trans_sign(n, m, nn, nm, s)\n    except KeyError:\n        pass")]),
    # accumulate inside loops of the encoders
    dict(id='XR06-query-hybridization-assigned', kind=M, props=['C09'], rule='C09.D1-accumulate-in-loops',
         edits=[(ISO, "                    for n in a.hybridization:\n                        v2 |= 1 << (n - 1)", "                    for n in a.hybridization:\n                        v2 = 1 << (n - 1)")]),
    # mirrored deletes under the same conditions
    dict(id='XR07-delete-bond-back-reference-conditional', kind=M, props=['C13'], rule='B6-adjacency-symmetry',
         edits=[(MOLC, "        del self._bonds[n][m]\n        if self._bonds[m].pop(n) != 8:", "        if self._bonds[m].pop(n) != 8:\n            del self._bonds[n][m]")]),
    # RDF header
    dict(id='XR08-rdf-header-always-on-path', kind=M, props=['C11'], rule='C11.D3-rdf-header-once',
         edits=[(RDF, "        if not append or not (self._is_buffer or self._file.tell() != 0):", "        if not append or not self._is_buffer:")]),
    dict(id='XRB2-rdf-header-demorgan', kind=B, props=['C11'],
         edits=[(RDF, "        if not append or not (self._is_buffer or self._file.tell() != 0):", "        if not append or (not self._is_buffer and self._file.tell() == 0):")]),
    # writer: bare string / closure order / elemental bracket
    dict(id='XR09-format-returns-cached-string', kind=M, props=['C15', 'C02'],
         edits=[(SMI, "            self.__dict__['smiles_atoms_order'] = tuple(order)  # cache smiles_atoms_order\n            return smiles, order", "            self.__dict__['smiles_atoms_order'] = tuple(order)  # cache smiles_atoms_order\n            return str(self), order")]),
    dict(id='XR10-digits-from-sorted-copy-by-other-key', kind=M, props=['C01', 'C02'],
         edits=[(SMI, "                        for m, c in tokens[token]:\n                            if asymmetric_closures:", "                        for m, c in sorted(tokens[token], key=lambda x: x[0]):\n                            if asymmetric_closures:")]),
    dict(id='XRB3-both-consumers-sorted-copy', kind=B, props=['C01', 'C02'],
         edits=[(SMI, "                    tokens[token].sort(key=lambda x: casted_cycles[x[1]])  # order closures\n                    visited[token].extend(n for n, _ in tokens[token])",
                 "                    visited[token].extend(n for n, _ in sorted(tokens[token], key=lambda x: casted_cycles[x[1]]))"),
                (SMI, "                        for m, c in tokens[token]:\n                            if asymmetric_closures:", "                        for m, c in sorted(tokens[token], key=lambda x: casted_cycles[x[1]]):\n                            if asymmetric_closures:")]),
    dict(id='XR11-elemental-arm-ignores-hydrogens', kind=M, props=['C02'], rule='C02.D1-elemental-bracket',
         edits=[(SMI, "        elif not atom.implicit_hydrogens and atom in (B, C, P, S) and not self.not_special_connectivity[n]:", "        elif atom in (B, C, P, S) and not self.not_special_connectivity[n]:")]),
    dict(id='XRB4-elemental-arm-reordered', kind=B, props=['C02', 'C01'],
         edits=[(SMI, "        elif not atom.implicit_hydrogens and atom in (B, C, P, S) and not self.not_special_connectivity[n]:", "        elif atom in (B, C, P, S) and not (atom.implicit_hydrogens or self.not_special_connectivity[n]):")]),
    # uncapped sentinel
    dict(id='XR12-smiles-variant-small-cap', kind=M, props=['C17'], rule='C17.D2-uncapped',
         edits=[(LIN, "            number_bit_pairs = 999_999_999  # unreachable count\n\n        out = defaultdict(set)", "            number_bit_pairs = 4096  # unreachable count\n\n        out = defaultdict(set)")]),
    # tentative removal set
    dict(id='XR13-removes-all-explicit', kind=M, props=['C04', 'C14'],
         edits=[(STD, "                        to_remove.update(hi)\n                        fixed[n] = h", "                        to_remove.update(hs)\n                        fixed[n] = h")]),
    # the normaliser sees through new methods / constants
    dict(id='XR14-extracted-method-with-wrong-constant', kind=M, props=['C04'],
         edits=[(MOLC, "    def calc_implicit(self, n: int):", "    def _two_aromatic(self, atom, explicit_sum):\n        if explicit_sum == 0:  # H-Ar\n            atom._implicit_hydrogens = 1\n        elif explicit_sum == 1:  # R-Ar\n            atom._implicit_hydrogens = 1\n        else:  # invalid aromaticity\n            atom._implicit_hydrogens = None\n\n    def calc_implicit(self, n: int):"),
                (MOLC, "            if explicit_sum == 0:  # H-Ar\n                atom._implicit_hydrogens = 1\n            elif explicit_sum == 1:  # R-Ar\n                atom._implicit_hydrogens = 0\n            else:  # invalid aromaticity\n                atom._implicit_hydrogens = None\n            return\n        elif aroma == 3:",
                 "            self._two_aromatic(atom, explicit_sum)\n            return\n        elif aroma == 3:")]),
    dict(id='XRB5-extracted-method', kind=B, props=['C04', 'C13', 'C14'],
         edits=[(MOLC, "    def calc_implicit(self, n: int):", "    def _two_aromatic(self, atom, explicit_sum):\n        if explicit_sum == 0:  # H-Ar\n            atom._implicit_hydrogens = 1\n        elif explicit_sum == 1:  # R-Ar\n            atom._implicit_hydrogens = 0\n        else:  # invalid aromaticity\n            atom._implicit_hydrogens = None\n\n    def calc_implicit(self, n: int):"),
                (MOLC, "            if explicit_sum == 0:  # H-Ar\n                atom._implicit_hydrogens = 1\n            elif explicit_sum == 1:  # R-Ar\n                atom._implicit_hydrogens = 0\n            else:  # invalid aromaticity\n                atom._implicit_hydrogens = None\n            return\n        elif aroma == 3:",
                 "            self._two_aromatic(atom, explicit_sum)\n            return\n        elif aroma == 3:")]),
]
