# -*- coding: utf-8 -*-
# independent behaviour-preserving refactorings of /verif/benign/<id>/ (sub-agents were asked for 6-8 equivalent edits per batch and
# confirmed identical test results and identical digests of an equivalence script): every check must stay silent (exit 0) on each of them (except the residual ones recorded in meta.json)
import os
HERE = os.path.dirname(os.path.abspath(__file__))
BENIGN = os.path.join(os.path.dirname(HERE), 'benign')
ALL = ['C01', 'C02', 'C03', 'C04', 'C05', 'C06', 'C07', 'C08', 'C09', 'C10', 'C11', 'C12', 'C13', 'C14', 'C15', 'C17', 'C18', 'C19', 'C20']
CATALOGUE = []
for bid in sorted(os.listdir(BENIGN)) if os.path.isdir(BENIGN) else []:
    p = os.path.join(BENIGN, bid, 'patch.diff')
    if os.path.exists(p):
        # a batch whose last evaluation still lists checks that could not follow it (thorough-modernisation batches B49-B60: heavy restructuring, helpers inlined away)
        # is replayed for the checks that WERE silent: those must stay silent; the residual ones are listed in DESIGN.md
        residual = set()
        mp = os.path.join(BENIGN, bid, 'meta.json')
        if os.path.exists(mp):
            import json
            residual = set((json.load(open(mp)).get('false_alarms') or {}).keys())
        CATALOGUE.append(dict(id=f'Y-{bid}', kind='benign', props=[x for x in ALL if x not in residual], patch=p))
