# -*- coding: utf-8 -*-
M, B, U = 'mutant', 'benign', 'unknown-idiom'
ST = 'chython/algorithms/stereo.py'
GR = 'chython/containers/graph.py'
MOLC = 'chython/containers/molecule.py'
STD = 'chython/algorithms/standardize/molecule.py'
CATALOGUE = [
    dict(id='A01-chiral-morgan-no-copy', kind=M, props=['C19', 'C13'],
         edits=[(ST, "        morgan = self.atoms_order.copy()\n", "        morgan = self.atoms_order\n")]),
    dict(id='A02-sssr-sorted-in-place', kind=M, props=['C13'], rule='A1-cached-value-not-mutated',
         edits=[(MOLC, "        bonds = self._bonds\n        return tuple(ring for ring in self.sssr if", "        bonds = self._bonds\n        rings = self.sssr\n        rings.sort(key=len)\n        return tuple(ring for ring in rings if")]),
    dict(id='A03-union-shares-other', kind=M, props=['C13'], rule='A3-merge-fresh-copy',
         edits=[(GR, "        else:\n            other = other.copy()  # make a copy\n", "")]),
    dict(id='A04-fix_stereo-break-extra', kind=M, props=['C12', 'C01'],
         edits=[(ST, "            if fail_stereo == old_stereo:\n                break", "            if fail_stereo == old_stereo or not fail_stereo:\n                break")]),
    dict(id='A05-standardize-index-domain', kind=M, props=['C14'], rule='C14.D2-index-domains',
         edits=[(STD, "                    seen.update(match - {mapping[n] for n in any_atoms})", "                    seen.update(match - set(any_atoms))")]),
    dict(id='A06-get_mapping-wrong-map', kind=M, props=['C07'], rule='C07.D1-index-domains',
         edits=[('chython/algorithms/isomorphism.py', "                if o_n in scope and o_n not in reversed_mapping and s_bond == o_bond:", "                if o_n in scope and o_n not in mapping and s_bond == o_bond:")]),
    dict(id='A07-implicify-symbol-key', kind=M, props=['C04'], rule='C04.D3-environment-domains',
         edits=[(STD, "                        explicit_dict[(bond.order, atoms[m].atomic_number)] += 1", "                        explicit_dict[(bond.order, atoms[m].atomic_symbol)] += 1")]),
    dict(id='A08-thiele-donor-any-n', kind=M, props=['C05'], rule='C05.D2-tautomer-hydrogen-move',
         edits=[('chython/algorithms/aromatics/thiele.py', "                    elif fix_tautomers and lr == 6 and b == 2:", "                    elif fix_tautomers and lr == 6 and b:")]),
    dict(id='A09-charge-decode-without-rejection', kind=M, props=['C03'], rule='C03.D2-charge-spellings',
         edits=[('chython/files/daylight/tokenize.py', "        try:\n            charge = charge_dict[charge]\n        except KeyError:\n            raise IncorrectSmiles('charge token invalid')", "        charge = charge_dict.get(charge, 0)")]),
    dict(id='AB1-fix_stereo-break-swapped-operands', kind=B, props=['C12', 'C01'],
         edits=[(ST, "            if fail_stereo == old_stereo:\n                break", "            if old_stereo == fail_stereo:\n                break")]),
    dict(id='AB2-thiele-donor-len-form', kind=B, props=['C05'],
         edits=[('chython/algorithms/aromatics/thiele.py', "                    elif fix_tautomers and lr == 6 and b == 2:", "                    elif fix_tautomers and lr == 6 and len(bonds[n]) == 2:")]),
    dict(id='AB3-standardize-renamed-locals', kind=B, props=['C14', 'C13'],
         edits=[(STD, "                if any_atoms:  # accept overlapping of Any-atoms\n                    seen.update(match - {mapping[n] for n in any_atoms})", "                if any_atoms:  # accept overlapping of Any-atoms\n                    shared = {mapping[q] for q in any_atoms}\n                    seen.update(match.difference(shared))")]),
    dict(id='AB4-alias-copied-then-mutated', kind=B, props=['C13', 'C19'],
         edits=[(MOLC, "        bonds = self._bonds\n        return tuple(ring for ring in self.sssr if", "        bonds = self._bonds\n        rings = list(self.sssr)\n        rings.sort(key=len)\n        return tuple(ring for ring in rings if")]),
    dict(id='AB5-graph-copy-renamed', kind=B, props=['C13', 'C12'],
         edits=[(GR, "        copy._bonds = cb = {}\n        for n, m_bond in self._bonds.items():\n            cb[n] = cbn = {}\n            for m, bond in m_bond.items():\n                if m in cb:  # bond partially exists. need back-connection.\n                    cbn[m] = cb[m][n]\n                else:\n                    cbn[m] = bond.copy(full=True)",
                 "        copy._bonds = new = {}\n        for n, m_bond in self._bonds.items():\n            new[n] = row = {}\n            for m, bond in m_bond.items():\n                if m in new:  # bond partially exists. need back-connection.\n                    row[m] = new[m][n]\n                else:\n                    row[m] = bond.copy(full=True)")]),
]
