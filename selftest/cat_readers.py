# -*- coding: utf-8 -*-
M, B, U = 'mutant', 'benign', 'unknown-idiom'
TOK = 'chython/files/daylight/tokenize.py'
PAR = 'chython/files/daylight/parser.py'
SMI = 'chython/files/daylight/smiles.py'
SMA = 'chython/files/daylight/smarts.py'
CATALOGUE = [
    dict(id='R01-atom_parse-try-removed', kind=M, props=['C03'], rule='C03.E2-implicit-raises',
         edits=[(TOK, "        try:\n            charge = charge_dict[charge]\n        except KeyError:\n            raise IncorrectSmiles('charge token invalid')", "        charge = charge_dict[charge]")]),
    dict(id='R02-parser-raise-keyerror', kind=M, props=['C03'], rule='C03.E1-raise-family',
         edits=[(PAR, "raise IncorrectSmiles('2 bonds in a row')", "raise KeyError('2 bonds in a row')")]),
    dict(id='R03-smiles-empty-guard-removed', kind=U, props=['C03'],
         edits=[(SMI, "    elif not data:\n        raise ValueError('Empty string')\n", "")]),
    dict(id='R04-parser-len-guard-removed', kind=M, props=['C03'], rule='C03.E2-implicit-raises',
         edits=[(PAR, "        if len(tokens) < 2 or tokens[1][0] not in (0, 8):", "        if tokens[1][0] not in (0, 8):")]),
    dict(id='R05-stack-pop-handler-removed', kind=M, props=['C03'], rule='C03.E2-implicit-raises',
         edits=[(PAR, "            try:\n                last_num = stack.pop()\n            except IndexError:\n                raise IncorrectSmiles('close chain more than open')", "            last_num = stack.pop()")]) ,
    dict(id='R06-radical-try-removed', kind=M, props=['C03'], rule='C03.E2-implicit-raises',
         edits=[(SMI, "        try:\n            for x in radicals:\n                record['atoms'][x]['is_radical'] = True\n        except IndexError:\n            raise ValueError('invalid radical atom index in cxsmiles')",
                 "        for x in radicals:\n            record['atoms'][x]['is_radical'] = True")]),
    dict(id='R07-fsm-state11-dropped', kind=M, props=['C03', 'C08'],
         edits=[(TOK, "    elif token_type in (11, 12):\n        raise IncorrectSmarts('query bond has not finished')\n", "    elif token_type == 12:\n        raise IncorrectSmarts('query bond has not finished')\n")]),
    dict(id='R08-not-any-check-removed', kind=M, props=['C08'], rule='C08.D3-implicit-raises',
         edits=[(TOK, "                if s == '~':\n                    raise IncorrectSmarts('NOT any bond is meaningless')\n", "")]),
    dict(id='R09-negative-slice-back', kind=M, props=['C03'], rule='C03.E3-slices',
         edits=[(SMI, "new_molecules[mol_count - lp:]", "new_molecules[-lp:]")]),
    dict(id='R10-charge-regex-narrowed', kind=M, props=['C03'], rule='C03.D2-charge-spellings',
         edits=[(TOK, "(H[1-4]?)?([+-][1-4]|\\+{2,4}|-{2,4}|[+-]{1,2})?", "(H[1-4]?)?([+-][1-4]|\\+{2,3}|-{2,4}|[+-]{1,2})?")]),
    dict(id='R11-charge-dict-wrong-value', kind=M, props=['C03'], rule='C03.D2-charge-spellings',
         edits=[(TOK, "'+2': 2,", "'+2': 3,")]),
    dict(id='R12-smarts-typeerror-leak', kind=M, props=['C08'], rule='C08.D2-constructor-kwargs',
         edits=[(SMA, "        try:\n            e = e(**a)\n        except TypeError:\n            raise IncorrectSmarts('primitive is not supported by this type of atom')\n        g.add_atom(e, n)", "        g.add_atom(e(**a), n)")]),
    dict(id='R13-handler-raises-wrong-family', kind=M, props=['C03'],
         edits=[(PAR, "            except IndexError:\n                raise IncorrectSmiles('close chain more than open')", "            except IndexError:\n                raise RuntimeError('close chain more than open')")]),
    dict(id='R14-mapping-error-class', kind=M, props=['C03'], rule='C03.E1-raise-family',
         edits=[('chython/exceptions.py', "class MappingError(ValueError):", "class MappingError(KeyError):")]),
    dict(id='RB1-guard-rewritten-equivalently', kind=B, props=['C03'],
         edits=[(PAR, "        if len(tokens) < 2 or tokens[1][0] not in (0, 8):", "        if len(tokens) == 1 or tokens[1][0] not in (0, 8):")]),
]
