# -*- coding: utf-8 -*-
M, B, U = 'mutant', 'benign', 'unknown-idiom'
ISO = 'chython/algorithms/isomorphism.py'
PYX = 'chython/algorithms/_isomorphism.pyx'
CATALOGUE = [
    dict(id='I01-scope-dropped', kind=M, props=['C07'], rule='C07.D1-admission-guards',
         edits=[(ISO, "                if o_n in scope and o_n not in reversed_mapping and s_bond == o_bond:", "                if o_n not in reversed_mapping and s_bond == o_bond:")]),
    dict(id='I02-injective-dropped', kind=M, props=['C07'], rule='C07.D1-admission-guards',
         edits=[(ISO, "                if o_n in scope and o_n not in reversed_mapping and s_bond == o_bond:", "                if o_n in scope and s_bond == o_bond:")]),
    dict(id='I03-closure-bonds-dropped', kind=M, props=['C07'], rule='C07.D1-admission-guards',
         edits=[(ISO, "                            if all(bond == obon[mapping[m]] for m, bond in query_closures[s_n]):\n                                stack.append((o_n, depth))", "                            if obon is not None:\n                                stack.append((o_n, depth))")]),
    dict(id='I04-closure-set-subset', kind=M, props=['C07'], rule='C07.D1-admission-guards',
         edits=[(ISO, "                        if o_closures == {mapping[m] for m, _ in query_closures[s_n]}:", "                        if o_closures >= {mapping[m] for m, _ in query_closures[s_n]}:")]),
    dict(id='I05-initial-scope-dropped', kind=M, props=['C07'], rule='C07.D1-admission-guards',
         edits=[(ISO, "        if n in scope and s_atom == o_atom:\n            stack.append((n, 0))", "        if s_atom == o_atom:\n            stack.append((n, 0))")]),
    dict(id='I06-filter-key-tuple', kind=M, props=['C07'], rule='C07.D2-filter-operators',
         edits=[(ISO, "                        if automorphism_filter:\n                            atoms = frozenset(mapping.values())\n                            if atoms in seen:\n                                continue\n                            seen.add(atoms)\n                        yield mapping",
                 "                        if automorphism_filter:\n                            atoms = tuple(mapping.values())\n                            if atoms in seen:\n                                continue\n                            seen.add(atoms)\n                        yield mapping")]),
    dict(id='I07-lt-length-test', kind=M, props=['C07'], rule='C07.D2-filter-operators',
         edits=[(ISO, "    def __lt__(self, other):\n        if len(self) >= len(other):", "    def __lt__(self, other):\n        if len(self) > len(other):")]),
    dict(id='I08-pyx-matched-test-dropped', kind=M, props=['C07'], rule='C07.D1-admission-guards',
         edits=[(PYX, "                    if (scope[m] and not matched[m] and", "                    if (scope[m] and")]),
    dict(id='I09-discard-parent-dropped', kind=M, props=['C07'], rule='C07.D1-admission-guards',
         edits=[(ISO, "                        o_closures.discard(n)\n", "")]),
    dict(id='IB1-guard-order-swapped', kind=B, props=['C07'],
         edits=[(ISO, "                if o_n in scope and o_n not in reversed_mapping and s_bond == o_bond:", "                if s_bond == o_bond and o_n not in reversed_mapping and o_n in scope:")]),
]
