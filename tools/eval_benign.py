#!/usr/bin/env python3
"""
tools/eval_benign.py <id> [--from /tmp/wt/<wid>]   run every check against an independent behaviour-preserving refactoring.
 1. (optional) import patch.diff / notes.md / equiv.py from the sub-agent worktree into /verif/benign/<id>/
 2. fresh scratch worktree of /repo HEAD + patch: pinned 30-test baseline still passes
 3. git -C /repo apply patch; run all checks (evidence redirected); git -C /repo checkout -- .
 4. write meta.json: every check must exit 0 (any VIOLATION or ANALYSIS-ERROR is a false alarm of the machinery)
"""
import json, os, shutil, subprocess, sys, tempfile, xml.etree.ElementTree as ET

VERIF = os.path.dirname(os.path.dirname(os.path.abspath(__file__)))
PROPS = ['C01', 'C02', 'C03', 'C04', 'C05', 'C06', 'C07', 'C08', 'C09', 'C10', 'C11', 'C12', 'C13', 'C14', 'C15', 'C17', 'C18', 'C19', 'C20']


def sh(cmd, **kw):
    return subprocess.run(cmd, shell=True, capture_output=True, text=True, **kw)


def main():
    bid = sys.argv[1]
    src = sys.argv[3] if len(sys.argv) > 3 and sys.argv[2] == '--from' else None
    d = os.path.join(VERIF, 'benign', bid)
    os.makedirs(d, exist_ok=True)
    if src:
        for fn in ('notes.md', 'equiv.py'):
            p = os.path.join(src, '_seed', fn)
            if os.path.exists(p):
                shutil.copy(p, os.path.join(d, fn))
        r = sh(f'git -C {src} diff -- chython')
        open(os.path.join(d, 'patch.diff'), 'w').write(r.stdout)
    patch = os.path.join(d, 'patch.diff')
    meta = {'id': bid}
    if '--skip-baseline' not in sys.argv:
        wt = tempfile.mkdtemp(prefix='benignwt-')
        os.rmdir(wt)
        try:
            assert sh(f'git -C /repo worktree add -q --detach {wt} HEAD').returncode == 0
            a = sh(f'git -C {wt} apply {patch}')
            meta['patch_applies'] = a.returncode == 0
            b = json.load(open('/root/.vp/BASELINE.json'))
            x = os.path.join(wt, '_j.xml')
            cmd = b['cmd'].replace('cd /repo', f'cd {wt}').replace('<file>', x)
            sh(cmd)
            passed = set()
            for tc in ET.parse(x).getroot().iter('testcase'):
                if not any(c.tag in ('failure', 'error', 'skipped') for c in tc):
                    passed.add(f"{tc.get('classname')}::{tc.get('name')}")
            want = set(b.get('stable_passing') or b.get('passing') or [])
            meta['baseline_with_change'] = f'{len(passed & want) if want else len(passed)}/{len(want) if want else "?"}'
        finally:
            sh(f'git -C /repo worktree remove --force {wt}')
    ev = tempfile.mkdtemp(prefix='benign-ev-')
    res = {}
    try:
        assert sh('git -C /repo status --porcelain').stdout.strip() == '', '/repo not clean'
        assert sh(f'git -C /repo apply {patch}').returncode == 0, 'patch does not apply to /repo'
        env = dict(os.environ, VERIF_EVIDENCE_DIR=ev)
        for pid in PROPS:
            p = subprocess.run([os.path.join(VERIF, 'check'), pid], capture_output=True, text=True, env=env)
            if p.returncode != 0:
                lines = [l for l in (p.stdout + p.stderr).splitlines() if l.startswith('  [') or l.startswith('ANALYSIS-ERROR') or 'Error' in l]
                res[pid] = {'exit': p.returncode, 'lines': [l[:400] for l in lines[:6]]}
    finally:
        sh('git -C /repo checkout -- .')
        shutil.rmtree(ev, ignore_errors=True)
    meta['false_alarms'] = res
    mp = os.path.join(d, 'meta.json')
    old = json.load(open(mp)) if os.path.exists(mp) else {}
    if 'first_run_false_alarms' not in old and old.get('false_alarms') is not None:
        old['first_run_false_alarms'] = old['false_alarms']
    old.update(meta)
    meta = old
    json.dump(meta, open(mp, 'w'), indent=1)
    print(bid, meta.get('baseline_with_change'), 'false alarms:', {k: v['exit'] for k, v in res.items()})
    for k, v in res.items():
        for l in v['lines']:
            print('   ', k, l[:300])


if __name__ == '__main__':
    main()
