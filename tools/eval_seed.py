#!/usr/bin/env python3
"""
tools/eval_seed.py <seed-id> [--from /tmp/wt/<wid>]   confirm a seeded change and run every check against it.
 1. (optional) import patch.diff / demo.py / notes.md from a sub-agent worktree into /verif/seeded/<id>/
 2. fresh scratch worktree of /repo HEAD: demo passes; apply patch: demo fails, 30 baseline tests still pass
 3. git -C /repo apply patch; run all checks (evidence redirected); git -C /repo checkout -- .
 4. write meta.json
"""
import json, os, re, shutil, subprocess, sys, tempfile, xml.etree.ElementTree as ET

VERIF = os.path.dirname(os.path.dirname(os.path.abspath(__file__)))
PROPS = ['C01', 'C02', 'C03', 'C04', 'C05', 'C06', 'C07', 'C08', 'C09', 'C10', 'C11', 'C12', 'C13', 'C14', 'C15', 'C17', 'C18', 'C19', 'C20']


def sh(cmd, **kw):
    return subprocess.run(cmd, shell=True, capture_output=True, text=True, **kw)


def main():
    sid = sys.argv[1]
    src = sys.argv[3] if len(sys.argv) > 3 and sys.argv[2] == '--from' else None
    d = os.path.join(VERIF, 'seeded', sid)
    os.makedirs(d, exist_ok=True)
    if src:
        for fn in ('patch.diff', 'demo.py', 'notes.md'):
            p = os.path.join(src, '_seed', fn)
            if os.path.exists(p):
                shutil.copy(p, os.path.join(d, fn))
        # helper modules the demonstration imports (e.g. a Python port of a .pyx) belong to the demonstration
        for fn in sorted(os.listdir(os.path.join(src, '_seed'))):
            if fn.endswith('.py') and fn != 'demo.py' and os.path.getsize(os.path.join(src, '_seed', fn)) < 200000:
                if re.search(r'\b(import|from)\s+' + re.escape(fn[:-3]) + r'\b', open(os.path.join(src, '_seed', 'demo.py')).read()):
                    shutil.copy(os.path.join(src, '_seed', fn), os.path.join(d, fn))
        # regenerate the patch from the worktree to be sure it is what is applied there
        r = sh(f'git -C {src} diff -- chython')
        if r.stdout.strip():
            open(os.path.join(d, 'patch.diff'), 'w').write(r.stdout)
    patch = os.path.join(d, 'patch.diff')
    demo = os.path.join(d, 'demo.py')
    assert os.path.exists(patch) and os.path.exists(demo), 'patch.diff / demo.py missing'
    meta = {'id': sid, 'ran': []}
    wt = tempfile.mkdtemp(prefix='seedwt-')
    os.rmdir(wt)
    try:
        assert sh(f'git -C /repo worktree add -q --detach {wt} HEAD').returncode == 0
        env = dict(os.environ, PYTHONPATH=f'/tmp/shim:{wt}')
        demo_src = open(demo).read().replace('/tmp/wt/' + (os.path.basename(src) if src else sid), wt)
        os.makedirs(os.path.join(wt, '_seed'), exist_ok=True)
        open(os.path.join(wt, '_seed', '_demo.py'), 'w').write(demo_src)
        for fn in os.listdir(d):
            if fn.endswith('.py') and fn != 'demo.py':
                shutil.copy(os.path.join(d, fn), os.path.join(wt, '_seed', fn))
        r0 = subprocess.run(['/venv/bin/python', '_seed/_demo.py'], cwd=wt, env=env, capture_output=True, text=True, timeout=600)
        meta['demo_unmodified_exit'] = r0.returncode
        a = sh(f'git -C {wt} apply {patch}')
        meta['patch_applies'] = a.returncode == 0
        if a.returncode:
            meta['apply_error'] = a.stderr[-400:]
        r1 = subprocess.run(['/venv/bin/python', '_seed/_demo.py'], cwd=wt, env=env, capture_output=True, text=True, timeout=600)
        meta['demo_with_change_exit'] = r1.returncode
        meta['demo_with_change_tail'] = (r1.stdout + r1.stderr)[-600:]
        b = json.load(open('/root/.vp/BASELINE.json'))
        x = os.path.join(wt, '_j.xml')
        cmd = b['cmd'].replace('cd /repo', f'cd {wt}').replace('<file>', x)
        sh(cmd)
        passed = set()
        for tc in ET.parse(x).getroot().iter('testcase'):
            if not any(c.tag in ('failure', 'error', 'skipped') for c in tc):
                passed.add(f"{tc.get('classname')}::{tc.get('name')}")
        missing = [t for t in b['stable_pass'] if t not in passed]
        meta['baseline_with_change'] = f'{len(b["stable_pass"]) - len(missing)}/{len(b["stable_pass"])}'
        meta['baseline_missing'] = missing
        meta['ran'] += ['demo on unmodified scratch worktree', 'git apply patch.diff', 'demo with change', 'pinned baseline with change']
    finally:
        sh(f'git -C /repo worktree remove --force {wt}')
    # checks against /repo with the patch applied
    assert sh('git -C /repo status --porcelain').stdout.strip() == '', '/repo not clean'
    ev = tempfile.mkdtemp(prefix='seedev-')
    res = {}
    try:
        assert sh(f'git -C /repo apply {patch}').returncode == 0
        env = dict(os.environ, VERIF_EVIDENCE_DIR=ev)
        for pid in PROPS:
            r = subprocess.run([os.path.join(VERIF, 'check'), pid], capture_output=True, text=True, env=env)
            out = r.stdout + r.stderr
            rules = sorted({l.split(']')[0].strip(' [') for l in out.splitlines() if l.startswith('  [')})
            first = next((l.strip()[:300] for l in out.splitlines() if l.startswith('  [')), None)
            res[pid] = {'exit': r.returncode, 'rules': rules, 'first': first}
            if r.returncode == 2:
                res[pid]['error'] = out.strip().splitlines()[-1][:300]
    finally:
        sh('git -C /repo checkout -- .')
        shutil.rmtree(ev, ignore_errors=True)
    assert sh('git -C /repo status --porcelain').stdout.strip() == ''
    meta['checks'] = {k: v for k, v in res.items() if v['exit'] != 0}
    meta['detected_by'] = sorted(k for k, v in res.items() if v['exit'] == 1)
    meta['analysis_error_in'] = sorted(k for k, v in res.items() if v['exit'] == 2)
    meta['ran'].append('git -C /repo apply patch.diff; ./check <all 19>; git -C /repo checkout -- .')
    old = {}
    mp = os.path.join(d, 'meta.json')
    if os.path.exists(mp):
        old = json.load(open(mp))
    old.update(meta)
    json.dump(old, open(mp, 'w'), indent=1)
    print(json.dumps({k: meta[k] for k in ('demo_unmodified_exit', 'demo_with_change_exit', 'baseline_with_change', 'detected_by', 'analysis_error_in')}, indent=1))
    for k, v in meta['checks'].items():
        print(k, v['exit'], v['rules'], (v.get('first') or v.get('error') or '')[:200])


if __name__ == '__main__':
    main()
