#!/usr/bin/env python3
"""tools/gen_known.py [repo]  ->  sa/known_functions.json : per module, the names of all functions defined anywhere in it and of the module-level
variables, on the tree the rules were confirmed on. sa/normalize.py inlines calls of functions that are NOT in this inventory (new extracted helpers)."""
import ast, json, os, sys
root = sys.argv[1] if len(sys.argv) > 1 else '/repo'
out = {}
for dp, dns, fns in os.walk(os.path.join(root, 'chython')):
    dns[:] = sorted(d for d in dns if d not in ('test', 'tests', '__pycache__'))
    for fn in sorted(fns):
        if fn.endswith('.py'):
            path = os.path.join(dp, fn)
            parts = os.path.relpath(path, root)[:-3].split(os.sep)
            if parts[-1] == '__init__':
                parts = parts[:-1]
            tree = ast.parse(open(path, encoding='utf-8').read())
            names = set()
            for st in tree.body:
                for t in (st.targets if isinstance(st, ast.Assign) else [st.target] if isinstance(st, ast.AnnAssign) else []):
                    names |= {n.id for n in ast.walk(t) if isinstance(n, ast.Name)}
            import sys as _s
            _s.path.insert(0, os.path.dirname(os.path.dirname(os.path.abspath(__file__))))
            from sa.normalize import scoped_functions, fingerprint, local_fingerprints, referrers, view_reads
            fps = {q: fingerprint(fn) for q, fn in scoped_functions(tree)}
            locs = {q: local_fingerprints(fn) for q, fn in scoped_functions(tree)}
            out['.'.join(parts)] = {'fingerprints': fps, 'locals': locs, 'refs': referrers(tree), 'views': view_reads(tree), 'functions': sorted({n.name for n in ast.walk(tree) if isinstance(n, (ast.FunctionDef, ast.AsyncFunctionDef))}),
                                    'names': sorted(names)}
json.dump(out, open(os.path.join(os.path.dirname(os.path.dirname(os.path.abspath(__file__))), 'sa', 'known_functions.json'), 'w'), indent=0, sort_keys=True)
print(len(out), 'modules', sum(len(v['functions']) for v in out.values()), 'functions', sum(len(v['names']) for v in out.values()), 'module-level names')
