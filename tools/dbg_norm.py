#!/usr/bin/env python3
"""tools/dbg_norm.py <module> [function]: show what sa/normalize.py does to a module of /repo (debug aid, not a check)"""
import sys, ast; sys.path.insert(0, '/verif')
from sa import normalize as N
mod = sys.argv[1]
path = '/repo/' + mod.replace('.', '/') + '.py'
import os
if not os.path.exists(path): path = '/repo/' + mod.replace('.', '/') + '/__init__.py'
tree = ast.parse(open(path).read())
known = N.KNOWN[mod]
for n in ast.walk(tree):
    if isinstance(n, ast.FunctionDef) and n.name not in known:
        h = N.analyse_helper(n)
        print('new helper', n.name, 'inlinable' if h else 'NOT inlinable', (len(h.prefix), bool(h.result)) if h else '')
print('inlined:', N.normalise_module(tree, mod))
for n in ast.walk(tree):
    if isinstance(n, ast.Call) and isinstance(n.func, ast.Name) and n.func.id not in known and any(isinstance(f, ast.FunctionDef) and f.name == n.func.id for f in ast.walk(tree)):
        print('  remaining call line', n.lineno, ast.unparse(n)[:120])
if len(sys.argv) > 2:
    for n in ast.walk(tree):
        if isinstance(n, ast.FunctionDef) and n.name == sys.argv[2]:
            print(ast.unparse(n))
