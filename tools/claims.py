# -*- coding: utf-8 -*-
# claim(pid, category, technique, text, note, design_ref) -- one entry per property with a working check
claim('C18', 'proof',
      'exhaustive literal-table extraction (ast.literal_eval over 118 element classes and both .pyx tables) + '
      'bit-provenance interpretation of the matcher encoder',
      'finite and exhaustive: every one of 118 elements x 9 literal tables, every tabulated isotope, both duplicated '
      '.pyx tables and the generated-class loops are read from the source and each obligation is discharged '
      'individually (obligations == discharged)',
      'trusts: the standard periodic table frozen in sa/tables.py; table properties are `return <literal>`; '
      '"contains the reference isotope" is decided as window membership anchored at mdl_isotope (DESIGN.md C18); '
      'physical correctness of masses/abundances beyond sanity windows is not decided',
      'DESIGN.md 4/C18')
claim('C12', 'other',
      'literal-table proof (24+8 permutation entries vs parity) + decision-ladder normalisation and sibling '
      'comparison of the sign-translation functions (ast); alias discipline around the stereo cache; normalised both-ends-distinct predicates; '
      'STEREO dimension of the mutator protocol',
      'decides the structural clauses: the two permutation tables equal parity / side-exchange (finite, exhaustive), '
      'the translation ladders produce exactly the table keys with matching indices, hydrogen fallbacks only on '
      'optional positions, sign flips exactly when the table says so; fix_stereo re-reads the chiral sets after every flush and leaves its loop '
      'without a flush only when nothing was restored; copies keep the neighbour order signs are relative to; a ring-linker / cumulene / tetrahedron '
      'counts as a centre only with distinguishable substituents at both ends; every structural edit reaches fix_stereo. Geometric sign functions, '
      'symmetry ranks and agreement with another toolkit are NOT decided',
      'trusts: ast parser; convention "True = flip"; undecided clauses listed in evidence.coverage.undecided_clauses',
      'DESIGN.md 4/C12')
claim('C13', 'other',
      'path-sensitive typestate/effect analysis over the ast (configuration sets, callee inlining with constant '
      'keyword contexts, witness-collection facts) + construction / ownership / restore rules + alias discipline around the instance cache + '
      'fresh-key and pending-set accumulator rules',
      'decides the protocol clause: every one of the ~35 public methods of the MoleculeContainer MRO that reach a raw '
      'state write (98 write sites) flushes without keeping stale values, relabels, recomputes hydrogens and '
      're-validates stereo on every normal exit; plus keep-list soundness, slot construction, copy ownership and '
      'transaction restore completeness, cached values never mutated / used stale / shared between containers, new atom numbers above every '
      'existing one, pending recalculation set only ever extended. It proves that no stale derived value can be served by the protocol, NOT '
      'that freshly computed values are right (that is C01/C04/C06).',
      'trusts: the exemption table in sa/r_protocol.py (each row one symbol + reason), access-path recognition of '
      'raw state (self._atoms/_bonds, aliases, objects drawn from them), primitives calc_labels/calc_implicit/'
      'fix_stereo/flush_cache taken at their documented effect',
      'DESIGN.md 3.B, 4/C13')
claim('C09', 'other',
      'bit-provenance abstract interpretation of the two mask encoders (affine shift forms with path restrictions), '
      'literal struct/format comparison across isomorphism.py and _isomorphism.pyx, attribute-set comparison with the '
      '__eq__ ladders',
      'decides layout agreement: for every attribute value (118 elements, charges, isotope offsets, H, neighbours, '
      'heteroatoms, hybridisation, ring sizes) both encoders use the same word and bit; fields are disjoint; every '
      'wildcard constant equals the OR over its domain; AnyElement/AnyMetal masks equal the element sets computed '
      'from the tables; struct formats, zip order and .pyx packed structs correspond; both paths consult the same '
      'attributes; fallbacks select the reference matcher; the per-call search restriction (scope) reaches both back-ends. It does NOT decide equivalence of the two search loops.',
      'trusts: attribute domains listed in evidence.assumptions; ROLE table as buffer contract; the .pyx analysed as text',
      'DESIGN.md 3.D, 4/C09')
claim('C03', 'other',
      'exception-flow analysis over the reader layer (raise-class family through the exceptions.py hierarchy, enclosing '
      'handler conversion), frozen guard instances for every indexing/lookup on input-derived data, end-of-input state '
      'exhaustiveness of the tokenizer, regex-language enumeration (re._parser) vs the charge table with rejection of the surplus, negative-count '
      'slices, role-order pairing, reserve/fill pairing of ring-closure slots',
      'decides the rejection clause only: no KeyError/IndexError/TypeError/StopIteration can escape smiles() for string '
      'input through any reviewed operation, every explicit raise is a ValueError subclass, every charge spelling of the '
      'table is reachable and every other string the regex admits meets a raise, reaction role slices use non-negative offsets, parsed per-role data '
      'is paired with molecules in the order molecules() yields them, ring-closure partners land in the neighbour-order slot reserved for them. It does NOT decide that the molecule built is '
      'the one the language defines (needs an independent reader as oracle).',
      'trusts: DAYLIGHT_TABLE (reviewed operations with their guards/invariants); int()/float()/unpacking raise ValueError (accepted)',
      'DESIGN.md 3.E, 4/C03')
claim('C08', 'other',
      'decision-ladder normalisation of every query __eq__ to a rejection DNF over canonical predicates compared with the '
      'documented semantics table; abstract execution of the hybridisation ladder of calc_labels; primitive-letter plumbing; constructor keyword coverage; guard ladders of the constraint normalisers evaluated '
      'over finite sample domains; neighbour-class partition of calc_labels; reader exception discipline on the smarts() path',
      'decides: each of QueryElement/AnyElement/ListElement/AnyMetal/QueryBond rejects exactly under the documented '
      'conditions (robust to re-ordering/re-nesting), every SMARTS primitive letter lands in the attribute its documentation '
      'names, only None means "no constraint" (0 is a constraint) and the admitted ranges are the documented ones, the neighbour / hydrogen / '
      'heteroatom labels the predicates read partition the neighbours, and malformed SMARTS is rejected with IncorrectSmarts/ValueError rather than an unrelated exception. '
      'Correctness of the atom labels the predicates read is C06/C13.',
      'trusts: EXPECTED semantics table in sa/r_query.py; DAYLIGHT_TABLE',
      'DESIGN.md 3.F-q, 4/C08')
claim('C01', 'other',
      'syntactic dataflow rules over the canonicalisation code (order-insensitive aggregation before hashing, '
      'int-only hash inputs, sort-key == group-key, FIFO discipline of level-labelling worklists) + wiring of __eq__/__hash__ + FLUSH dimension '
      'of the mutator protocol + alias discipline of cached ranks + dependence check of the pre-seeded canonical string',
      'decides necessary structural conditions only: equality/hash are the canonical string; each refinement step '
      'sorts neighbour contributions before hashing; the hashed invariants are structure-only integers (no atom '
      'number, coordinate, string); final classes are ranked by the hash value; the breadth-first distance labels used as tie-breaker are '
      'computed first-in-first-out; every mutator flushes the cached string/orders; the stereo-aware ranks are dropped whenever fix_stereo '
      'restores labels and cached ranks are never edited in place; every site that pre-fills the __str__ cache composes what __str__ composes. Whether the DFS writer breaks all remaining ties identically for every numbering is NOT decided.',
      'trusts: allow-list of integer attributes; exemption table of the mutator protocol',
      'DESIGN.md 4/C01')
claim('C17', 'other',
      'guards of the path growth evaluated over a (size, min, max) grid; layer count of the Morgan refinement; syntactic rules: fold-mask form of every inserted bit index, order-insensitive aggregation before hashing, '
      'int-only identifier tuples without atom numbers, reverse-canonical fragment keys',
      'decides: folded indices are < length by construction (x & (length-1)), the number of insertions follows '
      'number_active_bits, neighbourhood hashes sort their neighbour tuples, identifiers contain no atom number, '
      'linear fragments are keyed by direction-canonical identifier tuples. That the enumerated fragment set is '
      'exactly the set of simple paths / neighbourhoods is NOT decided.',
      'trusts: length is a power of two (documented precondition of the API)',
      'DESIGN.md 4/C17')
claim('C19', 'other',
      'syntactic rules: seed-independent (int-only) hash inputs, order-insensitive aggregation, no ambient '
      'nondeterminism outside a frozen list, manual cache seeding uses the owner\'s canonical call and composes what the owner composes, kept caches '
      'read structure only, cached values never mutated in place',
      'decides necessary conditions for run-to-run identity: no string/object hash or unsorted dict iteration feeds an '
      'ordering decision, random/time/id/uuid are not called outside documented randomised functions, the three '
      'places that pre-seed cached strings compute what the owning function computes, copy(keep_*) transfers only '
      'connectivity-derived caches. Tie-breaking by iteration over integer sets with different insertion histories is NOT decided.',
      'trusts: NONDET_ALLOWED list in sa/r_canon.py',
      'DESIGN.md 4/C19')
claim('C04', 'other',
      'literal valence-table compilation (data transform re-implemented), definite-assignment walk over calc_implicit, '
      'sibling comparison of the three rule-evaluation copies, index-domain typing of the environment keys, decision-table extraction of the aromatic '
      'shortcut, attribute read sets of the totals, pending-set accumulator discipline + HYDRO dimension of the mutator protocol',
      'decides: all 118 valence tables compile and are well shaped; every exit of calc_implicit assigns the count (no stale '
      'value); calc_implicit / check_implicit / implicify_hydrogens accumulate the same environment (coordinate bonds '
      'excluded) and test the same predicate; the aromatic-carbon shortcut equals its chemical table; formula/mass/charge/'
      'radical totals read hydrogens of all atoms; check_valence reports exactly None counts; every edit records the atoms whose environment changed in '
      'the pending set (only ever extended) and every mutator reaches the recalculation. That the tabulated valences '
      'are chemically right is NOT decided.',
      'trusts: the aromatic carbon table (2 aromatic bonds use 3 valence units, 3 use 4); parity rule of p-block valences with its frozen exception rows',
      'DESIGN.md 4/C04')
claim('C02', 'other',
      'writer<->reader code-book agreement by literal-table extraction, regex-language enumeration and decision-ladder '
      'extraction; attribute read sets of the atom formatter; chirality-mark polarity and first-atom predicate agreement; reserve/fill pairing of '
      'ring-closure slots in the neighbour order; dependence check of the pre-seeded canonical string',
      'decides: every charge/bond/hydrogen/closure/symbol token the writer can emit is read back to the same value; a single '
      'bond between aromatic atoms is written explicitly; the atom token carries element, isotope, charge, hydrogens, '
      'stereo, radical (CX block always appended); @ <-> True on both sides and both reverse it exactly for atoms without '
      'a preceding atom (chain starts recorded per component); a ring-closure digit fills exactly the neighbour-order slot it reserved; the cached '
      'string always carries the CX radical block; the sign-translation tables/ladders both sides use are consistent. Correctness of cis/trans '
      'direction-mark propagation for arbitrary traversals is NOT decided.',
      'trusts: atom maps <= 9999 (reader regex); organic subset elements cannot be aromatic unless b,c,n,o,p,s',
      'DESIGN.md 4/C02')
claim('C05', 'other',
      'mutator-protocol typestate walk restricted to kekule / enumerate_kekule / thiele, constant propagation over the bond '
      'orders the Kekule search and thiele can store, literal rule-table applicability, generator ownership (yield-then-mutate / borrowed-from-pool) '
      'over the Kekule enumeration, donor-guard obligation of the ring-tautomer hydrogen move',
      'decides: every bond-order rewrite of the conversions is followed by flush (with sound keep flags), relabel, hydrogen '
      'recomputation (kekule) and stereo fix (thiele) on every exit; a Kekule form can only contain orders 1/2 and thiele only '
      'stores 4/1; the aromatic repair rules index only atoms of their own patterns; an enumerated Kekule form is never edited after it was yielded or '
      'pooled; the tautomer fix moves a hydrogen only from a nitrogen whose guard establishes that it has one. Existence/uniqueness of the alternation, '
      'idempotence and "all Kekule forms aromatise to one form" are NOT decided (search behaviour).',
      'trusts: exemption table rows for kekule/thiele (documented: keeps stereo as is; aromatisation keeps Kekule H counts)',
      'DESIGN.md 4/C05')
claim('C06', 'other',
      'operand-provenance check of the cyclomatic number, single-source check of ring caches, definite assignment of ring '
      'marks in calc_labels, LABELS/KEEP dimensions of the mutator protocol',
      'decides: ring count and ring search use one graph whose only filter is the coordinate order 8; ring marks on atoms and '
      'bonds derive only from the ring set and are (re)assigned for every atom/bond; every topology write reaches calc_labels '
      'and drops the ring caches. Linear independence / minimality / numbering independence of the ring search are NOT decided.',
      'trusts: none beyond the ast model',
      'DESIGN.md 4/C06')
claim('C14', 'other',
      'mutator-protocol typestate walk over the normalisers, literal rule-table applicability (117 rules + 17 charge rules '
      'against a SMARTS atom scanner), index-domain typing of the rule-application loops, write-set (effect) check for the atom set, fresh-key rule',
      'decides: every normaliser leaves caches/labels/hydrogens/stereo coherent; every built-in rule indexes only atoms of its '
      'own pattern with orders/deltas in range ("never fail" for dangling indices); only hydrogen (im)explicification and salt '
      'stripping can change the atom set and they touch hydrogens / whole components only; pattern indices and molecule atom numbers are never '
      'confused; new hydrogens get numbers above every existing atom. Charge/hydrogen conservation per '
      'rule, idempotence and numbering independence are NOT decided.',
      'trusts: SMARTS atom scanner for the documented subset; exemption table',
      'DESIGN.md 4/C14')
claim('C07', 'other',
      'control-dependence check of every admission site of the reference matcher (guard kinds classified from the ast) and of '
      'the .pyx matcher (text), wiring check of the automorphism filter and comparison operators, index-domain typing of the reference matcher, '
      'generator ownership of the yielded mappings',
      'decides soundness guards only: no target atom is admitted without scope, atom, injectivity, bond, closure-set-equality '
      'and closure-bond tests; the filter keys on the unordered image set; operators are wired to is_substructure with the '
      'right length tests; query-atom and molecule-atom numbers are never confused; a mapping is never edited after it was yielded and values drawn '
      'from lazy_product are copied before they are merged. Completeness of the search (no mapping lost) is NOT decided.',
      'trusts: variable naming of the matcher (guard classification is by operand names); the .pyx analysed as text',
      'DESIGN.md 4/C07')
claim('C15', 'other',
      'syntactic role-order / sort-before-index rules over the reaction writer and reader, value-provenance check of '
      'MoleculeContainer.compose (self -> reactant slot, other -> product slot), literal signature tables (completeness, injectivity), role-order pairing',
      'decides: writer and reader use the same role order; molecules of a role are sorted by their strings before CX indices are '
      'computed; the condensed graph takes reactant values from the left operand and product values from the right one; dynamic '
      'flags are exactly the reactant/product attribute differences; the dynamic bond/charge/radical token tables are complete and '
      'injective; role slices use non-negative offsets. Renumbering independence of the CGR string is NOT decided.',
      'trusts: variable naming in compose (self/other); undecided parts of C01',
      'DESIGN.md 4/C15')
claim('C20', 'other',
      'literal code-book inversion, polarity agreement of the two conversion functions, getter/setter attribute-set comparison '
      '(source only; RDKit is not executed)',
      'decides: bond type maps are mutually inverse on {1,2,3,4,8}; import and export agree on CCW<->True and Z<->True and both '
      'translate signs through RDKit\'s reported neighbour order / stereo atoms; the same atom attributes travel in both '
      'directions; the sign-translation tables are consistent. Agreement with RDKit\'s own semantics is NOT decided.',
      'trusts: RDKit API names as written in utils/rdkit.py',
      'DESIGN.md 4/C20')
claim('C10', 'other',
      'bit-provenance abstract interpretation of the straight-line integer code of both .pyx codecs (text -> cast stripping -> ast), '
      'comparison with the published field table; linear-form normalisation of the size arithmetic of writer / reader / '
      'pack_len; literal-table comparison of the duplicated isotope tables; limit guards; negative-count slices; table / inverse-table pairing of '
      'the cis-trans records',
      'decides: every bit of every field of the 9-byte atom record and the header sits where the published version-2 layout '
      'puts it, in the writer and in the reader; stereo / hydrogen / charge code books agree; section sizes of writer, reader '
      '(v2 and v0) and pack_len agree; the two isotope tables equal each other and the element data; every tabulated isotope, '
      'charge and hydrogen count is representable; the documented limits are enforced; reaction roles are cut with non-negative '
      'offsets; cis/trans records hold the terminal pair and are resolved back through the terminal->centre table. Float16 accuracy, the connection-table / order bit streams, zlib and the shipped corpus are NOT decided.',
      'trusts: the published layout table; regex-level extraction of the .pyx statements (fail-closed)',
      'DESIGN.md 3.D, 4/C10')
claim('C11', 'other',
      'exception-family analysis of the record iterators vs every explicit raise of the MDL/RDF/MRV layer; literal code-book '
      'inversion for V2000/V3000 charge, isotope, radical and wedge codes; role-order / cumulative-offset check of the reaction '
      'parsers; role-order pairing of parsed blocks with molecules(); attribute-name agreement of the MRV writer and reader',
      'decides: a damaged record cannot stop iteration (handlers cover the ValueError family and LookupError, every explicit '
      'raise of the record parsers is inside that family, documented aborts are a frozen table); charge/wedge/property-line '
      'code books are mutually inverse incl. the M  CHG rule for +-4; reaction roles are written and partitioned in the same '
      'order with non-negative cumulative offsets; stereo post-processing pairs each parsed block with the molecule of the same role; MRV attribute names agree. Column formatting, geometry and metadata text '
      'round trip are NOT decided.',
      'trusts: EXEMPT table of documented aborts in sa/props/c11.py',
      'DESIGN.md 3.E, 4/C11')


# clauses added in rounds 4-5 (appended to the technique / decided text of the claims above; see DESIGN.md section 14)
_MORE = {
    'C01': ('; interim-cache typestate facts (a cached value filled and then invalidated inside one method is dropped before exit)',
            ' Also: no method returns with a cached value computed before one of its own raw writes.'),
    'C03': ('; regex-AST comparison of the two ITEM copies of list patterns', ' Also: every element of a CXSMILES list is read with the same sub-pattern.'),
    'C06': ('; control-dependence rule for the simple-cycle test of the SSSR candidate generator', ' Also: every ring candidate emitted by _c_set is guarded by the simple-cycle test over the very walk it emits.'),
    'C07': ('; flag-polarity rule (reach conditions evaluated for both values of automorphism_filter)', ' Also: symmetric images are re-expanded exactly when the filter is off and skipped exactly when it is on.'),
    'C08': ('; complement relation between the bond-symbol table and the NOT-bond table', ' Also: !<bond> admits exactly the other ordinary orders.'),
    'C09': ('; dead-update lint (useful liveness) over the encoders', ' Also: every mask contribution reaches a word that is stored.'),
    'C11': ('; disjoint id-domain rule for V3000 star points', ' Also: a star-point id is never looked up among the numbered atoms.'),
    'C13': ('; interim-cache typestate facts', ' Also: no method returns with a cached value computed before one of its own raw writes.'),
    'C14': ('; patch-order rule: walk order of atom_fix read from the loop header and evaluated against the overflow possibilities of every rule pattern',
            ' Also: an abandoned match cannot leave an earlier atom patched (all-or-nothing under the +4 cap) for any built-in rule.'),
    'C15': ('; __hash__ / __eq__ attribute multiset comparison for the dynamic atom / bond classes', ' Also: CGR atom and bond hashes read each compared attribute exactly once.'),
    'C17': ('; hoisted-precomputation clause of the order-free hash rule', ' Also: nothing hashed inside the radius loop was computed before it from identifiers the loop rebinds.'),
    'C19': ('; interim-cache typestate facts; hoisted-precomputation clause', ' Also: first call and cached call agree because no method leaves an entry computed for an earlier state.'),
}
_MORE6 = {
    'C01': '; closure-order consumer agreement in Smiles._smiles',
    'C02': '; closure-order consumer agreement, elemental-bracket arm as DNF, provenance of the bare string returned to the reaction writer',
    'C04': '; tentative-removal-set agreement in implicify_hydrogens',
    'C05': '; tri-state ladder lint (None vs 0 hydrogens)',
    'C06': '; argument-mutation lint (missing copies) with a frozen table of documented in-place helpers',
    'C08': '; substring-membership lint',
    'C09': '; accumulate-in-loops clause of the mask encoders',
    'C11': '; truth table of the RDF header condition',
    'C13': '; same-reach-conditions clause for the two halves of a removed bond',
    'C14': '; tentative-removal-set agreement; slice-after-truncation lint',
    'C15': '; provenance of the bare string returned to the reaction writer',
    'C17': '; sibling agreement of the "no cap" sentinel',
    'C20': '; swallowing-try-around-loop lint',
}
for _pid, _t in _MORE6.items():
    if _pid in _MORE:
        _MORE[_pid] = (_MORE[_pid][0] + _t, _MORE[_pid][1])
    else:
        _MORE[_pid] = (_t, '')
_MORE78 = {
    'C02': '; closure-id scope; CX index language of the pattern literals (0-based witnesses); bare-H token written only for one hydrogen',
    'C03': '; sibling options of create_molecule / create_reaction (effective keyword-or-default values); CX index language',
    'C05': '; pyrrole-pair threshold evaluated for 0 / 2 / 4; view-signature lint H13',
    'C06': '; pid replace-or-extend; ring mark is a bool; canonical ring orientation by evaluating return expressions over positions',
    'C07': '; scratch-map clearing of the .pyx per candidate; stereo gates of QueryIsomorphism.get_mapping (for-else dominance of every yield)',
    'C08': '; ring mark is a bool; stereo gates; argument/parameter affinity lint H14',
    'C09': '; isotope window of the query encoder; loops over the ring-size set run to the end',
    'C10': '; half-float decoder paths and encoder exponent offset tracking (.pyx bodies parsed as statements)',
    'C11': '; first M END wins; property lines address atoms by enumerate position',
    'C14': '; overlap atoms of the metal-organic rules',
    'C15': '; fragment counter arithmetic',
    'C18': '; class-level cached values read no per-instance state',
    'C20': '; index inverse of the RDKit bridge',
}
_MORE9 = {
    'C01': '; Morgan seed fields of Element.__hash__',
    'C02': '; reader hands the full written neighbour list to add_atom_stereo; Morgan seed fields',
    'C05': '; emptied partner lists filtered in __prepare_rings',
    'C06': '; scissors pairing of the glued contours (sibling agreement)',
    'C07': '; every iteration of the matcher-collecting for-else appends or breaks',
    'C08': '; OR list of one primitive rejected before conversion',
    'C10': '; cis/trans terminal keys evaluated over positions',
    'C11': '; slice shortcut evaluated over slice.indices outcomes',
    'C12': '; prune-condition truth table; cis/trans terminal keys; full neighbour list',
    'C13': '; back-connection guard of the copy loops',
    'C14': '; tri-state radical patch',
    'C15': '; positional radical list of ReactionContainer.__format__',
    'C17': '; fresh identifier per Morgan layer',
    'C18': '; strip-charset lint H15',
}
_MORE10 = {
    'C03': '; positional mapping list of postprocess_parsed_reaction (path walk)',
    'C06': '; shared-bond threshold of _is_condensed_ring',
    'C07': '; target numbers on the target in the stereo filters',
    'C08': '; target numbers on the target in the stereo filters',
    'C10': '; pack length computed before the cis/trans cursor moves',
    'C11': '; RDF index lands on the header line (finding F23, fixed); 1-based bound of V2000 property lines',
    'C13': '; shallow copy of a cached dict of containers (lint)',
    'C14': '; charge roll-back threshold',
    'C15': '; fragment index bound',
    'C17': '; Morgan window radius of morgan_hash_smiles',
    'C19': '; shallow copy of a cached dict of containers (lint)',
    'C20': '; first exported conformer is the 2D layout',
}
for _d in (_MORE78, _MORE9, _MORE10):
  for _pid, _t in _d.items():
    if _pid in _MORE:
        _MORE[_pid] = (_MORE[_pid][0] + _t, _MORE[_pid][1])
    else:
        _MORE[_pid] = (_t, '')
for _pid, _t in {}.items():
    if _pid in _MORE:
        _MORE[_pid] = (_MORE[_pid][0] + _t, _MORE[_pid][1])
    else:
        _MORE[_pid] = (_t, '')
for _pid, (_t, _x) in _MORE.items():
    if _pid in CLAIMS:
        _c = CLAIMS[_pid]
        CLAIMS[_pid] = (_c[0], _c[1] + _t + '; all rules run behind the de-refactoring normaliser sa/normalize.py (new helpers / lookup tables inlined)', _c[2] + _x, _c[3], _c[4])
