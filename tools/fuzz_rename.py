#!/usr/bin/env python3
"""tools/fuzz_rename.py <seed> <fraction>: robustness aid (not a check). Rewrites /repo/chython in place: in a random fraction of the functions one or two local
variables are renamed consistently (x -> x_<n>); the result is behaviour-preserving by construction. Run the checks, then `git -C /repo checkout -- .`"""
import ast, os, random, sys
seed, frac = int(sys.argv[1]), float(sys.argv[2])
rnd = random.Random(seed)
count = 0
for dp, dns, fns in os.walk('/repo/chython'):
    if 'test' in dp.split(os.sep):
        continue
    for fn in sorted(fns):
        if not fn.endswith('.py'):
            continue
        p = os.path.join(dp, fn)
        tree = ast.parse(open(p).read())
        changed = False
        for f in ast.walk(tree):
            if not isinstance(f, (ast.FunctionDef,)) or rnd.random() > frac:
                continue
            nested = [g for g in ast.walk(f) if isinstance(g, (ast.FunctionDef, ast.Lambda, ast.ClassDef)) and g is not f]
            if nested:
                continue  # closures: keep it simple
            params = {a.arg for a in ast.walk(f.args) if isinstance(a, ast.arg)}
            declared = {n for g in ast.walk(f) if isinstance(g, (ast.Global, ast.Nonlocal)) for n in g.names}
            stores = {n.id for n in ast.walk(f) if isinstance(n, ast.Name) and isinstance(n.ctx, ast.Store)} - params - declared
            comp = {t.id for c in ast.walk(f) if isinstance(c, ast.comprehension) for t in ast.walk(c.target) if isinstance(t, ast.Name)}
            names = {n.id for n in ast.walk(f) if isinstance(n, ast.Name)}
            cands = sorted(x for x in stores - comp if len(x) >= 1 and not x.startswith('__'))
            if not cands:
                continue
            for old in rnd.sample(cands, min(len(cands), rnd.choice((1, 2)))):
                new = f'{old}_{rnd.randint(2, 9)}'
                if new in names or new in params:
                    continue
                for n in ast.walk(f):
                    if isinstance(n, ast.Name) and n.id == old:
                        n.id = new
                changed = True
                count += 1
        if changed:
            open(p, 'w').write(ast.unparse(tree) + '\n')
print(count, 'locals renamed')
