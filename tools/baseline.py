#!/usr/bin/env python3
"""run the pinned baseline command (guard off: there are no hooks) and compare with BASELINE.json stable_pass"""
import json, subprocess, sys, tempfile, os, xml.etree.ElementTree as ET
b = json.load(open('/root/.vp/BASELINE.json'))
with tempfile.TemporaryDirectory() as d:
    x = os.path.join(d, 'j.xml')
    cmd = b['cmd'].replace('<file>', x)
    subprocess.run(cmd, shell=True, stdout=subprocess.DEVNULL, stderr=subprocess.DEVNULL)
    passed = set()
    for tc in ET.parse(x).getroot().iter('testcase'):
        if not any(c.tag in ('failure', 'error', 'skipped') for c in tc):
            passed.add(f"{tc.get('classname')}::{tc.get('name')}")
missing = [t for t in b['stable_pass'] if t not in passed]
print(f'baseline: {len(b["stable_pass"]) - len(missing)}/{len(b["stable_pass"])} stable tests pass; {len(passed)} pass in total')
for m in missing:
    print('  MISSING', m)
sys.exit(1 if missing else 0)
