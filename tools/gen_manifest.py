#!/usr/bin/env python3
# -*- coding: utf-8 -*-
"""Regenerate /verif/MANIFEST.json from the table below (keeps it schema-valid at all times)."""
import json
import os
import sys

HERE = os.path.dirname(os.path.dirname(os.path.abspath(__file__)))
sys.path.insert(0, HERE)

# property -> (category, technique, text, note, design_ref)
CLAIMS = {}
NOT_APPLICABLE = {
    'C16': 'template application: frame conditions ("everything not named is unchanged"), match-set semantics and '
           'product de-duplication quantify over runtime graphs; no structural necessary condition specific to the '
           'property exists (the generic finalisation protocol of _patcher is decided under C13). Static analysis '
           'cannot decide it; see DESIGN.md section 4/C16.',
}


def claim(pid, category, technique, text, note, ref):
    CLAIMS[pid] = (category, technique, text, note, ref)


exec(open(os.path.join(HERE, 'tools', 'claims.py')).read())

ALL = [f'C{i:02d}' for i in range(1, 21)]


def main():
    checks = []
    for pid in ALL:
        if pid not in CLAIMS:
            continue
        cat, tech, text, note, ref = CLAIMS[pid]
        checks.append({
            'property_id': pid,
            'quick_cmd': f'./check {pid} --tier quick',
            'thorough_cmd': f'./check {pid} --tier thorough',
            'evidence_file': f'/verif/evidence/{pid}.json',
            'replay_cmd_template': f'./check {pid} --replay {{path}}',
            'engine': 'sa',
            'level_claimed': {'category': cat, 'text': text, 'design_ref': ref},
            'level_note': note,
            'technique': tech,
        })
    na = []
    for pid in ALL:
        if pid in CLAIMS:
            continue
        reason = NOT_APPLICABLE.get(pid) or 'check not built yet in this round (planned, see DESIGN.md section 4); not claimed'
        na.append({'property_id': pid, 'reason': reason})
    man = {
        'version': 1,
        'setup_cmd': 'chmod +x /verif/check && cd /verif && ./check --help >/dev/null',
        'hooks': {
            'guard': 'CHYTHON_VERIF',
            'enable': 'none needed: static analysis parses /repo/chython source files; no hook commits exist',
            'baseline_off_cmd': 'cd /repo && /venv/bin/python -m pytest -ra -q -p no:cacheprovider --timeout=900 '
                                '--continue-on-collection-errors',
            'source_commits': [],
            'add_only': True,
        },
        'engines': [
            {'name': 'sa', 'path': '/verif/sa', 'serves_properties': sorted(CLAIMS),
             'kind_free_text': 'custom ast-based static analysis of /repo/chython (repository model with C3 MRO and '
                               'import resolution, effect/typestate walk, literal-table and code-book extraction, '
                               'bit-provenance abstract interpretation of mask encoders); never imports or runs chython'},
        ],
        'checks': checks,
        'not_applicable': na,
        'notes': 'Every check decides named structural clauses of its property (listed in DESIGN.md section 4 and '
                 'repeated in each evidence file under coverage.undecided_clauses); exit 2 + ANALYSIS-ERROR means the '
                 'checker could not establish its own preconditions. Self-test of the checkers: ./selftest.',
    }
    with open(os.path.join(HERE, 'MANIFEST.json'), 'w') as fh:
        json.dump(man, fh, indent=1)
    print(f'MANIFEST.json: {len(checks)} checks, {len(na)} not_applicable')


if __name__ == '__main__':
    main()
