# -*- coding: utf-8 -*-
"""
C-f: built-in rule tables (standardisation groups, metal-organics, aromatic ring repair, charge canonisation) are
applicable to their own patterns: every atom number used in atom_fix / bonds_fix is an atom of the SMARTS literal,
orders / charge deltas / radical marks are in range. The SMARTS literals are scanned, not parsed by chython.
"""
import ast
import re
from .core import AnalysisError
from .astutil import src

RULE_MODULES = {
    'chython.algorithms.standardize._groups': ('delta', ('_rules_single', '_rules_double')),
    'chython.algorithms.standardize._metal_organics': ('delta', ('_rules',)),
    'chython.algorithms.aromatics._rules': ('absolute', ('_rules',)),
}
BARE = re.compile(r'Cl|Br|[CNOPSFIBcnopsb]')


def smarts_atoms(s):
    """(atom numbers as smarts() assigns them, problems). scanner for the documented SMARTS subset"""
    body = s.split()[0] if s.split() else ''
    maps = []
    unmapped = 0
    problems = []
    i = 0
    depth = 0
    closures = {}
    n_atoms = 0
    while i < len(body):
        ch = body[i]
        if ch == '[':
            j = body.find(']', i)
            if j < 0:
                problems.append('unterminated [')
                break
            tok = body[i + 1:j]
            if '[' in tok:
                problems.append('nested [')
            m = re.search(r':([1-9][0-9]*)$', tok)
            if m:
                maps.append(int(m.group(1)))
            else:
                unmapped += 1
            n_atoms += 1
            i = j + 1
            continue
        if ch == ']':
            problems.append('stray ]')
        elif ch == '(':
            depth += 1
        elif ch == ')':
            depth -= 1
            if depth < 0:
                problems.append('unbalanced )')
        elif ch == '%':
            num = body[i + 1:i + 3]
            closures[num] = closures.get(num, 0) + 1
            i += 3
            continue
        elif ch.isdigit():
            closures[ch] = closures.get(ch, 0) + 1
        else:
            m = BARE.match(body, i)
            if m:
                unmapped += 1
                n_atoms += 1
                i = m.end()
                continue
        i += 1
    if depth:
        problems.append('unbalanced (')
    for k, v in closures.items():
        if v % 2:
            problems.append(f'ring closure {k} not paired')
    if len(set(maps)) != len(maps):
        problems.append('duplicate atom map')
    start = max(maps, default=0) + 1
    numbers = set(maps) | set(range(start, start + unmapped))
    return numbers, problems


def iter_rules(func):
    """(q literal, atom_fix node, bonds_fix node, append node) in program order"""
    cur = {}
    for st in func.node.body:
        if isinstance(st, ast.Assign) and isinstance(st.targets[0], ast.Name):
            name = st.targets[0].id
            if name == 'q':
                v = st.value
                if isinstance(v, ast.Call) and src(v.func) == 'smarts' and v.args and isinstance(v.args[0], ast.Constant):
                    cur['q'] = (v.args[0].value, st.lineno)
                else:
                    raise AnalysisError(f'{func.fq}:{st.lineno}: q is not smarts(<literal>)')
            elif name in ('atom_fix', 'bonds_fix'):
                cur[name] = st.value
        elif isinstance(st, ast.Expr) and isinstance(st.value, ast.Call) and src(st.value.func) in ('rules.append', 'compiled_rules.append'):
            arg = st.value.args[0]
            if isinstance(arg, ast.Tuple):
                names = [src(e) for e in arg.elts]
                if 'q' in names:
                    yield dict(cur), names, st.lineno


def rule_tables_applicable(ck, repo, R):
    ck.rule(R, 'every built-in rule (q, atom_fix, bonds_fix, ...) refers only to atom numbers that exist in its own SMARTS pattern, bond '
               'orders are in {1,2,3,4,8}, charge changes are ints in -4..4, radical marks in {None, True, False}, bonds join two distinct atoms; '
               'patterns are well bracketed with paired ring closures (a dangling index is a KeyError when the rule fires)')
    total = 0
    for mn, (mode, fnames) in RULE_MODULES.items():
        m = repo.module(mn)
        for fn in fnames:
            f = m.functions.get(fn)
            ck.require(f is not None, f'{mn}.{fn} vanished')
            for cur, names, line in iter_rules(f):
                total += 1
                q, qline = cur['q']
                numbers, problems = smarts_atoms(q)
                key = f'{mn.rsplit(".", 1)[1]}.{fn}:{q}'
                loc = dict(file=m.relpath, line=line, func=fn)
                errs = list(problems)
                try:
                    af = ast.literal_eval(cur['atom_fix']) if 'atom_fix' in cur and 'atom_fix' in names else {}
                    bf = ast.literal_eval(cur['bonds_fix']) if 'bonds_fix' in cur and 'bonds_fix' in names else ()
                except Exception:
                    raise AnalysisError(f'{m.relpath}:{line}: atom_fix / bonds_fix is not a literal')
                for n, v in af.items():
                    if n not in numbers:
                        errs.append(f'atom_fix refers to atom {n}, pattern has atoms {sorted(numbers)}')
                    if mode == 'delta':
                        if not (isinstance(v, tuple) and len(v) == 2 and isinstance(v[0], int) and -4 <= v[0] <= 4 and v[1] in (None, True, False)):
                            errs.append(f'atom_fix[{n}] = {v!r} is not (charge delta -4..4, radical None/True/False)')
                    else:
                        if not (isinstance(v, int) and not isinstance(v, bool) and -4 <= v <= 4):
                            errs.append(f'atom_fix[{n}] = {v!r} is not a charge in -4..4')
                for b in bf:
                    if not (isinstance(b, tuple) and len(b) == 3):
                        errs.append(f'bonds_fix entry {b!r} is not (atom, atom, order)')
                        continue
                    x, y, o = b
                    if x not in numbers or y not in numbers:
                        errs.append(f'bonds_fix {b} refers to atoms outside the pattern {sorted(numbers)}')
                    if x == y:
                        errs.append(f'bonds_fix {b} joins an atom with itself')
                    if o not in (1, 2, 3, 4, 8):
                        errs.append(f'bonds_fix {b} has order {o!r}')
                pairs = [frozenset(b[:2]) for b in bf if isinstance(b, tuple) and len(b) == 3]
                if len(set(pairs)) != len(pairs):
                    errs.append('bonds_fix names the same bond twice')
                ck.decide(not errs, R, key, f'{len(numbers)} atoms', f'rule `{q}`: ' + '; '.join(errs), **loc)
    ck.count('rules checked', total)
    ck.require(total >= 100, f'only {total} rules recognised (about 120 on the pinned tree)')
    # charge canonisation rules: (q, fix) -- atoms 1 and 2 always, 3 when fix
    m = repo.module('chython.algorithms.standardize._charged')
    n2 = 0
    for fn in ('_fixed_rules', '_morgan_rules'):
        f = m.functions.get(fn)
        ck.require(f is not None, f'_charged.{fn} vanished')
        q = None
        for st in f.node.body:
            if isinstance(st, ast.Assign) and src(st.targets[0]) == 'q' and isinstance(st.value, ast.Call) and st.value.args and isinstance(st.value.args[0], ast.Constant):
                q = st.value.args[0].value
            elif isinstance(st, ast.Expr) and isinstance(st.value, ast.Call) and src(st.value.func) == 'rules.append':
                tup = st.value.args[0]
                fix = ast.literal_eval(tup.elts[1])
                numbers, problems = smarts_atoms(q)
                need = {1, 2} | ({3} if fix else set())
                n2 += 1
                ck.decide(need <= numbers and not problems, R, f'_charged.{fn}:{q}', sorted(need),
                          f'charge rule `{q}` (fix={fix}) needs mapped atoms {sorted(need)}; pattern has {sorted(numbers)} {problems}', file=m.relpath, line=st.lineno, func=fn)
    ck.require(n2 >= 15, f'only {n2} charge canonisation rules recognised')
    ck.floor(R, 115)
