# -*- coding: utf-8 -*-
"""
C-f: built-in rule tables (standardisation groups, metal-organics, aromatic ring repair, charge canonisation) are
applicable to their own patterns: every atom number used in atom_fix / bonds_fix is an atom of the SMARTS literal,
orders / charge deltas / radical marks are in range. The SMARTS literals are scanned, not parsed by chython.
"""
import ast
import re
from .core import AnalysisError
from .astutil import src

RULE_MODULES = {
    'chython.algorithms.standardize._groups': ('delta', ('_rules_single', '_rules_double')),
    'chython.algorithms.standardize._metal_organics': ('delta', ('_rules',)),
    'chython.algorithms.aromatics._rules': ('absolute', ('_rules',)),
}
BARE = re.compile(r'Cl|Br|[CNOPSFIBcnopsb]')


def smarts_atoms(s):
    """(atom numbers as smarts() assigns them, problems). scanner for the documented SMARTS subset"""
    body = s.split()[0] if s.split() else ''
    maps = []
    unmapped = 0
    problems = []
    order = []  # (token text, map number or None) in order of appearance
    i = 0
    depth = 0
    closures = {}
    n_atoms = 0
    while i < len(body):
        ch = body[i]
        if ch == '[':
            j = body.find(']', i)
            if j < 0:
                problems.append('unterminated [')
                break
            tok = body[i + 1:j]
            if '[' in tok:
                problems.append('nested [')
            m = re.search(r':([1-9][0-9]*)$', tok)
            if m:
                maps.append(int(m.group(1)))
            else:
                unmapped += 1
            order.append((tok, int(m.group(1)) if m else None))
            n_atoms += 1
            i = j + 1
            continue
        if ch == ']':
            problems.append('stray ]')
        elif ch == '(':
            depth += 1
        elif ch == ')':
            depth -= 1
            if depth < 0:
                problems.append('unbalanced )')
        elif ch == '%':
            num = body[i + 1:i + 3]
            closures[num] = closures.get(num, 0) + 1
            i += 3
            continue
        elif ch.isdigit():
            closures[ch] = closures.get(ch, 0) + 1
        else:
            m = BARE.match(body, i)
            if m:
                unmapped += 1
                n_atoms += 1
                order.append((m.group(0), None))
                i = m.end()
                continue
        i += 1
    if depth:
        problems.append('unbalanced (')
    for k, v in closures.items():
        if v % 2:
            problems.append(f'ring closure {k} not paired')
    if len(set(maps)) != len(maps):
        problems.append('duplicate atom map')
    start = max(maps, default=0) + 1
    numbers = set(maps) | set(range(start, start + unmapped))
    nxt = start
    TOKENS.clear()
    for tok, mp in order:
        if mp is None:
            TOKENS[nxt] = tok
            nxt += 1
        else:
            TOKENS[mp] = tok
    return numbers, problems


TOKENS = {}  # atom number -> token text of the pattern scanned last (side table of smarts_atoms)


def pattern_charge(tok):
    """charge a pattern atom token demands: int, or None when the atom matches any charge (AnyMetal `M`)"""
    head = re.split(r'[;:]', tok)[0]
    if head == 'M':
        return None
    m = re.search(r'(?:^|;)([+-])(\d?)(?=;|:|$)', tok) or re.search(r'([+-])(\d?)$', re.sub(r':\d+$', '', tok))
    if not m:
        return 0
    return (1 if m.group(1) == '+' else -1) * (int(m.group(2)) if m.group(2) else 1)


def iter_rules(func):
    """(q literal, atom_fix node, bonds_fix node, append node) in program order"""
    cur = {}
    for st in func.node.body:
        if isinstance(st, ast.Assign) and isinstance(st.targets[0], ast.Name):
            name = st.targets[0].id
            if name == 'q':
                v = st.value
                if isinstance(v, ast.Call) and src(v.func) == 'smarts' and v.args and isinstance(v.args[0], ast.Constant):
                    cur['q'] = (v.args[0].value, st.lineno)
                else:
                    raise AnalysisError(f'{func.fq}:{st.lineno}: q is not smarts(<literal>)')
            elif name in ('atom_fix', 'bonds_fix'):
                cur[name] = st.value
        elif isinstance(st, ast.Expr) and isinstance(st.value, ast.Call) and src(st.value.func) in ('rules.append', 'compiled_rules.append'):
            arg = st.value.args[0]
            if isinstance(arg, ast.Tuple):
                names = [src(e) for e in arg.elts]
                if 'q' in names:
                    yield dict(cur), names, st.lineno


def rule_tables_applicable(ck, repo, R):
    ck.rule(R, 'every built-in rule (q, atom_fix, bonds_fix, ...) refers only to atom numbers that exist in its own SMARTS pattern, bond '
               'orders are in {1,2,3,4,8}, charge changes are ints in -4..4, radical marks in {None, True, False}, bonds join two distinct atoms; '
               'patterns are well bracketed with paired ring closures (a dangling index is a KeyError when the rule fires)')
    total = 0
    for mn, (mode, fnames) in RULE_MODULES.items():
        m = repo.module(mn)
        for fn in fnames:
            f = m.functions.get(fn)
            ck.require(f is not None, f'{mn}.{fn} vanished')
            for cur, names, line in iter_rules(f):
                total += 1
                q, qline = cur['q']
                numbers, problems = smarts_atoms(q)
                key = f'{mn.rsplit(".", 1)[1]}.{fn}:{q}'
                loc = dict(file=m.relpath, line=line, func=fn)
                errs = list(problems)
                try:
                    af = ast.literal_eval(cur['atom_fix']) if 'atom_fix' in cur and 'atom_fix' in names else {}
                    bf = ast.literal_eval(cur['bonds_fix']) if 'bonds_fix' in cur and 'bonds_fix' in names else ()
                except Exception:
                    raise AnalysisError(f'{m.relpath}:{line}: atom_fix / bonds_fix is not a literal')
                for n, v in af.items():
                    if n not in numbers:
                        errs.append(f'atom_fix refers to atom {n}, pattern has atoms {sorted(numbers)}')
                    if mode == 'delta':
                        if not (isinstance(v, tuple) and len(v) == 2 and isinstance(v[0], int) and -4 <= v[0] <= 4 and v[1] in (None, True, False)):
                            errs.append(f'atom_fix[{n}] = {v!r} is not (charge delta -4..4, radical None/True/False)')
                    else:
                        if not (isinstance(v, int) and not isinstance(v, bool) and -4 <= v <= 4):
                            errs.append(f'atom_fix[{n}] = {v!r} is not a charge in -4..4')
                for b in bf:
                    if not (isinstance(b, tuple) and len(b) == 3):
                        errs.append(f'bonds_fix entry {b!r} is not (atom, atom, order)')
                        continue
                    x, y, o = b
                    if x not in numbers or y not in numbers:
                        errs.append(f'bonds_fix {b} refers to atoms outside the pattern {sorted(numbers)}')
                    if x == y:
                        errs.append(f'bonds_fix {b} joins an atom with itself')
                    if o not in (1, 2, 3, 4, 8):
                        errs.append(f'bonds_fix {b} has order {o!r}')
                pairs = [frozenset(b[:2]) for b in bf if isinstance(b, tuple) and len(b) == 3]
                if len(set(pairs)) != len(pairs):
                    errs.append('bonds_fix names the same bond twice')
                ck.decide(not errs, R, key, f'{len(numbers)} atoms', f'rule `{q}`: ' + '; '.join(errs), **loc)
    ck.count('rules checked', total)
    ck.require(total >= 100, f'only {total} rules recognised (about 120 on the pinned tree)')
    # charge canonisation rules: (q, fix) -- atoms 1 and 2 always, 3 when fix
    m = repo.module('chython.algorithms.standardize._charged')
    n2 = 0
    for fn in ('_fixed_rules', '_morgan_rules'):
        f = m.functions.get(fn)
        ck.require(f is not None, f'_charged.{fn} vanished')
        q = None
        found = []  # (pattern, fix, line)
        for st in ast.walk(f.node):
            # table form: [(smarts(p), fix) for p, fix in (<literal pairs>)]
            if isinstance(st, (ast.ListComp, ast.GeneratorExp)) and len(st.generators) == 1 and isinstance(st.generators[0].iter, (ast.Tuple, ast.List)) \
                    and isinstance(st.elt, ast.Tuple) and len(st.elt.elts) == 2 and isinstance(st.elt.elts[0], ast.Call) and src(st.elt.elts[0].func) == 'smarts':
                try:
                    for pq, pfix in ast.literal_eval(st.generators[0].iter):
                        found.append((pq, pfix, st.lineno))
                except Exception:
                    raise AnalysisError(f'_charged.{fn}: rule table is not a literal')
        for st in f.node.body:
            if isinstance(st, ast.Assign) and src(st.targets[0]) == 'q' and isinstance(st.value, ast.Call) and st.value.args and isinstance(st.value.args[0], ast.Constant):
                q = st.value.args[0].value
            elif isinstance(st, ast.Expr) and isinstance(st.value, ast.Call) and src(st.value.func) == 'rules.append':
                tup = st.value.args[0]
                found.append((q, ast.literal_eval(tup.elts[1]), st.lineno))
        for q, fix, line_ in found:
            if True:
                st = type('L', (), {'lineno': line_})
                numbers, problems = smarts_atoms(q)
                need = {1, 2} | ({3} if fix else set())
                n2 += 1
                ck.decide(need <= numbers and not problems, R, f'_charged.{fn}:{q}', sorted(need),
                          f'charge rule `{q}` (fix={fix}) needs mapped atoms {sorted(need)}; pattern has {sorted(numbers)} {problems}', file=m.relpath, line=st.lineno, func=fn)
    ck.require(n2 >= 15, f'only {n2} charge canonisation rules recognised')
    ck.floor(R, 115)


def rule_patch_order_atomic(ck, repo, R):
    """C14: the rule engine applies the charge patches of one match atom by atom and, when a patch would exceed +4, undoes only THAT atom and
    abandons the match: atoms patched earlier in the same match stay patched. A match is therefore all-or-nothing only if, in the order the
    engine walks atom_fix, every atom whose charge is raised comes before any atom that is changed at all. The walk order is read from the
    loop header (plain .items() = the order written in the rule; sorted(..) = by atom number) and the condition is evaluated on every rule."""
    ck.rule(R, 'in Standardize.__standardize the overflow branch (`charge > 4`) undoes only the current atom; so for every built-in rule, in the '
               'order the loop header walks atom_fix (insertion order for `.items()`, key order for `sorted(.items())`), no atom whose charge is '
               'raised may come after an atom that is changed: otherwise an omitted match still moves net charge')
    f = repo.func('chython.algorithms.standardize.molecule:Standardize.__standardize')
    loops = [n for n in ast.walk(f.node) if isinstance(n, ast.For) and 'atom_fix' in src(n.iter)]
    ck.require(len(loops) == 1, '__standardize: loop over atom_fix not found')
    lp = loops[0]
    it = lp.iter
    if src(it) == 'atom_fix.items()':
        order = 'insertion'
    elif isinstance(it, ast.Call) and src(it.func) == 'sorted' and len(it.args) == 1 and src(it.args[0]) == 'atom_fix.items()' and not it.keywords:
        order = 'key'
    elif isinstance(it, ast.Call) and src(it.func) == 'reversed' and len(it.args) == 1 and src(it.args[0]) in ('atom_fix.items()', 'list(atom_fix.items())'):
        order = 'reversed'
    else:
        raise AnalysisError(f'__standardize: walk order of `{src(it)}` not understood')
    # overflow branch: does it undo more than the current atom?
    over = [n for n in ast.walk(lp) if isinstance(n, ast.If) and any(isinstance(b, ast.Break) for b in n.body)]
    ck.require(len(over) == 1, '__standardize: overflow branch (break) not found in the atom_fix loop')
    full_rollback = any(isinstance(n, (ast.For, ast.While)) for b in over[0].body for n in ast.walk(b))
    total = bad = 0
    for mn, (mode, fnames) in RULE_MODULES.items():
        if mode != 'delta':
            continue
        m = repo.module(mn)
        for fn in fnames:
            g = m.functions.get(fn)
            ck.require(g is not None, f'{mn}.{fn} vanished')
            for cur, names, line in iter_rules(g):
                if 'atom_fix' not in cur or 'atom_fix' not in names:
                    continue
                try:
                    af = ast.literal_eval(cur['atom_fix'])
                except Exception:
                    raise AnalysisError(f'{m.relpath}:{line}: atom_fix is not a literal')
                items = list(af.items())
                if order == 'key':
                    items = sorted(items)
                elif order == 'reversed':
                    items = items[::-1]
                total += 1
                late = None
                changed_before = False
                smarts_atoms(cur['q'][0])
                toks = dict(TOKENS)
                for n, v in items:
                    ch, ir = v if isinstance(v, tuple) else (v, None)
                    # can this patch overflow? only if the pattern atom admits a charge c with c + ch > 4 (query atoms match the charge exactly; `M` matches any)
                    c0 = pattern_charge(toks.get(n, 'M'))
                    can_overflow = ch > 0 and (c0 is None or c0 + ch > 4)
                    if can_overflow and changed_before:
                        late = n
                    if ch or ir is not None:
                        changed_before = True
                q = cur['q'][0]
                ck.decide(full_rollback or late is None, R, f'{mn.rsplit(".", 1)[1]}.{fn}:{q}', [k for k, _ in items],
                          f'rule `{q}`: walking atom_fix as `{src(it)}` ({order} order {[k for k, _ in items]}) raises the charge of pattern atom {late} after another atom '
                          f'was already patched; when that atom is at +4 the match is abandoned with the earlier patch left in place: net charge changes although the log says '
                          f'"changes omitted"', file=f.file, line=lp.lineno, func=f.qualname, construct=src(it))
    ck.count(f'{R}: rules walked', total)
    ck.require(total >= 60, f'only {total} delta rules recognised')


def rule_overlap_atoms(ck, repo, R):
    """C14: the 4th element of a compiled rule lists the pattern atoms that successive matches of the same rule may share. For the metal-organic rules every metal
    (`M`) is such an atom, whether or not the rule recharges it (one metal carries several ligands, each a separate match); wildcard `A` atoms are, unless patched.
    Decided by evaluating the selecting conditions for every (symbol, patched) combination"""
    from .r_query import _ev, _Unknown
    ck.rule(R, '_metal_organics._rules: a pattern atom goes into any_atoms iff it is `M`, or it is `A` and the rule does not patch it; the comprehension / extend conditions '
               'are evaluated over symbol in {A, M, C} x patched in {yes, no}, whatever their spelling')
    m = repo.module('chython.algorithms.standardize._metal_organics')
    f = m.functions.get('_rules')
    ck.require(f is not None, '_metal_organics._rules vanished')
    conds = []
    for n in ast.walk(f.node):
        comp = None
        if isinstance(n, ast.Assign) and src(n.targets[0]) == 'any_atoms' and isinstance(n.value, (ast.ListComp, ast.SetComp)):
            comp = n.value
        elif isinstance(n, ast.Call) and isinstance(n.func, ast.Attribute) and n.func.attr in ('extend', 'update') and src(n.func.value) == 'any_atoms' and n.args \
                and isinstance(n.args[0], (ast.GeneratorExp, ast.ListComp, ast.SetComp)):
            comp = n.args[0]
        if comp is not None and len(comp.generators) == 1 and 'atoms()' in src(comp.generators[0].iter):
            g = comp.generators[0]
            tv = [src(e) for e in g.target.elts] if isinstance(g.target, ast.Tuple) else []
            if len(tv) == 2 and src(comp.elt) == tv[0]:
                conds.append((tv[0], tv[1], list(g.ifs)))
    ck.require(conds, '_metal_organics._rules: construction of any_atoms not recognised')
    bad = []
    for sym in ('A', 'M', 'C'):
        for patched in (False, True):
            got = False
            for nv, av, ifs in conds:
                env = {f'{av}.atomic_symbol': sym, nv: 1, 'atom_fix': {1: (0, None)} if patched else {}}
                try:
                    if all(_ev(c, env) for c in ifs):
                        got = True
                except _Unknown as e:
                    raise AnalysisError(f'_metal_organics._rules: any_atoms condition not understood ({e})')
            want = sym == 'M' or (sym == 'A' and not patched)
            if got != want:
                bad.append((sym, 'patched' if patched else 'not patched', got))
    ck.decide(not bad, R, 'any_atoms', None,
              f'_metal_organics._rules: any_atoms membership is wrong for {bad} (symbol, patched, included): a metal that the rule recharges must stay shareable between matches, '
              f'otherwise only the first ligand on a metal is converted per call and standardize() is not idempotent', file=m.relpath, line=f.lineno, func='_rules')
