# -*- coding: utf-8 -*-
"""
Dataflow hygiene of the functions a property is anchored in (a stated-belief rule: a signature says the result depends on the parameter,
an assignment says the value is needed):

  H1  every parameter of every function (nested ones included) is read somewhere in its body
  H2  every local name bound by a plain assignment `x = <expr>` (no unpacking, no loop target) is read somewhere in the function
  H3  a position taken from one sequence (i = S.index(x)) or a wrap-around built from len(S) indexes S itself (22 of 22 sites on the reviewed tree)

On the reviewed tree 859 of 867 parameters and all but a handful of assigned names comply; the exceptions were read and are frozen below
(interface conformance of overriding methods, context-manager protocol, one documented-but-unimplemented option). A NEW ignored
parameter or never-read value is how a dropped restriction shows in the code shape (a scope that no longer restricts, a recorded index that
is no longer used, a computed guard that is no longer consulted).
"""
import ast
from .astutil import if_chain
import json
import os
from .core import AnalysisError
from .astutil import src

VERIF = os.path.dirname(os.path.dirname(os.path.abspath(__file__)))

# (module, function qualname-as-nested-path, name): reason
ALLOWED_PARAMS = {
    ('chython.algorithms.smiles', 'CGRSmiles._smiles_order', 'stereo'): 'interface conformance with MoleculeSmiles._smiles_order; CGR has no stereo',
    ('chython.algorithms.smiles', 'CGRSmiles._format_atom', 'adjacency'): 'interface conformance with MoleculeSmiles._format_atom',
    ('chython.algorithms.smiles', 'CGRSmiles._format_atom', 'kwargs'): 'interface conformance with MoleculeSmiles._format_atom',
    ('chython.algorithms.smiles', 'CGRSmiles._format_bond', 'adjacency'): 'interface conformance with MoleculeSmiles._format_bond',
    ('chython.algorithms.smiles', 'CGRSmiles._format_bond', 'kwargs'): 'interface conformance with MoleculeSmiles._format_bond',
    ('chython.containers.molecule', 'MoleculeContainer.pack', 'order'): 'documented as "atom order in V3"; version 3 is not implemented at this commit',
    ('chython.containers.molecule', 'MoleculeContainer.__exit__', 'exc_val'): 'context-manager protocol',
    ('chython.containers.molecule', 'MoleculeContainer.__exit__', 'exc_tb'): 'context-manager protocol',
}
ALLOWED_LOCALS = {
    ('chython.algorithms.standardize.saturation', '_find_possible_valences', 'b'): 'walrus inside a filter whose value is only tested',
}
ALLOWED_DEAD_UPDATES = {
    ('chython.files.mdl.rxn', 'parse_rxn_v2000', 'reagents_count'): 'the total is consumed by range() before the loop; the decrement keeps the three counters of a dropped component in step',
    ('chython.files.mdl.erxn', 'parse_rxn_v3000', 'reagents_count'): 'same bookkeeping in the V3000 sibling',
}


def _swap_pair(t1, t2):
    """(x, y) when test t2 is test t1 with the names x and y exchanged (and differs from it), else None"""
    n1 = [n.id for n in ast.walk(t1) if isinstance(n, ast.Name)]
    n2 = [n.id for n in ast.walk(t2) if isinstance(n, ast.Name)]
    if len(n1) != len(n2) or ast.dump(_blank(t1)) != ast.dump(_blank(t2)):
        return None
    pairs = {(a, b) for a, b in zip(n1, n2) if a != b}
    if len(pairs) == 1:
        (a, b), = pairs
        return (a, b) if b not in n1 else None  # `x in S` vs `y in S`
    if len(pairs) == 2:
        (a, b), (c, d) = sorted(pairs)
        if (a, b) == (d, c):
            return a, b
    return None


def _blank(node):
    import copy as _copy
    node = _copy.deepcopy(node)
    for n in ast.walk(node):
        if isinstance(n, ast.Name):
            n.id = '_'
    return node


def _swapped(node, x, y):
    import copy as _copy
    node = _copy.deepcopy(node)
    for n in ast.walk(node):
        if isinstance(n, ast.Name) and n.id in (x, y):
            n.id = y if n.id == x else x
    return node


def _name_mismatches(a, b, names):
    """None when the trees differ in anything but Name identifiers drawn from `names`; else (agreeing positions over names, [(found, expected)])"""
    if ast.dump(_blank(a)) != ast.dump(_blank(b)):
        return None
    na = [n.id for n in ast.walk(a) if isinstance(n, ast.Name)]
    nb = [n.id for n in ast.walk(b) if isinstance(n, ast.Name)]
    agree, bad = 0, []
    for p, q in zip(na, nb):
        if p == q:
            if p in names:
                agree += 1
        elif p in names and q in names:
            bad.append((q, p))
        else:
            return None
    return agree, bad


def _functions(tree):
    """(qualname path, FunctionDef) for every def, nested ones included"""
    out = []

    def rec(node, path):
        for ch in ast.iter_child_nodes(node):
            if isinstance(ch, (ast.FunctionDef, ast.AsyncFunctionDef)):
                out.append(('.'.join(path + [ch.name]), ch))
                rec(ch, path + [ch.name])
            elif isinstance(ch, ast.ClassDef):
                rec(ch, path + [ch.name])
            else:
                rec(ch, path)
    rec(tree, [])
    return out


def _is_stub(fn):
    body = fn.body
    return all(isinstance(s, (ast.Pass, ast.Raise)) or (isinstance(s, ast.Expr) and isinstance(s.value, ast.Constant)) for s in body)


def anchor_modules(repo, pid):
    with open(os.path.join(VERIF, 'properties.jsonl')) as fh:
        for line in fh:
            p = json.loads(line)
            if p['id'] == pid:
                files = [f for f in p['anchors']['files'] if f.endswith('.py')]
                mods = []
                for m in repo.modules.values():
                    if m.relpath in files:
                        mods.append(m)
                return mods
    raise AnalysisError(f'property {pid} not found in properties.jsonl')


def rule_hygiene(ck, repo, R, pid, extra_modules=()):
    ck.rule(R, 'in the modules the property is anchored in: every parameter of every function is read in its body and every value bound by a plain '
               'assignment is read somewhere in the function; exceptions are a frozen, reviewed table (interface conformance, protocol arguments). '
               'An ignored parameter / never-read value is a restriction or bookkeeping value that silently stopped having an effect')
    mods = anchor_modules(repo, pid) + [repo.module(m) for m in extra_modules]
    ck.require(len(mods) >= 1, f'no anchored python module of {pid} found')
    n_par = n_loc = 0
    for m in mods:
        for qual, fn in _functions(m.tree):
            if fn.name in ('__exit__', '__aexit__'):  # context-manager protocol arguments
                continue
            if _is_stub(fn) or any(isinstance(d, ast.Name) and d.id in ('abstractmethod', 'overload') for d in fn.decorator_list):
                continue
            loads = set()
            for n in ast.walk(fn):
                if isinstance(n, ast.Name) and isinstance(n.ctx, (ast.Load, ast.Del)):
                    loads.add(n.id)
                elif isinstance(n, (ast.Global, ast.Nonlocal)):
                    loads.update(n.names)
            uses_locals = any(isinstance(n, ast.Call) and isinstance(n.func, ast.Name) and n.func.id in ('locals', 'vars', 'eval', 'exec') for n in ast.walk(fn))
            a = fn.args
            params = [x.arg for x in a.posonlyargs + a.args + a.kwonlyargs]
            if a.vararg:
                params.append(a.vararg.arg)
            if a.kwarg:
                params.append(a.kwarg.arg)
            for p in params:
                if p in ('self', 'cls') or p.startswith('_') and p.strip('_') == '':
                    continue
                n_par += 1
                key = (m.name, qual, p)
                if p in loads or uses_locals or key in ALLOWED_PARAMS:
                    continue
                ck.bad(R, f'param:{m.name}:{qual}:{p}', f'{qual}: parameter `{p}` is never read: whatever it is meant to restrict or select has no effect on the result',
                       file=m.relpath, line=fn.lineno, func=qual, construct=f'def {fn.name}({", ".join(params)})')
            # plain single-name assignments never read (nested defs have their own scope but may read ours: loads of the whole subtree are used)
            for n in ast.walk(fn):
                tgt = None
                if isinstance(n, ast.Assign) and len(n.targets) == 1 and isinstance(n.targets[0], ast.Name):
                    tgt = n.targets[0].id
                elif isinstance(n, ast.AnnAssign) and isinstance(n.target, ast.Name) and n.value is not None:
                    tgt = n.target.id
                if tgt is None:
                    continue
                n_loc += 1
                if tgt in loads or uses_locals or tgt.startswith('_') or (m.name, qual, tgt) in ALLOWED_LOCALS:
                    continue
                ck.bad(R, f'local:{m.name}:{qual}:{tgt}', f'{qual}: `{src(n)[:70]}` binds `{tgt}` which is never read afterwards: a value the code used to consult is now ignored',
                       file=m.relpath, line=n.lineno, func=qual, construct=src(n)[:120])
    # H3 index / sequence affinity: a position obtained from one sequence (i = S.index(x)) or a wrap-around computed with len(S) indexes S itself
    n_aff = 0
    for m in mods:
        for qual, fn in _functions(m.tree):
            idx_of = {}
            for n in ast.walk(fn):
                if isinstance(n, ast.Assign) and len(n.targets) == 1 and isinstance(n.targets[0], ast.Name) and isinstance(n.value, ast.Call) and \
                        isinstance(n.value.func, ast.Attribute) and n.value.func.attr == 'index' and isinstance(n.value.func.value, ast.Name):
                    idx_of.setdefault(n.targets[0].id, set()).add(n.value.func.value.id)
            for n in ast.walk(fn):
                if not (isinstance(n, ast.Subscript) and isinstance(n.value, ast.Name)):
                    continue
                seq = n.value.id

                def arith(e):
                    """nodes of the index arithmetic itself: not what sits inside another subscript or call (`d[path[len(path) // 2]]` indexes d with a VALUE)"""
                    yield e
                    if isinstance(e, ast.Subscript) or (isinstance(e, ast.Call) and not (isinstance(e.func, ast.Name) and e.func.id == 'len')):
                        return
                    if isinstance(e, ast.Call):
                        return
                    for ch in ast.iter_child_nodes(e):
                        yield from arith(ch)
                for c in arith(n.slice):
                    if isinstance(c, ast.Call) and isinstance(c.func, ast.Name) and c.func.id == 'len' and len(c.args) == 1 and isinstance(c.args[0], ast.Name):
                        n_aff += 1
                        if c.args[0].id != seq:
                            ck.bad(R, f'affinity:{m.name}:{qual}:{src(n)}', f'{qual}: `{src(n)}` indexes `{seq}` with a wrap-around computed from len({c.args[0].id}): the length of '
                                                                             f'another sequence; for sequences of different length this selects another element',
                                   file=m.relpath, line=n.lineno, func=qual, construct=src(n))
                    elif isinstance(c, ast.Name) and c.id in idx_of:
                        n_aff += 1
                        if seq not in idx_of[c.id]:
                            ck.bad(R, f'affinity:{m.name}:{qual}:{src(n)}', f'{qual}: `{src(n)}` indexes `{seq}` with `{c.id}`, which is a position in {sorted(idx_of[c.id])}',
                                   file=m.relpath, line=n.lineno, func=qual, construct=src(n))
    ck.count(f'{R}: index/sequence affinity sites', n_aff)
    # H4 elements vs positions: two names whose positions are looked up with S.index(..) are elements (atom numbers); ordering them by value instead
    # of by position makes the result depend on the numbering
    for m in mods:
        for qual, fn in _functions(m.tree):
            elems = {n.args[0].id for n in ast.walk(fn) if isinstance(n, ast.Call) and isinstance(n.func, ast.Attribute) and n.func.attr == 'index' and
                     len(n.args) == 1 and isinstance(n.args[0], ast.Name)}
            if len(elems) < 2:
                continue
            for n in ast.walk(fn):
                if isinstance(n, ast.Compare) and len(n.ops) == 1 and isinstance(n.ops[0], (ast.Lt, ast.Gt, ast.LtE, ast.GtE)) and \
                        isinstance(n.left, ast.Name) and isinstance(n.comparators[0], ast.Name) and n.left.id in elems and n.comparators[0].id in elems:
                    ck.bad(R, f'elements-ordered:{m.name}:{qual}:{src(n)}', f'{qual}: `{src(n)}` orders two sequence elements by their values; the function looks up their '
                                                                            f'positions with .index(): the decision must not depend on how atoms are numbered',
                           file=m.relpath, line=n.lineno, func=qual, construct=src(n))
    # H5 a name bound by := in the test of an if / while is read inside that statement, at a later line, or (through a loop back edge) at an earlier
    # line of an enclosing loop that is not itself guarded by a fresh := binding of the same name
    n_wal = 0
    for m in mods:
        for qual, fn in _functions(m.tree):
            parents = {}
            for p_ in ast.walk(fn):
                for ch in ast.iter_child_nodes(p_):
                    parents[ch] = p_
            for st in ast.walk(fn):
                if not isinstance(st, (ast.If, ast.While)):
                    continue
                for w in [x for x in ast.walk(st.test) if isinstance(x, ast.NamedExpr)]:
                    n_wal += 1
                    nm = w.target.id
                    inside = any(isinstance(x, ast.Name) and x.id == nm and isinstance(x.ctx, ast.Load) for part in [st.test] + st.body + st.orelse for x in ast.walk(part))
                    if inside:
                        continue
                    end = getattr(st, 'end_lineno', st.lineno)
                    def shadowed_(x, stop):
                        q = parents.get(x)
                        while q is not None and q is not stop:
                            if q is not st and isinstance(q, (ast.If, ast.While)) and any(isinstance(y, ast.NamedExpr) and y.target.id == nm for y in ast.walk(q.test)):
                                return True
                            q = parents.get(q)
                        return False
                    later = any(isinstance(x, ast.Name) and x.id == nm and isinstance(x.ctx, ast.Load) and x.lineno > end and not shadowed_(x, fn) for x in ast.walk(fn))
                    if later:
                        continue
                    # back edge: loads earlier in an enclosing loop, not under another statement that rebinds the name in its own test
                    back = False
                    p_ = parents.get(st)
                    while p_ is not None and not back:
                        if isinstance(p_, (ast.For, ast.While)):
                            for x in ast.walk(p_):
                                if isinstance(x, ast.Name) and x.id == nm and isinstance(x.ctx, ast.Load) and x.lineno < st.lineno:
                                    q, shadowed = parents.get(x), False
                                    while q is not None and q is not p_:
                                        if isinstance(q, (ast.If, ast.While)) and any(isinstance(y, ast.NamedExpr) and y.target.id == nm for y in ast.walk(q.test)):
                                            shadowed = True
                                        q = parents.get(q)
                                    if not shadowed:
                                        back = True
                        p_ = parents.get(p_)
                    if back:
                        continue
                    ck.bad(R, f'walrus:{m.name}:{qual}:{nm}@{src(st.test)[:40]}', f'{qual}: `{src(st.test)[:70]}` binds `{nm}` but nothing reads it afterwards: the value the '
                                                                                  f'branch was written to use is ignored (another variable is used in its place?)',
                           file=m.relpath, line=st.lineno, func=qual, construct=src(st.test)[:100])
    ck.count(f'{R}: walrus bindings in tests', n_wal)
    # H6 an augmented assignment `x op= e` to a local whose new value can never be read afterwards (forward, through loop back edges, closures) is a write
    # into the wrong variable: the accumulator the block was building misses the contribution
    from .normalize import live_after
    n_aug = 0
    for m in mods:
        for qual, fn in _functions(m.tree):
            declared = {nm for n in ast.walk(fn) if isinstance(n, (ast.Global, ast.Nonlocal)) for nm in n.names}
            nested_reads = {x.id for d in ast.walk(fn) if isinstance(d, (ast.FunctionDef, ast.Lambda, ast.AsyncFunctionDef)) and d is not fn
                            for x in ast.walk(d) if isinstance(x, ast.Name) and isinstance(x.ctx, ast.Load)}

            def scan(owner, stmts, stack):
                nonlocal n_aug
                for i, st in enumerate(stmts):
                    here = stack + [(owner, stmts, i)]
                    if isinstance(st, ast.AugAssign) and isinstance(st.target, ast.Name) and st.target.id not in declared and st.target.id not in nested_reads:
                        n_aug += 1
                        if not live_after(here, st.target.id) and (m.name, qual.rsplit('.', 1)[-1], st.target.id) not in ALLOWED_DEAD_UPDATES:
                            ck.bad(R, f'dead-update:{m.name}:{qual}:{src(st)[:60]}', f'{qual}: `{src(st)[:80]}` updates `{st.target.id}`, which nothing reads afterwards (the neighbouring '
                                                                                     f'statements accumulate into another variable): the contribution is lost',
                                   file=m.relpath, line=st.lineno, func=qual, construct=src(st)[:100])
                    if isinstance(st, (ast.FunctionDef, ast.AsyncFunctionDef, ast.ClassDef)):
                        continue
                    for field in ('body', 'orelse', 'finalbody'):
                        blk = getattr(st, field, None)
                        if isinstance(blk, list) and blk and isinstance(blk[0], ast.stmt):
                            scan(st, blk, here)
                    for h in getattr(st, 'handlers', []) or []:
                        scan(st, h.body, here)
            scan(fn, fn.body, [])
    ck.count(f'{R}: augmented assignments to locals', n_aug)
    # H7 twin branches: two arms of one if-ladder whose tests are each other's image under swapping two names (a1 <-> a2) and whose bodies have the same
    # shape must be each other's image under the same swap; a name left unswapped in one arm is a copy-paste slip
    n_twin = 0
    for m in mods:
        for qual, fn in _functions(m.tree):
            for top in ast.walk(fn):
                if not isinstance(top, ast.If):
                    continue
                arms = [(t, b) for t, b in if_chain(top) if t is not None]
                for i in range(len(arms)):
                    for j in range(i + 1, len(arms)):
                        sw = _swap_pair(arms[i][0], arms[j][0])
                        if sw is None:
                            continue
                        x, y = sw
                        bi = [_swapped(st, x, y) for st in arms[i][1]]
                        bj = list(arms[j][1])
                        k = min(len(bi), len(bj))  # one arm may start with an extra case of its own: the common tail is what mirrors
                        bi, bj = bi[-k:], bj[-k:]
                        diff = _name_mismatches(ast.Module(body=bi, type_ignores=[]), ast.Module(body=list(bj), type_ignores=[]), {x, y})
                        if diff is None:
                            continue  # different shapes: not twins
                        n_twin += 1
                        agree, bad = diff
                        if bad and agree:
                            ck.bad(R, f'twin:{m.name}:{qual}:{src(arms[j][0])[:50]}', f'{qual}: the arms `{src(arms[i][0])[:60]}` and `{src(arms[j][0])[:60]}` mirror each other under '
                                                                                     f'{x} <-> {y} except for {bad} (expected {[("%s" % b[1]) for b in bad]} in the second arm): one side was '
                                                                                     f'copied without swapping the name',
                                   file=m.relpath, line=arms[j][0].lineno, func=qual, construct=src(arms[j][0])[:100])
    ck.count(f'{R}: mirrored twin arms', n_twin)
    # H8-H12 (sa/r_lints.py): tri-state ladders, in-place change of an argument, substring membership, read of a slice that was just cut off,
    # swallowing try around a loop
    from . import r_lints as L
    counts = {'tristate ladders': 0, 'argument mutation sites': 0, 'slice truncations': 0, 'try around loop': 0, 'optional positional arguments': 0}
    for m in mods:
        classes = {id(f_): c for c in ast.walk(m.tree) if isinstance(c, ast.ClassDef) for f_ in c.body if isinstance(f_, ast.FunctionDef)}
        for qual, fn in _functions(m.tree):
            counts['tristate ladders'] += L.lint_tristate_ladders(ck, R, m, qual, fn)
            counts['argument mutation sites'] += L.lint_argument_mutation(ck, R, m, qual, fn)
            L.lint_substring_membership(ck, R, m, qual, fn, classes.get(id(fn)))
            counts['slice truncations'] += L.lint_slice_after_truncation(ck, R, m, qual, fn)
            counts['try around loop'] += L.lint_swallowing_try_around_loop(ck, R, m, qual, fn)
            counts['optional positional arguments'] += L.lint_argument_parameter_affinity(ck, R, repo, m, qual, fn)
    counts['view signatures'] = 0
    for m in mods:
        counts['view signatures'] += L.lint_view_signature(ck, R, m, None)
    for k_, v_ in counts.items():
        ck.count(f'{R}: {k_}', v_)
    ck.ok(R, 'parameters', f'{n_par} parameters read ({len(ALLOWED_PARAMS)} frozen exceptions)')
    ck.ok(R, 'assignments', f'{n_loc} plain assignments read')
    ck.count(f'{R}: parameters', n_par)
    ck.count(f'{R}: plain assignments', n_loc)
    ck.require(n_par >= 5, f'{R}: only {n_par} parameters inspected')
