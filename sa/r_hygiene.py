# -*- coding: utf-8 -*-
"""
Dataflow hygiene of the functions a property is anchored in (a stated-belief rule: a signature says the result depends on the parameter,
an assignment says the value is needed):

  H1  every parameter of every function (nested ones included) is read somewhere in its body
  H2  every local name bound by a plain assignment `x = <expr>` (no unpacking, no loop target) is read somewhere in the function

On the reviewed tree 859 of 867 parameters and all but a handful of assigned names comply; the exceptions were read and are frozen below
(interface conformance of overriding methods, context-manager protocol, one documented-but-unimplemented option). A NEW ignored
parameter or never-read value is how a dropped restriction shows in the code shape (a scope that no longer restricts, a recorded index that
is no longer used, a computed guard that is no longer consulted).
"""
import ast
import json
import os
from .core import AnalysisError
from .astutil import src

VERIF = os.path.dirname(os.path.dirname(os.path.abspath(__file__)))

# (module, function qualname-as-nested-path, name): reason
ALLOWED_PARAMS = {
    ('chython.algorithms.smiles', 'CGRSmiles._smiles_order', 'stereo'): 'interface conformance with MoleculeSmiles._smiles_order; CGR has no stereo',
    ('chython.algorithms.smiles', 'CGRSmiles._format_atom', 'adjacency'): 'interface conformance with MoleculeSmiles._format_atom',
    ('chython.algorithms.smiles', 'CGRSmiles._format_atom', 'kwargs'): 'interface conformance with MoleculeSmiles._format_atom',
    ('chython.algorithms.smiles', 'CGRSmiles._format_bond', 'adjacency'): 'interface conformance with MoleculeSmiles._format_bond',
    ('chython.algorithms.smiles', 'CGRSmiles._format_bond', 'kwargs'): 'interface conformance with MoleculeSmiles._format_bond',
    ('chython.containers.molecule', 'MoleculeContainer.pack', 'order'): 'documented as "atom order in V3"; version 3 is not implemented at this commit',
    ('chython.containers.molecule', 'MoleculeContainer.__exit__', 'exc_val'): 'context-manager protocol',
    ('chython.containers.molecule', 'MoleculeContainer.__exit__', 'exc_tb'): 'context-manager protocol',
}
ALLOWED_LOCALS = {
    ('chython.algorithms.standardize.saturation', '_find_possible_valences', 'b'): 'walrus inside a filter whose value is only tested',
}


def _functions(tree):
    """(qualname path, FunctionDef) for every def, nested ones included"""
    out = []

    def rec(node, path):
        for ch in ast.iter_child_nodes(node):
            if isinstance(ch, (ast.FunctionDef, ast.AsyncFunctionDef)):
                out.append(('.'.join(path + [ch.name]), ch))
                rec(ch, path + [ch.name])
            elif isinstance(ch, ast.ClassDef):
                rec(ch, path + [ch.name])
            else:
                rec(ch, path)
    rec(tree, [])
    return out


def _is_stub(fn):
    body = fn.body
    return all(isinstance(s, (ast.Pass, ast.Raise)) or (isinstance(s, ast.Expr) and isinstance(s.value, ast.Constant)) for s in body)


def anchor_modules(repo, pid):
    with open(os.path.join(VERIF, 'properties.jsonl')) as fh:
        for line in fh:
            p = json.loads(line)
            if p['id'] == pid:
                files = [f for f in p['anchors']['files'] if f.endswith('.py')]
                mods = []
                for m in repo.modules.values():
                    if m.relpath in files:
                        mods.append(m)
                return mods
    raise AnalysisError(f'property {pid} not found in properties.jsonl')


def rule_hygiene(ck, repo, R, pid, extra_modules=()):
    ck.rule(R, 'in the modules the property is anchored in: every parameter of every function is read in its body and every value bound by a plain '
               'assignment is read somewhere in the function; exceptions are a frozen, reviewed table (interface conformance, protocol arguments). '
               'An ignored parameter / never-read value is a restriction or bookkeeping value that silently stopped having an effect')
    mods = anchor_modules(repo, pid) + [repo.module(m) for m in extra_modules]
    ck.require(len(mods) >= 1, f'no anchored python module of {pid} found')
    n_par = n_loc = 0
    for m in mods:
        for qual, fn in _functions(m.tree):
            if fn.name in ('__exit__', '__aexit__'):  # context-manager protocol arguments
                continue
            if _is_stub(fn) or any(isinstance(d, ast.Name) and d.id in ('abstractmethod', 'overload') for d in fn.decorator_list):
                continue
            loads = set()
            for n in ast.walk(fn):
                if isinstance(n, ast.Name) and isinstance(n.ctx, (ast.Load, ast.Del)):
                    loads.add(n.id)
                elif isinstance(n, (ast.Global, ast.Nonlocal)):
                    loads.update(n.names)
            uses_locals = any(isinstance(n, ast.Call) and isinstance(n.func, ast.Name) and n.func.id in ('locals', 'vars', 'eval', 'exec') for n in ast.walk(fn))
            a = fn.args
            params = [x.arg for x in a.posonlyargs + a.args + a.kwonlyargs]
            if a.vararg:
                params.append(a.vararg.arg)
            if a.kwarg:
                params.append(a.kwarg.arg)
            for p in params:
                if p in ('self', 'cls') or p.startswith('_') and p.strip('_') == '':
                    continue
                n_par += 1
                key = (m.name, qual, p)
                if p in loads or uses_locals or key in ALLOWED_PARAMS:
                    continue
                ck.bad(R, f'param:{m.name}:{qual}:{p}', f'{qual}: parameter `{p}` is never read: whatever it is meant to restrict or select has no effect on the result',
                       file=m.relpath, line=fn.lineno, func=qual, construct=f'def {fn.name}({", ".join(params)})')
            # plain single-name assignments never read (nested defs have their own scope but may read ours: loads of the whole subtree are used)
            for n in ast.walk(fn):
                tgt = None
                if isinstance(n, ast.Assign) and len(n.targets) == 1 and isinstance(n.targets[0], ast.Name):
                    tgt = n.targets[0].id
                elif isinstance(n, ast.AnnAssign) and isinstance(n.target, ast.Name) and n.value is not None:
                    tgt = n.target.id
                if tgt is None:
                    continue
                n_loc += 1
                if tgt in loads or uses_locals or tgt.startswith('_') or (m.name, qual, tgt) in ALLOWED_LOCALS:
                    continue
                ck.bad(R, f'local:{m.name}:{qual}:{tgt}', f'{qual}: `{src(n)[:70]}` binds `{tgt}` which is never read afterwards: a value the code used to consult is now ignored',
                       file=m.relpath, line=n.lineno, func=qual, construct=src(n)[:120])
    ck.ok(R, 'parameters', f'{n_par} parameters read ({len(ALLOWED_PARAMS)} frozen exceptions)')
    ck.ok(R, 'assignments', f'{n_loc} plain assignments read')
    ck.count(f'{R}: parameters', n_par)
    ck.count(f'{R}: plain assignments', n_loc)
    ck.require(n_par >= 5, f'{R}: only {n_par} parameters inspected')
