# -*- coding: utf-8 -*-
"""
Dataflow hygiene of the functions a property is anchored in (a stated-belief rule: a signature says the result depends on the parameter,
an assignment says the value is needed):

  H1  every parameter of every function (nested ones included) is read somewhere in its body
  H2  every local name bound by a plain assignment `x = <expr>` (no unpacking, no loop target) is read somewhere in the function
  H3  a position taken from one sequence (i = S.index(x)) or a wrap-around built from len(S) indexes S itself (22 of 22 sites on the reviewed tree)

On the reviewed tree 859 of 867 parameters and all but a handful of assigned names comply; the exceptions were read and are frozen below
(interface conformance of overriding methods, context-manager protocol, one documented-but-unimplemented option). A NEW ignored
parameter or never-read value is how a dropped restriction shows in the code shape (a scope that no longer restricts, a recorded index that
is no longer used, a computed guard that is no longer consulted).
"""
import ast
import json
import os
from .core import AnalysisError
from .astutil import src

VERIF = os.path.dirname(os.path.dirname(os.path.abspath(__file__)))

# (module, function qualname-as-nested-path, name): reason
ALLOWED_PARAMS = {
    ('chython.algorithms.smiles', 'CGRSmiles._smiles_order', 'stereo'): 'interface conformance with MoleculeSmiles._smiles_order; CGR has no stereo',
    ('chython.algorithms.smiles', 'CGRSmiles._format_atom', 'adjacency'): 'interface conformance with MoleculeSmiles._format_atom',
    ('chython.algorithms.smiles', 'CGRSmiles._format_atom', 'kwargs'): 'interface conformance with MoleculeSmiles._format_atom',
    ('chython.algorithms.smiles', 'CGRSmiles._format_bond', 'adjacency'): 'interface conformance with MoleculeSmiles._format_bond',
    ('chython.algorithms.smiles', 'CGRSmiles._format_bond', 'kwargs'): 'interface conformance with MoleculeSmiles._format_bond',
    ('chython.containers.molecule', 'MoleculeContainer.pack', 'order'): 'documented as "atom order in V3"; version 3 is not implemented at this commit',
    ('chython.containers.molecule', 'MoleculeContainer.__exit__', 'exc_val'): 'context-manager protocol',
    ('chython.containers.molecule', 'MoleculeContainer.__exit__', 'exc_tb'): 'context-manager protocol',
}
ALLOWED_LOCALS = {
    ('chython.algorithms.standardize.saturation', '_find_possible_valences', 'b'): 'walrus inside a filter whose value is only tested',
}


def _functions(tree):
    """(qualname path, FunctionDef) for every def, nested ones included"""
    out = []

    def rec(node, path):
        for ch in ast.iter_child_nodes(node):
            if isinstance(ch, (ast.FunctionDef, ast.AsyncFunctionDef)):
                out.append(('.'.join(path + [ch.name]), ch))
                rec(ch, path + [ch.name])
            elif isinstance(ch, ast.ClassDef):
                rec(ch, path + [ch.name])
            else:
                rec(ch, path)
    rec(tree, [])
    return out


def _is_stub(fn):
    body = fn.body
    return all(isinstance(s, (ast.Pass, ast.Raise)) or (isinstance(s, ast.Expr) and isinstance(s.value, ast.Constant)) for s in body)


def anchor_modules(repo, pid):
    with open(os.path.join(VERIF, 'properties.jsonl')) as fh:
        for line in fh:
            p = json.loads(line)
            if p['id'] == pid:
                files = [f for f in p['anchors']['files'] if f.endswith('.py')]
                mods = []
                for m in repo.modules.values():
                    if m.relpath in files:
                        mods.append(m)
                return mods
    raise AnalysisError(f'property {pid} not found in properties.jsonl')


def rule_hygiene(ck, repo, R, pid, extra_modules=()):
    ck.rule(R, 'in the modules the property is anchored in: every parameter of every function is read in its body and every value bound by a plain '
               'assignment is read somewhere in the function; exceptions are a frozen, reviewed table (interface conformance, protocol arguments). '
               'An ignored parameter / never-read value is a restriction or bookkeeping value that silently stopped having an effect')
    mods = anchor_modules(repo, pid) + [repo.module(m) for m in extra_modules]
    ck.require(len(mods) >= 1, f'no anchored python module of {pid} found')
    n_par = n_loc = 0
    for m in mods:
        for qual, fn in _functions(m.tree):
            if fn.name in ('__exit__', '__aexit__'):  # context-manager protocol arguments
                continue
            if _is_stub(fn) or any(isinstance(d, ast.Name) and d.id in ('abstractmethod', 'overload') for d in fn.decorator_list):
                continue
            loads = set()
            for n in ast.walk(fn):
                if isinstance(n, ast.Name) and isinstance(n.ctx, (ast.Load, ast.Del)):
                    loads.add(n.id)
                elif isinstance(n, (ast.Global, ast.Nonlocal)):
                    loads.update(n.names)
            uses_locals = any(isinstance(n, ast.Call) and isinstance(n.func, ast.Name) and n.func.id in ('locals', 'vars', 'eval', 'exec') for n in ast.walk(fn))
            a = fn.args
            params = [x.arg for x in a.posonlyargs + a.args + a.kwonlyargs]
            if a.vararg:
                params.append(a.vararg.arg)
            if a.kwarg:
                params.append(a.kwarg.arg)
            for p in params:
                if p in ('self', 'cls') or p.startswith('_') and p.strip('_') == '':
                    continue
                n_par += 1
                key = (m.name, qual, p)
                if p in loads or uses_locals or key in ALLOWED_PARAMS:
                    continue
                ck.bad(R, f'param:{m.name}:{qual}:{p}', f'{qual}: parameter `{p}` is never read: whatever it is meant to restrict or select has no effect on the result',
                       file=m.relpath, line=fn.lineno, func=qual, construct=f'def {fn.name}({", ".join(params)})')
            # plain single-name assignments never read (nested defs have their own scope but may read ours: loads of the whole subtree are used)
            for n in ast.walk(fn):
                tgt = None
                if isinstance(n, ast.Assign) and len(n.targets) == 1 and isinstance(n.targets[0], ast.Name):
                    tgt = n.targets[0].id
                elif isinstance(n, ast.AnnAssign) and isinstance(n.target, ast.Name) and n.value is not None:
                    tgt = n.target.id
                if tgt is None:
                    continue
                n_loc += 1
                if tgt in loads or uses_locals or tgt.startswith('_') or (m.name, qual, tgt) in ALLOWED_LOCALS:
                    continue
                ck.bad(R, f'local:{m.name}:{qual}:{tgt}', f'{qual}: `{src(n)[:70]}` binds `{tgt}` which is never read afterwards: a value the code used to consult is now ignored',
                       file=m.relpath, line=n.lineno, func=qual, construct=src(n)[:120])
    # H3 index / sequence affinity: a position obtained from one sequence (i = S.index(x)) or a wrap-around computed with len(S) indexes S itself
    n_aff = 0
    for m in mods:
        for qual, fn in _functions(m.tree):
            idx_of = {}
            for n in ast.walk(fn):
                if isinstance(n, ast.Assign) and len(n.targets) == 1 and isinstance(n.targets[0], ast.Name) and isinstance(n.value, ast.Call) and \
                        isinstance(n.value.func, ast.Attribute) and n.value.func.attr == 'index' and isinstance(n.value.func.value, ast.Name):
                    idx_of.setdefault(n.targets[0].id, set()).add(n.value.func.value.id)
            for n in ast.walk(fn):
                if not (isinstance(n, ast.Subscript) and isinstance(n.value, ast.Name)):
                    continue
                seq = n.value.id
                for c in ast.walk(n.slice):
                    if isinstance(c, ast.Call) and isinstance(c.func, ast.Name) and c.func.id == 'len' and len(c.args) == 1 and isinstance(c.args[0], ast.Name):
                        n_aff += 1
                        if c.args[0].id != seq:
                            ck.bad(R, f'affinity:{m.name}:{qual}:{src(n)}', f'{qual}: `{src(n)}` indexes `{seq}` with a wrap-around computed from len({c.args[0].id}): the length of '
                                                                             f'another sequence; for sequences of different length this selects another element',
                                   file=m.relpath, line=n.lineno, func=qual, construct=src(n))
                    elif isinstance(c, ast.Name) and c.id in idx_of:
                        n_aff += 1
                        if seq not in idx_of[c.id]:
                            ck.bad(R, f'affinity:{m.name}:{qual}:{src(n)}', f'{qual}: `{src(n)}` indexes `{seq}` with `{c.id}`, which is a position in {sorted(idx_of[c.id])}',
                                   file=m.relpath, line=n.lineno, func=qual, construct=src(n))
    ck.count(f'{R}: index/sequence affinity sites', n_aff)
    # H4 elements vs positions: two names whose positions are looked up with S.index(..) are elements (atom numbers); ordering them by value instead
    # of by position makes the result depend on the numbering
    for m in mods:
        for qual, fn in _functions(m.tree):
            elems = {n.args[0].id for n in ast.walk(fn) if isinstance(n, ast.Call) and isinstance(n.func, ast.Attribute) and n.func.attr == 'index' and
                     len(n.args) == 1 and isinstance(n.args[0], ast.Name)}
            if len(elems) < 2:
                continue
            for n in ast.walk(fn):
                if isinstance(n, ast.Compare) and len(n.ops) == 1 and isinstance(n.ops[0], (ast.Lt, ast.Gt, ast.LtE, ast.GtE)) and \
                        isinstance(n.left, ast.Name) and isinstance(n.comparators[0], ast.Name) and n.left.id in elems and n.comparators[0].id in elems:
                    ck.bad(R, f'elements-ordered:{m.name}:{qual}:{src(n)}', f'{qual}: `{src(n)}` orders two sequence elements by their values; the function looks up their '
                                                                            f'positions with .index(): the decision must not depend on how atoms are numbered',
                           file=m.relpath, line=n.lineno, func=qual, construct=src(n))
    # H5 a name bound by := in the test of an if / while is read inside that statement, at a later line, or (through a loop back edge) at an earlier
    # line of an enclosing loop that is not itself guarded by a fresh := binding of the same name
    n_wal = 0
    for m in mods:
        for qual, fn in _functions(m.tree):
            parents = {}
            for p_ in ast.walk(fn):
                for ch in ast.iter_child_nodes(p_):
                    parents[ch] = p_
            for st in ast.walk(fn):
                if not isinstance(st, (ast.If, ast.While)):
                    continue
                for w in [x for x in ast.walk(st.test) if isinstance(x, ast.NamedExpr)]:
                    n_wal += 1
                    nm = w.target.id
                    inside = any(isinstance(x, ast.Name) and x.id == nm and isinstance(x.ctx, ast.Load) for part in [st.test] + st.body + st.orelse for x in ast.walk(part))
                    if inside:
                        continue
                    end = getattr(st, 'end_lineno', st.lineno)
                    def shadowed_(x, stop):
                        q = parents.get(x)
                        while q is not None and q is not stop:
                            if q is not st and isinstance(q, (ast.If, ast.While)) and any(isinstance(y, ast.NamedExpr) and y.target.id == nm for y in ast.walk(q.test)):
                                return True
                            q = parents.get(q)
                        return False
                    later = any(isinstance(x, ast.Name) and x.id == nm and isinstance(x.ctx, ast.Load) and x.lineno > end and not shadowed_(x, fn) for x in ast.walk(fn))
                    if later:
                        continue
                    # back edge: loads earlier in an enclosing loop, not under another statement that rebinds the name in its own test
                    back = False
                    p_ = parents.get(st)
                    while p_ is not None and not back:
                        if isinstance(p_, (ast.For, ast.While)):
                            for x in ast.walk(p_):
                                if isinstance(x, ast.Name) and x.id == nm and isinstance(x.ctx, ast.Load) and x.lineno < st.lineno:
                                    q, shadowed = parents.get(x), False
                                    while q is not None and q is not p_:
                                        if isinstance(q, (ast.If, ast.While)) and any(isinstance(y, ast.NamedExpr) and y.target.id == nm for y in ast.walk(q.test)):
                                            shadowed = True
                                        q = parents.get(q)
                                    if not shadowed:
                                        back = True
                        p_ = parents.get(p_)
                    if back:
                        continue
                    ck.bad(R, f'walrus:{m.name}:{qual}:{nm}@{src(st.test)[:40]}', f'{qual}: `{src(st.test)[:70]}` binds `{nm}` but nothing reads it afterwards: the value the '
                                                                                  f'branch was written to use is ignored (another variable is used in its place?)',
                           file=m.relpath, line=st.lineno, func=qual, construct=src(st.test)[:100])
    ck.count(f'{R}: walrus bindings in tests', n_wal)
    ck.ok(R, 'parameters', f'{n_par} parameters read ({len(ALLOWED_PARAMS)} frozen exceptions)')
    ck.ok(R, 'assignments', f'{n_loc} plain assignments read')
    ck.count(f'{R}: parameters', n_par)
    ck.count(f'{R}: plain assignments', n_loc)
    ck.require(n_par >= 5, f'{R}: only {n_par} parameters inspected')
