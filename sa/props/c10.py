# -*- coding: utf-8 -*-
"""C10 Binary pack format -- tables, representability, limits, framing, sizes and bit layout."""
from ..r_pack import rule_layout, rule_sizes, rule_limits, rule_stereo_codes, rule_cis_trans_keys
from ..r_readers import rule_negative_count_slices
from .c18 import duplicate_tables, isotope_windows
from ..r_hygiene import rule_hygiene as _rule_hygiene
from ..r_pack import rule_half_float_decoder as _rule_half
from ..r_pack import rule_unpach_dispatch as _rule_unpach
from ..r_query import rule_isotope_setter as _rule_iso_setter
from ..r_round8 import rule_half_float_encoder as _r8_enc
from ..r_round9 import rule_cis_trans_terminal_keys as _r9_ctk
from ..r_round10 import rule_pack_length_before_cursor as _r10_len

LEVEL = 'other'


def run(ck, repo):
    ck.assumptions += ['the published version-2 layout (docstring of MoleculeContainer.pack) frozen as a field table in sa/r_pack.py',
                       'the .pyx sources are analysed as text: straight-line integer statements are cleaned of C casts and interpreted over bit provenance; '
                       'anything not recognised is ANALYSIS-ERROR']
    ck.undecided += ['half-float conversion accuracy (double_to_float16 / double_from_bytes), zlib, decoding of the 4200 shipped packs: numerical / corpus behaviour',
                     'the bit streams of the connection table and of the 3-bit order block (state machines with carried buffers)']
    duplicate_tables(ck, repo, 'C10.D1-isotope-tables')
    isotope_windows(ck, repo, 'C10.D2-representable')
    rule_limits(ck, repo, 'C10.D2-limits')
    rule_negative_count_slices(ck, repo, 'C10.D3-role-slices', ['chython.containers.reaction:ReactionContainer.pack_len', 'chython.containers.reaction:ReactionContainer.unpack'])
    rule_sizes(ck, repo, 'C10.D3-sizes')
    rule_layout(ck, repo, 'C10.D4-layout')
    rule_stereo_codes(ck, repo, 'C10.D4-stereo-codes')
    rule_cis_trans_keys(ck, repo, 'C10.D4-cis-trans-keys')
    _rule_hygiene(ck, repo, 'C10.H-dataflow-hygiene', 'C10')
    _rule_half(ck, repo, 'C10.D1-half-float')
    _rule_unpach(ck, repo, 'C10.D3-unpach-dispatch')
    _rule_iso_setter(ck, repo, 'C10.D2-isotope-setter')
    _r8_enc(ck, repo, 'C10.D6-half-float-encoder')
    _r9_ctk(ck, repo, 'C10.D7-cis-trans-terminal-keys')
    _r10_len(ck, repo, 'C10.D8-pack-length-before-cursor')
