# -*- coding: utf-8 -*-
"""C11 MDL / MRV round trip -- code books, role order, record-loop discipline."""
from ..r_mdl import rule_record_loop, rule_v2000_books, rule_rxn_roles, rule_mrv_attributes, rule_rxn_drop_bookkeeping, rule_star_point_lookup, rule_rdf_header_once
from ..r_readers import rule_raise_family, MDL
from ..r_reaction import rule_role_zip
from ..r_hygiene import rule_hygiene as _rule_hygiene
from ..r_mdl import rule_first_m_end as _rule_first_m_end
from ..r_alias import rule_retry_flush as _rule_retry_flush
from ..r_round8 import rule_mol_property_positions as _r8_pos
from ..r_round9 import rule_slice_shortcut as _r9_slice, rule_index_lands_on_header as _r9_idx
from ..r_round10 import rule_one_based_bound as _r10_one

LEVEL = 'other'
EXEMPT = {
    ('SDFrw', '_read_block', 'BufferOverflow'): 'documented abort when a record exceeds buffer_size',
    ('RDFrw', '_read_block', 'BufferOverflow'): 'documented abort when a record exceeds buffer_size',
    ('MRVrw', '_read_block', 'BufferOverflow'): 'documented abort when a record exceeds buffer_size',
    ('read', 'seek', 'NotImplementedError'): 'random access API, not record parsing',
    ('read', '__getitem__', 'NotImplementedError'): 'random access API, not record parsing',
    ('read', '_load_cache', 'IsADirectoryError'): 'index cache handling, not record parsing',
    ('read', '_load_cache', 'UnpicklingError'): 'index cache handling, not record parsing',
    ('SDFrw', 'reset_index', 'NotImplementedError'): 'index building, not record parsing',
    ('RDFrw', 'reset_index', 'NotImplementedError'): 'index building, not record parsing',
    ('MRVrw', 'reset_index', 'NotImplementedError'): 'index building, not record parsing',
}


def run(ck, repo):
    ck.undecided += ['column formatting for all field values, coordinate -> wedge geometry, random access equivalence, metadata text round trip: numerical / IO behaviour']
    caught = rule_record_loop(ck, repo, 'C11.D2-record-loop')
    rule_raise_family(ck, repo, MDL, 'C11.D2-raise-family', caught,
                      'every explicit raise of the MDL / RDF / MRV record parsers is caught by the record iterators (family computed from MDLRead.__iter__), '
                      'so a damaged record is skipped; TypeError only for ill-typed arguments; documented aborts are a frozen table', EXEMPT)
    ck.floor('C11.D2-raise-family', 60)
    rule_v2000_books(ck, repo, 'C11.D1-codebooks')
    rule_rxn_roles(ck, repo, 'C11.D1-reaction-roles')
    rule_mrv_attributes(ck, repo, 'C11.D1-mrv-attributes')
    rule_role_zip(ck, repo, 'C11.D1-role-pairing', lambda f: f.module.name in ('chython.files.RDFrw', 'chython.files.MRVrw'), floor=3)
    _rule_hygiene(ck, repo, 'C11.H-dataflow-hygiene', 'C11')
    _rule_first_m_end(ck, repo, 'C11.D3-first-m-end')
    _rule_retry_flush(ck, repo, 'C11.D5-retry-flush', ['chython.files.mdl.stereo'], 1)
    rule_rxn_drop_bookkeeping(ck, repo, 'C11.D1-dropped-component-bookkeeping')
    rule_star_point_lookup(ck, repo, 'C11.D3-star-point-lookup')
    rule_rdf_header_once(ck, repo, 'C11.D3-rdf-header-once')
    _r8_pos(ck, repo, 'C11.D6-property-line-positions')
    _r9_slice(ck, repo, 'C11.D7-slice-shortcut')
    _r9_idx(ck, repo, 'C11.D7-index-lands-on-header')
    _r10_one(ck, repo, 'C11.D8-one-based-bound')
