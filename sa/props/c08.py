# -*- coding: utf-8 -*-
"""C08 SMARTS primitives and query atoms match exactly what is documented -- predicate, plumbing and rejection clauses."""
from ..r_query import rule_eq_ladders, rule_primitive_plumbing, rule_constructor_kwargs, rule_constraint_normalisers
from ..r_rings import rule_ring_marks
from ..r_readers import rule_raise_family, rule_implicit_raises, rule_tokenizer_fsm, DAYLIGHT
from ..r_hygiene import rule_hygiene as _rule_hygiene
from ..r_rings import rule_ring_mark_is_bool as _rule_mark_bool
from ..r_readers import rule_tokenizer_rejections as _rule_tok_rej
from ..r_codebooks import rule_cx_radical_lists as _rule_cxr
from ..r_rings import rule_hybridization_table as _rule_hyb
from ..r_codebooks import rule_not_bond_complement as _rule_notbond
from ..r_round8 import rule_stereo_gates as _r8_gates
from ..r_round9 import rule_or_list_one_primitive as _r9_or

from ..r_round10 import rule_target_numbers_on_target as _r10_tn

LEVEL = 'other'


def run(ck, repo):
    ck.assumptions += ['the documented matching semantics is the EXPECTED table of sa/r_query.py (exact / optional-exact / '
                       'optional-membership / ring overlap / element forms)']
    ck.undecided += ['that the attributes the predicates read (labels from calc_labels) are themselves right: C06/C13',
                     'matching over all environments of a corpus: runtime']
    rule_eq_ladders(ck, repo)
    rule_primitive_plumbing(ck, repo)
    rule_constructor_kwargs(ck, repo)
    rule_constraint_normalisers(ck, repo, 'C08.D2-constraint-normalisers')
    # the labels the predicates read: every label assigned for every atom, neighbour classes exclusive
    rule_ring_marks(ck, repo, 'C08.D4-atom-labels')
    rule_raise_family(ck, repo, DAYLIGHT, 'C08.D3-raise-family', ValueError,
                      'every explicit raise on the smarts() path is IncorrectSmarts / a ValueError subclass',
                      {('_convert', 'create_molecule', 'AtomNotFound'): 'not on the smarts() path'})
    rule_implicit_raises(ck, repo, 'C08.D3-implicit-raises', ValueError)
    rule_tokenizer_fsm(ck, repo, 'C08.D3-fsm')
    _rule_hygiene(ck, repo, 'C08.H-dataflow-hygiene', 'C08')
    _rule_mark_bool(ck, repo, 'C08.D4-ring-mark-bool')
    _rule_tok_rej(ck, repo, 'C08.D3-tokenizer-rejections')
    _rule_cxr(ck, repo, 'C08.D2-cx-radical-lists', ['chython.files.daylight.smiles', 'chython.files.daylight.smarts'])
    _rule_hyb(ck, repo, 'C08.D4-hybridization')
    _rule_notbond(ck, repo, 'C08.D5-not-bond-complement')
    _r8_gates(ck, repo, 'C08.D6-stereo-gates')
    _r9_or(ck, repo, 'C08.D7-or-list-one-primitive')
    _r10_tn(ck, repo, 'C08.D8-target-numbers')
