# -*- coding: utf-8 -*-
"""C07 Substructure search -- soundness guards, filter and operator wiring."""
from ..r_iso import rule_admission_guards, rule_filter_and_operators

from ..r_domains import rule_domains

LEVEL = 'other'


def run(ck, repo):
    ck.undecided += ['completeness (no mapping lost) of the DFS linearisation with back-references, component permutation logic, lazy_product: all-pairs-of-graphs statements']
    rule_admission_guards(ck, repo, 'C07.D1-admission-guards')
    rule_domains(ck, repo, 'C07.D1-index-domains', only=[':_get_mapping'])
    rule_filter_and_operators(ck, repo, 'C07.D2-filter-operators')
