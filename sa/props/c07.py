# -*- coding: utf-8 -*-
"""C07 Substructure search -- soundness guards, filter and operator wiring."""
from ..r_iso import rule_admission_guards, rule_filter_and_operators

from ..r_domains import rule_domains
from ..r_escape import rule_yield_then_mutate, rule_borrowed_pool
from ..r_hygiene import rule_hygiene as _rule_hygiene
from ..r_construct import rule_protocol_dunders as _rule_dunders
from ..r_round8 import rule_stereo_gates as _r8_gates
from ..r_round9 import rule_scope_abandons_permutation as _r9_scope

from ..r_round10 import rule_target_numbers_on_target as _r10_tn

LEVEL = 'other'


def run(ck, repo):
    ck.undecided += ['completeness (no mapping lost) of the DFS linearisation with back-references, component permutation logic, lazy_product: all-pairs-of-graphs statements']
    rule_admission_guards(ck, repo, 'C07.D1-admission-guards')
    rule_domains(ck, repo, 'C07.D1-index-domains', only=[':_get_mapping', 'QueryIsomorphism.get_mapping'])
    rule_filter_and_operators(ck, repo, 'C07.D2-filter-operators')
    in_iso = lambda f: f.module.name == 'chython.algorithms.isomorphism'
    rule_yield_then_mutate(ck, repo, 'C07.D3-yielded-mappings-immutable', in_iso, floor=5)
    rule_borrowed_pool(ck, repo, 'C07.D3-pooled-mappings-copied', in_iso, floor=2)
    _rule_hygiene(ck, repo, 'C07.H-dataflow-hygiene', 'C07')
    _rule_dunders(ck, repo, 'C07.D0-container-protocols', ['chython.containers.molecule:MoleculeContainer', 'chython.containers.query:QueryContainer', 'chython.containers.cgr:CGRContainer'])
    _r8_gates(ck, repo, 'C07.D4-stereo-gates')
    _r9_scope(ck, repo, 'C07.D5-scope-abandons-permutation')
    _r10_tn(ck, repo, 'C07.D6-target-numbers')
