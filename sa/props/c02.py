# -*- coding: utf-8 -*-
"""C02 SMILES write then read is lossless -- code-book, field coverage and mark-parity clauses."""
from ..r_codebooks import rule_smiles_codebooks, rule_mark_parity, rule_field_coverage
from ..r_stereo import rule_tetrahedron_table, rule_alkene_table, rule_ladders
from ..r_codebooks import rule_closure_slots as _rule_closure_slots
from ..r_construct import rule_seeded_string_complete as _rule_seeded
from ..r_hygiene import rule_hygiene as _rule_hygiene
from ..r_canon import rule_closure_id_scope as _rule_cid_scope
from ..r_canon import rule_closure_order_consumers as _rule_closure_order, rule_elemental_bracket as _rule_elemental, rule_bare_string_for_reaction as _rule_bare
from ..r_alias import rule_retry_flush as _rule_retry_flush
from ..r_codebooks import rule_cx_radical_lists as _rule_cxr
from ..r_codebooks import rule_allene_reference_choice as _rule_allene_ref
from ..r_round8 import rule_cx_index_language as _r8_cx
from ..r_round9 import rule_reader_full_neighbour_list as _r9_nl, rule_morgan_seed_fields as _r9_seed

LEVEL = 'other'


def run(ck, repo):
    ck.undecided += ['correctness of the cis/trans direction-mark propagation (__ct_map) and of the neighbour-order bookkeeping for arbitrary traversals: runtime graph reasoning',
                     'atom maps above 9999 (reader regex :[0-9]{1,4}) -- noted, outside the claimed domain']
    rule_smiles_codebooks(ck, repo, 'C02.D1-codebooks')
    rule_field_coverage(ck, repo, 'C02.D2-field-coverage')
    rule_mark_parity(ck, repo, 'C02.D3-mark-parity')
    # the sign translation both sides go through
    rule_tetrahedron_table(ck, repo)
    table = rule_alkene_table(ck, repo)
    rule_ladders(ck, repo, table)
    _rule_closure_slots(ck, repo, 'C02.D2-closure-slots')
    _rule_seeded(ck, repo, 'C02.D2-seeded-string')
    _rule_hygiene(ck, repo, 'C02.H-dataflow-hygiene', 'C02')
    _rule_cid_scope(ck, repo, 'C02.D3-closure-id-scope')
    _rule_closure_order(ck, repo, 'C02.D3-closure-order')
    _rule_elemental(ck, repo, 'C02.D1-elemental-bracket')
    _rule_bare(ck, repo, 'C02.D2-bare-string')
    _rule_retry_flush(ck, repo, 'C02.D5-retry-flush', ['chython.files.daylight.smiles'], 1)
    _rule_cxr(ck, repo, 'C02.D2-cx-radical-lists', ['chython.files.daylight.smiles', 'chython.files.daylight.smarts'])
    _rule_allene_ref(ck, repo, 'C02.D3-allene-reference')
    _r8_cx(ck, repo, 'C02.D6-cx-index-language', ['chython.files.daylight.smiles', 'chython.files.daylight.smarts'])
    _r9_nl(ck, repo, 'C02.D6-reader-full-neighbour-list')
    _r9_seed(ck, repo, 'C02.D6-morgan-seed-fields')
