# -*- coding: utf-8 -*-
"""C14 Normalisation -- protocol, rule-table applicability and heavy-atom clauses."""
from ..r_protocol import run_protocol
from ..r_rules import rule_tables_applicable, rule_patch_order_atomic
from ..r_rings import rule_heavy_atoms

from ..r_domains import rule_domains
from ..r_keys import rule_fresh_keys
from ..r_hygiene import rule_hygiene as _rule_hygiene
from ..r_rules import rule_overlap_atoms as _rule_overlap
from ..r_valence import rule_tentative_removal_set as _rule_tentative
from ..r_rings import rule_tentative_rollback as _rule_rollback
from ..r_round9 import rule_radical_patch_tristate as _r9_tri
from ..r_round10 import rule_charge_rollback_threshold as _r10_ch

LEVEL = 'other'
NORMALISERS = {'Standardize.canonicalize', 'Standardize.standardize', 'Standardize.standardize_charges', 'Resonance.fix_resonance',
               'AcidBase.neutralize', 'Standardize.implicify_hydrogens', 'Standardize.explicify_hydrogens', 'Standardize.remove_coordinate_bonds',
               'Standardize.clean_isotopes', 'Salts.remove_metals', 'Salts.remove_acids', 'Salts.split_metal_salts', 'Saturation.saturate',
               'Tautomers.enumerate_tautomers', 'Tautomers.enumerate_charged_tautomers', 'AcidBase.enumerate_charged_forms'}


def run(ck, repo):
    ck.undecided += ['conservation of charge / hydrogens per rule (net deltas are non-zero for rules meant to repair mis-drawn charges), idempotence, '
                     'numbering independence, documented spellings -> canonical spellings: need chemistry or runtime']
    P = run_protocol(ck, repo, 'C14.D1-protocol', only_entries=NORMALISERS)
    ck.floor('C14.D1-protocol', 30)
    rule_tables_applicable(ck, repo, 'C14.D2-rule-tables')
    rule_patch_order_atomic(ck, repo, 'C14.D2-patch-order')
    rule_domains(ck, repo, 'C14.D2-index-domains', only=['__standardize', '__fix_rings'])
    rule_heavy_atoms(ck, repo, 'C14.D3-heavy-atoms', P)
    rule_fresh_keys(ck, repo, 'C14.D3-fresh-atom-numbers')
    _rule_hygiene(ck, repo, 'C14.H-dataflow-hygiene', 'C14')
    _rule_overlap(ck, repo, 'C14.D2-overlap-atoms')
    _rule_tentative(ck, repo, 'C14.D4-tentative-removal')
    _rule_rollback(ck, repo, 'C14.D4-tentative-rollback', ['chython.algorithms.standardize.resonance:Resonance.fix_resonance'])
    _r9_tri(ck, repo, 'C14.D6-radical-patch-tristate')
    _r10_ch(ck, repo, 'C14.D7-charge-rollback-threshold')
