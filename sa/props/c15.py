# -*- coding: utf-8 -*-
"""C15 Reactions -- role order, order-free identity, condensed-graph side provenance, signature tables."""
from ..r_reaction import rule_roles, rule_sides, rule_dynamic_tables
from ..r_readers import rule_negative_count_slices
from ..r_reaction import rule_role_zip as _rule_role_zip
from ..r_hygiene import rule_hygiene as _rule_hygiene
from ..r_canon import rule_bare_string_for_reaction as _rule_bare
from ..r_construct import rule_protocol_dunders as _rule_dunders
from ..r_reaction import rule_hash_covers_eq as _rule_hash_eq, rule_fragment_counter as _rule_fragcount
from ..r_round9 import rule_positional_radical_list as _r9_rad
from ..r_round10 import rule_fragment_index_bound as _r10_fr

LEVEL = 'other'


def run(ck, repo):
    ck.undecided += ['renumbering independence of the CGR string (inherits C01\'s undecided part)',
                     'that "dynamic exactly where the sides differ" holds for concrete mapped reactions: decided only as provenance of the two sides']
    rule_roles(ck, repo, 'C15.D1-roles')
    rule_sides(ck, repo, 'C15.D2-sides')
    rule_dynamic_tables(ck, repo, 'C15.D3-signature-tables')
    rule_negative_count_slices(ck, repo, 'C15.D4-role-slices', ['chython.files.daylight.smiles:smiles'])
    _rule_role_zip(ck, repo, 'C15.D1-role-pairing', lambda f: f.module.name == 'chython.files.daylight.smiles', floor=1)
    _rule_hygiene(ck, repo, 'C15.H-dataflow-hygiene', 'C15')
    _rule_fragcount(ck, repo, 'C15.D1-fragment-counter')
    _rule_bare(ck, repo, 'C15.D1-bare-string')
    _rule_hash_eq(ck, repo, 'C15.D3-hash-covers-eq', ['chython.periodictable.base.dynamic:DynamicElement', 'chython.containers.bonds:DynamicBond',
                                                     'chython.containers.bonds:QueryBond'])
    _rule_dunders(ck, repo, 'C15.D0-container-protocols', ['chython.containers.cgr:CGRContainer', 'chython.containers.molecule:MoleculeContainer', 'chython.containers.reaction:ReactionContainer'])
    _r9_rad(ck, repo, 'C15.D6-positional-radical-list')
    _r10_fr(ck, repo, 'C15.D7-fragment-index-bound')
