# -*- coding: utf-8 -*-
"""
C12 Stereo signs are permutation-consistent (table clauses proved; ladders, mark parity, label lifecycle decided).
"""
from ..r_stereo import rule_tetrahedron_table, rule_alkene_table, rule_ladders, rule_stereo_cache_set, rule_distinctness_predicates
from ..r_codebooks import rule_mark_parity
from ..r_protocol import run_protocol
from ..r_alias import rule_no_stale_alias, rule_fix_stereo_exit, rule_row_order
from ..r_hygiene import rule_hygiene as _rule_hygiene
from ..r_alias import rule_retry_flush as _rule_retry_flush
from ..r_stereo import rule_pair_key_symmetry as _rule_pair_key
from ..r_codebooks import rule_allene_reference_choice as _rule_allene_ref
from ..r_rdkit import rule_import_revalidates as _rule_import_reval
from ..r_round9 import rule_reader_full_neighbour_list as _r9_nl, rule_prune_condition as _r9_prune, rule_cis_trans_terminal_keys as _r9_ctk

LEVEL = 'other'


def run(ck, repo):
    ck.assumptions += ['parity convention: value True in a translate table means "sign flips"; the identity order keeps the sign']
    ck.undecided += ['geometric sign functions (_pyramid_sign, _cis_trans_sign, _allene_sign): numerical',
                     'detection of stereogenic units and their symmetry ranks (graph symmetry): runtime graph reasoning; only the definitional both-ends-distinct predicates are decided',
                     'agreement with an independent toolkit on concrete molecules: needs that toolkit as oracle']
    rule_tetrahedron_table(ck, repo)
    table = rule_alkene_table(ck, repo)
    rule_ladders(ck, repo, table)
    rule_mark_parity(ck, repo, 'C12.D4-mark-parity')
    rule_stereo_cache_set(ck, repo)
    rule_no_stale_alias(ck, repo, 'C12.D5-no-stale-alias')
    rule_fix_stereo_exit(ck, repo, 'C12.D5-fix_stereo-exit')
    rule_row_order(ck, repo, 'C12.D5-row-order')
    # labels are kept only on centres that are stereogenic: every structural change reaches fix_stereo
    run_protocol(ck, repo, 'C12.D5-fix_stereo-reached', only_dims={'STEREO'})
    rule_distinctness_predicates(ck, repo, 'C12.D6-distinctness-predicates')
    _rule_hygiene(ck, repo, 'C12.H-dataflow-hygiene', 'C12')
    _rule_retry_flush(ck, repo, 'C12.D5-retry-flush', ['chython.files.daylight.smiles', 'chython.files.mdl.stereo', 'chython.files.libinchi.wrapper'], 3)
    _rule_pair_key(ck, repo, 'C12.D6-pair-key-symmetry')
    _rule_allene_ref(ck, repo, 'C12.D3-allene-reference')
    _rule_import_reval(ck, repo, 'C12.D4-import-revalidates')
    _r9_nl(ck, repo, 'C12.D6-reader-full-neighbour-list')
    _r9_prune(ck, repo, 'C12.D6-prune-condition')
    _r9_ctk(ck, repo, 'C12.D6-cis-trans-terminal-keys')
