# -*- coding: utf-8 -*-
"""
C12 Stereo signs are permutation-consistent (table clauses proved; ladders, mark parity, label lifecycle decided).
"""
from ..r_stereo import rule_tetrahedron_table, rule_alkene_table, rule_ladders

LEVEL = 'other'


def run(ck, repo):
    ck.assumptions += ['parity convention: value True in a translate table means "sign flips"; the identity order keeps the sign']
    ck.undecided += ['geometric sign functions (_pyramid_sign, _cis_trans_sign, _allene_sign): numerical',
                     'detection of stereogenic / chiral centres (graph symmetry): runtime graph reasoning',
                     'agreement with an independent toolkit on concrete molecules: needs that toolkit as oracle']
    rule_tetrahedron_table(ck, repo)
    table = rule_alkene_table(ck, repo)
    rule_ladders(ck, repo, table)
