# -*- coding: utf-8 -*-
"""C04 Implicit hydrogen counts and valence errors follow the element valence rules -- structural clauses."""
from ..r_valence import (rule_tables_compile, rule_definite_assignment, rule_sibling_agreement, rule_aromatic_carbon, rule_totals, rule_valence_parity)

from ..r_domains import rule_domains
from ..r_construct import rule_changed_set
from ..r_protocol import run_protocol
from ..r_hygiene import rule_hygiene as _rule_hygiene
from ..r_valence import rule_tentative_removal_set as _rule_tentative

LEVEL = 'other'


def run(ck, repo):
    ck.undecided += ['that the tabulated valences are chemically right / agree with RDKit: needs a chemistry oracle']
    rule_tables_compile(ck, repo, 'C04.D1-tables-compile')
    rule_definite_assignment(ck, repo, 'C04.D2-definite-assignment')
    rule_sibling_agreement(ck, repo, 'C04.D3-sibling-agreement')
    rule_domains(ck, repo, 'C04.D3-environment-domains', only=['_compiled_valence_rules', '_compiled_saturation_rules', 'calc_implicit', 'check_implicit', 'implicify_hydrogens'])
    rule_aromatic_carbon(ck, repo, 'C04.D3-aromatic-carbon')
    rule_totals(ck, repo, 'C04.D4-totals')
    # every atom whose environment an edit changed is recalculated: pending-set bookkeeping + the HYDRO dimension of the mutator protocol
    rule_changed_set(ck, repo)
    run_protocol(ck, repo, 'C04.D5-recalculation', only_dims={'HYDRO'})
    _rule_hygiene(ck, repo, 'C04.H-dataflow-hygiene', 'C04')
    _rule_tentative(ck, repo, 'C04.D4-tentative-removal')
    rule_valence_parity(ck, repo, 'C04.D1-valence-parity')
