# -*- coding: utf-8 -*-
"""C06 Ring perception / ring marks -- one-graph and mark-derivation clauses."""
from ..r_protocol import run_protocol
from ..r_rings import rule_one_graph, rule_ring_marks
from ..r_hygiene import rule_hygiene as _rule_hygiene
from ..r_rings import rule_ring_mark_is_bool as _rule_mark_bool
from ..r_rings import rule_hybridization_table as _rule_hyb
from ..r_rings import rule_simple_cycle_guard as _rule_simple, rule_pid_replace_or_extend as _rule_pid
from ..r_round8 import rule_canonic_ring_orientation as _r8_canon
from ..r_round9 import rule_scissors_pairing as _r9_sc
from ..r_round10 import rule_shared_bond_threshold as _r10_thr

LEVEL = 'other'


def run(ck, repo):
    ck.undecided += ['linear independence, minimality and numbering independence of the PID-matrix ring search; the two recorded heuristic gaps: algorithmic']
    rule_one_graph(ck, repo, 'C06.D1-one-graph')
    rule_ring_marks(ck, repo, 'C06.D2-ring-marks')
    # marks are refreshed and ring caches dropped after every topology write
    run_protocol(ck, repo, 'C06.D2-refreshed', only_dims={'LABELS', 'KEEP'})
    _rule_hygiene(ck, repo, 'C06.H-dataflow-hygiene', 'C06')
    _rule_mark_bool(ck, repo, 'C06.D2-ring-mark-bool')
    _rule_hyb(ck, repo, 'C06.D4-hybridization')
    _rule_simple(ck, repo, 'C06.D5-simple-cycles')
    _rule_pid(ck, repo, 'C06.D5-pid-tables')
    _r8_canon(ck, repo, 'C06.D6-canonic-ring-orientation')
    _r9_sc(ck, repo, 'C06.D7-scissors-pairing')
    _r10_thr(ck, repo, 'C06.D8-shared-bond-threshold')
