# -*- coding: utf-8 -*-
"""C09 Accelerated (compiled) matcher and reference matcher return the same mappings -- layout / predicate-set clauses."""
from ..r_matcher import run_matcher_rules
from ..r_hygiene import rule_hygiene as _rule_hygiene
from ..r_rings import rule_hybridization_table as _rule_hyb
from ..r_round8 import rule_no_break_over_sets as _r8_sets

LEVEL = 'other'


def run(ck, repo):
    ck.assumptions += ['domains: atomic numbers 1..118, charge from the Element.charge setter, hydrogens 0..max of the valence tables, '
                       'neighbors/heteroatoms 0..14 from query._validate, hybridization values assigned by calc_labels, isotope '
                       'offsets from the element tables, ring sizes 3..65',
                       'the list-variable -> struct-field role table (sa/r_matcher.py ROLE) is the buffer contract between '
                       'isomorphism.py and _isomorphism.pyx',
                       '_isomorphism.pyx is analysed as text (Cython is not installed): struct declarations and the mask comparison '
                       'expressions only']
    ck.undecided += ['value-level divergences inside one layout (implicit_hydrogens None coerced to 0 by the encoder vs raw None in __eq__; '
                     'molecules with more than 14 neighbours) -- reported as notes',
                     'the search loop of the .pyx (stack handling, closure bookkeeping) vs the python generator: control-flow equivalence is not decided']
    run_matcher_rules(ck, repo, ck.tier == 'thorough')
    _rule_hygiene(ck, repo, 'C09.H-dataflow-hygiene', 'C09')
    _rule_hyb(ck, repo, 'C09.D4-hybridization')
    _r8_sets(ck, repo, 'C09.D4-set-loops-complete')
