# -*- coding: utf-8 -*-
"""C17 Fingerprints -- fold bound, numbering-blind hashing, fragment canonicalisation."""
from ..r_canon import rule_fold_mask, rule_order_free_hash, rule_hash_inputs, rule_fragment_canonical
from ..r_hygiene import rule_hygiene as _rule_hygiene
from ..r_canon import rule_uncapped_sentinel as _rule_uncapped
from ..r_canon import rule_morgan_layers as _rule_layers
from ..r_canon import rule_chain_length_window as _rule_window
from ..r_round9 import rule_morgan_layers_fresh as _r9_fresh
from ..r_round10 import rule_morgan_window_radius as _r10_win

LEVEL = 'other'


def run(ck, repo):
    ck.undecided += ['"exactly the set of simple paths / neighbourhoods of the requested radii": enumeration behaviour, not decided']
    rule_fold_mask(ck, repo, 'C17.D1-fold-mask')
    n = rule_order_free_hash(ck, repo, 'C17.D2-order-free-hash', ['chython.algorithms.fingerprints.morgan:MorganFingerprint._morgan_hash_dict'])
    ck.require(n >= 1, 'no dictionary iteration inside hash() found in _morgan_hash_dict')
    rule_hash_inputs(ck, repo, 'C17.D2-hash-inputs')
    rule_fragment_canonical(ck, repo, 'C17.D2-fragment-canonical')
    _rule_hygiene(ck, repo, 'C17.H-dataflow-hygiene', 'C17')
    _rule_uncapped(ck, repo, 'C17.D2-uncapped')
    _rule_layers(ck, repo, 'C17.D3-morgan-layers')
    _rule_window(ck, repo, 'C17.D2-length-window')
    _r9_fresh(ck, repo, 'C17.D6-morgan-layers-fresh')
    _r10_win(ck, repo, 'C17.D7-morgan-window-radius')
