# -*- coding: utf-8 -*-
"""C20 RDKit bridge -- code books, sign conventions, attribute coverage (decided from the source; RDKit is not executed)."""
from ..r_rdkit import rule_bond_books, rule_sign_conventions, rule_attribute_coverage
from ..r_stereo import rule_tetrahedron_table, rule_alkene_table, rule_ladders
from ..r_hygiene import rule_hygiene as _rule_hygiene
from ..r_rdkit import rule_index_inverse as _rule_index_inverse
from ..r_rdkit import rule_import_revalidates as _rule_import_reval
from ..r_round10 import rule_first_conformer_is_2d as _r10_conf

LEVEL = 'other'


def run(ck, repo):
    ck.undecided += ['agreement of the convention with RDKit\'s own semantics (what CCW means for RDKit\'s neighbour order) and canonical-SMILES equality: needs RDKit as oracle']
    rule_bond_books(ck, repo, 'C20.D1-bond-books')
    rule_sign_conventions(ck, repo, 'C20.D2-sign-conventions')
    rule_attribute_coverage(ck, repo, 'C20.D3-attribute-coverage')
    rule_tetrahedron_table(ck, repo)
    t = rule_alkene_table(ck, repo)
    rule_ladders(ck, repo, t)
    _rule_hygiene(ck, repo, 'C20.H-dataflow-hygiene', 'C20')
    _rule_index_inverse(ck, repo, 'C20.D5-index-inverse')
    _rule_import_reval(ck, repo, 'C20.D4-import-revalidates')
    _r10_conf(ck, repo, 'C20.D5-first-conformer-is-2d')
