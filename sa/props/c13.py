# -*- coding: utf-8 -*-
"""
C13 Edits keep derived views coherent; transactions atomic; copies independent.
"""
from ..r_protocol import run_protocol

LEVEL = 'other'


def run(ck, repo):
    run_protocol(ck, repo, 'B3')
