# -*- coding: utf-8 -*-
"""
C13 Edits keep derived views coherent; transactions atomic; copies independent.
"""
from ..r_protocol import run_protocol
from ..r_construct import (rule_keep_lists, rule_literal_keys, rule_construction, rule_transaction, rule_ownership,
                           rule_symmetry, rule_changed_set)
from ..r_alias import rule_no_mutation_of_cached, rule_no_stale_alias, rule_merge_fresh, rule_row_order
from ..r_keys import rule_fresh_keys
from ..r_hygiene import rule_hygiene as _rule_hygiene
from ..r_rings import rule_tentative_rollback as _rule_rollback
from ..r_construct import rule_protocol_dunders as _rule_dunders
from ..r_round9 import rule_back_connection_guard as _r9_back
from ..r_round10 import rule_shallow_copy_of_cached_nested as _r10_sh

LEVEL = 'other'


def run(ck, repo):
    ck.assumptions += [
        'raw molecule state is reached only through self._atoms / self._bonds, their aliases and objects drawn from them '
        '(no setattr / computed getattr in the container MRO)',
        'primitives calc_labels, calc_implicit, fix_stereo, flush_cache are taken at their documented effect',
        'the exemption table of sa/r_protocol.py (one symbol + reason per row) and the optional-slot table of sa/r_construct.py',
        'entry points are analysed outside a transaction; deferred work inside `with mol:` is __exit__\'s obligation (rule B4-transaction)',
    ]
    ck.undecided += ['"equals what an independently rebuilt molecule reports" as a value statement: the rules prove that no stale '
                     'value can be served and no slot is missing, not that freshly computed values are right (C01/C04/C06)',
                     'ordering subtleties the structured walk cannot see (a cache materialised between a flush and a later relabel)']
    rule_keep_lists(ck, repo)
    rule_literal_keys(ck, repo)
    run_protocol(ck, repo, 'B3')
    rule_construction(ck, repo)
    rule_transaction(ck, repo)
    rule_ownership(ck, repo)
    rule_symmetry(ck, repo)
    rule_changed_set(ck, repo)
    rule_no_mutation_of_cached(ck, repo, 'A1-cached-value-not-mutated')
    rule_no_stale_alias(ck, repo, 'A2-no-stale-alias')
    rule_merge_fresh(ck, repo, 'A3-merge-fresh-copy')
    rule_row_order(ck, repo, 'A4-row-order')
    rule_fresh_keys(ck, repo, 'B8-fresh-atom-numbers')
    _rule_hygiene(ck, repo, 'C13.H-dataflow-hygiene', 'C13')
    _rule_rollback(ck, repo, 'C13.D4-tentative-rollback', ['chython.algorithms.standardize.resonance:Resonance.fix_resonance'])
    _rule_dunders(ck, repo, 'C13.D0-container-protocols', ['chython.containers.molecule:MoleculeContainer'])
    _r9_back(ck, repo, 'C13.D6-back-connection-guard')
    _r10_sh(ck, repo, 'C13.D7-shallow-copy-of-cached')
