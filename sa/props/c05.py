# -*- coding: utf-8 -*-
"""C05 Kekule and aromatic forms describe the same molecule -- protocol, output alphabet, rule-table clauses."""
from ..r_protocol import run_protocol
from ..r_rings import rule_output_alphabet, rule_tautomer_donor_guard, rule_exocyclic_double
from ..r_rules import rule_tables_applicable

from ..r_domains import rule_domains
from ..r_escape import rule_yield_then_mutate, rule_borrowed_pool
from ..r_hygiene import rule_hygiene as _rule_hygiene
from ..r_round8 import rule_pyrrole_pair_threshold as _r8_pairs
from ..r_round9 import rule_emptied_lists_filtered as _r9_empt

LEVEL = 'other'


def run(ck, repo):
    ck.undecided += ['existence / uniqueness of the alternation, idempotence, numbering independence of the search, "all Kekule forms aromatise to one form": search behaviour']
    run_protocol(ck, repo, 'C05.D1-protocol', only_entries={'Kekule.kekule', 'Kekule.enumerate_kekule', 'Thiele.thiele'})
    ck.floor('C05.D1-protocol', 8)
    rule_output_alphabet(ck, repo, 'C05.D2-output-alphabet')
    rule_tautomer_donor_guard(ck, repo, 'C05.D2-tautomer-hydrogen-move')
    rule_tables_applicable(ck, repo, 'C05.D3-repair-rules')
    rule_domains(ck, repo, 'C05.D3-index-domains', only=['__fix_rings'])
    in_kekule = lambda f: f.module.name == 'chython.algorithms.aromatics.kekule'
    rule_yield_then_mutate(ck, repo, 'C05.D4-yielded-forms-immutable', in_kekule, floor=3)
    rule_borrowed_pool(ck, repo, 'C05.D4-pooled-forms-copied', in_kekule, floor=1)
    _rule_hygiene(ck, repo, 'C05.H-dataflow-hygiene', 'C05')
    rule_exocyclic_double(ck, repo, 'C05.D2-exocyclic-double-bond')
    _r8_pairs(ck, repo, 'C05.D6-pyrrole-pairs')
    _r9_empt(ck, repo, 'C05.D7-emptied-lists-filtered')
