# -*- coding: utf-8 -*-
"""C03 SMILES reader rejects what is outside the language with the library's ValueError -- rejection-discipline clauses."""
from ..r_readers import (rule_raise_family, rule_implicit_raises, rule_tokenizer_fsm, rule_negative_count_slices, DAYLIGHT)
from ..r_codebooks import rule_charge_spellings
from ..r_reaction import rule_role_zip as _rule_role_zip
from ..r_codebooks import rule_closure_slots as _rule_closure_slots
from ..r_hygiene import rule_hygiene as _rule_hygiene
from ..r_readers import rule_tokenizer_rejections as _rule_tok_rej
from ..r_alias import rule_retry_flush as _rule_retry_flush
from ..r_codebooks import rule_cx_radical_lists as _rule_cxr
from ..r_readers import rule_leniency_scope as _rule_leniency
from ..r_codebooks import rule_list_regex_items as _rule_listre
from ..r_round8 import rule_sibling_options as _r8_opts, rule_cx_index_language as _r8_cx
from ..r_round10 import rule_positional_mapping_list as _r10_map

LEVEL = 'other'
EXEMPT = {('_convert', 'create_molecule', 'AtomNotFound'): 'infeasible for the daylight readers: every bond end was just inserted by the same parser '
                                                            '(MDL readers: see C11)'}


def run(ck, repo):
    ck.assumptions += ['int()/float()/tuple-unpacking of input text raise ValueError, which is the accepted family (lenient reading of "a ValueError")',
                       'reviewed-safe instances and their guards: DAYLIGHT_TABLE in sa/r_readers.py']
    ck.undecided += ['that the molecule built is the one the SMILES language defines for every accepted string: needs an independent reader as oracle']
    rule_raise_family(ck, repo, DAYLIGHT, 'C03.E1-raise-family', ValueError,
                      'every explicit raise in tokenize/parser/smiles/smarts/_convert/_mapping is a ValueError subclass '
                      '(IncorrectSmiles, IncorrectSmarts, MappingError, ...) unless caught inside the layer; TypeError only for non-string arguments',
                      EXEMPT)
    ck.floor('C03.E1-raise-family', 60)
    rule_implicit_raises(ck, repo, 'C03.E2-implicit-raises', ValueError)
    rule_tokenizer_fsm(ck, repo, 'C03.F-fsm')
    rule_negative_count_slices(ck, repo, 'C03.E3-slices', ['chython.files.daylight.smiles:smiles'])
    rule_charge_spellings(ck, repo, 'C03.D2-charge-spellings')
    _rule_role_zip(ck, repo, 'C03.D1-role-pairing', lambda f: f.module.name == 'chython.files.daylight.smiles', floor=1)
    _rule_closure_slots(ck, repo, 'C03.D2-closure-slots')
    _rule_hygiene(ck, repo, 'C03.H-dataflow-hygiene', 'C03')
    _rule_tok_rej(ck, repo, 'C03.D3-tokenizer-rejections')
    _rule_retry_flush(ck, repo, 'C03.D5-retry-flush', ['chython.files.daylight.smiles'], 1)
    _rule_cxr(ck, repo, 'C03.D2-cx-radical-lists', ['chython.files.daylight.smiles', 'chython.files.daylight.smarts'])
    _rule_leniency(ck, repo, 'C03.D3-leniency-scope')
    _rule_listre(ck, repo, 'C03.D2-list-patterns', [('chython.files.daylight.smiles', 'cx_fragments'), ('chython.files.daylight.smiles', 'cx_radicals'),
                                                   ('chython.files.daylight.smarts', 'cx_radicals')])
    _r8_opts(ck, repo, 'C03.D6-sibling-options')
    _r8_cx(ck, repo, 'C03.D6-cx-index-language', ['chython.files.daylight.smiles', 'chython.files.daylight.smarts'])
    _r10_map(ck, repo, 'C03.D7-positional-mapping-list')
