# -*- coding: utf-8 -*-
"""C19 Identical results across processes, hash seeds, repeated calls -- structural clauses."""
from ..r_canon import rule_hash_inputs, rule_order_free_hash, rule_no_ambient_nondeterminism
from ..r_construct import rule_literal_keys, rule_keep_lists
from ..r_alias import rule_no_mutation_of_cached
from ..r_construct import rule_seeded_string_complete as _rule_seeded
from ..r_hygiene import rule_hygiene as _rule_hygiene
from ..r_protocol import run_protocol as _run_protocol
from ..r_round10 import rule_shallow_copy_of_cached_nested as _r10_sh

LEVEL = 'other'


def run(ck, repo):
    ck.undecided += ['tie-breaking by set iteration of ints under different insertion histories (molecule vs copy): value dependent',
                     'iteration over sets whose element type cannot be proved from the source']
    rule_hash_inputs(ck, repo, 'C19.D1-seed-independent-hash')
    rule_order_free_hash(ck, repo, 'C19.D1-order-free', ['chython.algorithms.morgan:_morgan',
                                                         'chython.algorithms.fingerprints.morgan:MorganFingerprint._morgan_hash_dict'])
    rule_no_ambient_nondeterminism(ck, repo, 'C19.D3-no-ambient-nondeterminism')
    # D4: first call == cached call; copy transfers only structure caches
    rule_literal_keys(ck, repo)
    rule_keep_lists(ck, repo)
    rule_no_mutation_of_cached(ck, repo, 'C19.D4-cached-value-not-mutated')
    _rule_seeded(ck, repo, 'C19.D4-seeded-string')
    _rule_hygiene(ck, repo, 'C19.H-dataflow-hygiene', 'C19')
    # cached and uncached calls agree: no cached value is read between a raw write it depends on and the next flush (FLUSH dimension + stale reads)
    _run_protocol(ck, repo, 'C19.D4-first-call-equals-cached-call', only_dims={'FLUSH'})
    _r10_sh(ck, repo, 'C19.D6-shallow-copy-of-cached')
