# -*- coding: utf-8 -*-
"""C01 Canonical SMILES, equality and hash depend on structure only -- structural clauses."""
from ..r_canon import rule_hash_inputs, rule_order_free_hash, rule_final_ranking, rule_eq_hash_wiring, rule_bfs_distance
from ..r_protocol import run_protocol
from ..r_alias import rule_fix_stereo_exit, rule_no_mutation_of_cached
from ..r_construct import rule_seeded_string_complete as _rule_seeded
from ..r_hygiene import rule_hygiene as _rule_hygiene
from ..r_canon import rule_closure_order_consumers as _rule_closure_order
from ..r_stereo import rule_pair_key_symmetry as _rule_pair_key
from ..r_codebooks import rule_allene_reference_choice as _rule_allene_ref
from ..r_round9 import rule_morgan_seed_fields as _r9_seed

LEVEL = 'other'
REFINE = ['chython.algorithms.morgan:_morgan']


def run(ck, repo):
    ck.assumptions += ['allow-list of structure-only integer attributes in sa/r_canon.py (INT_ATTRS / OPT_INT_ATTRS)']
    ck.undecided += ['that the DFS writer resolves all remaining ties identically for every numbering (graph automorphisms), the two '
                     'documented heuristic gaps, agreement with another toolkit: quantify over graphs; no structural necessary condition beyond these exists']
    rule_eq_hash_wiring(ck, repo, 'C01.D1-eq-hash-wiring')
    n = rule_order_free_hash(ck, repo, 'C01.D2-order-free-refinement', REFINE)
    ck.require(n >= 1, 'no dictionary iteration inside hash() found in _morgan (anchor changed)')
    rule_final_ranking(ck, repo, 'C01.D2-final-ranking')
    rule_hash_inputs(ck, repo, 'C01.D3-hash-inputs')
    # D4: every mutation invalidates the cached string / orders (FLUSH dimension of the mutator protocol)
    run_protocol(ck, repo, 'C01.D4-flush', only_dims={'FLUSH', 'KEEP'})
    # the stereo-aware ranks the writer uses are dropped whenever labels change, and the cached ranks are never edited in place
    rule_fix_stereo_exit(ck, repo, 'C01.D4-stereo-ranks-dropped')
    rule_no_mutation_of_cached(ck, repo, 'C01.D4-cached-ranks-not-mutated')
    rule_bfs_distance(ck, repo, 'C01.D2-bfs-distance', lambda f: f.module.name == 'chython.algorithms.smiles', floor=2)
    _rule_seeded(ck, repo, 'C01.D1-seeded-string')
    _rule_hygiene(ck, repo, 'C01.H-dataflow-hygiene', 'C01')
    _rule_closure_order(ck, repo, 'C01.D3-closure-order')
    _rule_pair_key(ck, repo, 'C01.D6-pair-key-symmetry')
    _rule_allene_ref(ck, repo, 'C01.D3-allene-reference')
    _r9_seed(ck, repo, 'C01.D6-morgan-seed-fields')
