# -*- coding: utf-8 -*-
"""
C18 Periodic table data are complete and mutually consistent.
All obligations are over literals: 118 elements x tables. Finite, enumerated completely.
"""
import ast
from ..core import AnalysisError
from ..model import ClassInfo, walk_no_nested
from ..tables import (ElementTable, STANDARD_SYMBOLS, STANDARD_GROUP, STANDARD_PERIOD, ROMAN, compile_valence_rules,
                      pyx_source, pyx_list_assign, pyx_decl_len, pyx_import_names)
from ..bits import matcher_layout, charge_bounds
from ..r_hygiene import rule_hygiene as _rule_hygiene
from ..r_query import rule_isotope_setter as _rule_iso_setter
from ..r_round8 import rule_class_cache_reads_no_instance_state as _r8_cc
from ..r_round9 import rule_strip_charset as _r9_strip

LEVEL = 'proof'
PACK = 'chython/containers/_pack_v2.pyx'
UNPACK = 'chython/containers/_unpack_v0v2.pyx'


def run(ck, repo):
    ck.assumptions += [
        'the standard periodic table (118 IUPAC symbols, groups, periods) frozen in sa/tables.py is the oracle for '
        'symbol/number agreement',
        'element tables are `return <literal>` property bodies (anything else is ANALYSIS-ERROR)',
        '"contain the reference isotope" is decided as: every tabulated isotope lies in the pack and matcher windows '
        'anchored at mdl_isotope (see DESIGN.md C18); literal membership of mdl_isotope is reported as a note only',
    ]
    ck.undecided += ['whether tabulated abundances/masses/radii are physically right beyond the sanity windows '
                     '(|mass - A| <= 0.3, abundances in [0,1] summing to 1 +- 1e-3)']
    t = ElementTable(repo)
    rows = t.rows
    ck.count('element classes', len(rows))
    element = t.element
    loc = lambda sym, p: dict(file=rows[sym]['class'].file, line=rows[sym].get('lines', {}).get(p, rows[sym]['class'].node.lineno),
                              func=f'{sym}.{p}')

    # 1. bijection with the standard table ---------------------------------------------------------------------
    ck.rule('C18.1-bijection', 'class names <-> atomic numbers is a bijection onto 1..118 equal to the standard table; '
                               'every element class is a *direct* subclass of Element (from_symbol/from_atomic_number '
                               'enumerate Element.__subclasses__()); group/period mixins equal the standard table')
    bn = t.by_number()
    for z in range(1, 119):
        std = STANDARD_SYMBOLS[z - 1]
        got = bn.get(z, [])
        ck.decide(got == [std], 'C18.1-bijection', f'Z={z}', f'{std}',
                  f'atomic number {z} is carried by {got or "no class"}, standard table says {std}',
                  **(loc(got[0], 'atomic_number') if got and got[0] in rows else {}))
    for sym in rows:
        if sym not in STANDARD_SYMBOLS:
            ck.bad('C18.1-bijection', f'class={sym}', f'element class {sym} is not a symbol of the standard table',
                   file=rows[sym]['class'].file, line=rows[sym]['class'].node.lineno)
        z = rows[sym]['atomic_number']
        if not isinstance(z, int) or not 1 <= z <= 118:
            ck.bad('C18.1-bijection', f'class={sym}:range', f'{sym}.atomic_number = {z!r} outside 1..118', **loc(sym, 'atomic_number'))
    for sym in STANDARD_SYMBOLS:
        if sym not in rows:
            continue
        g = [b for b in rows[sym]['bases'] if b.startswith('Group')]
        p = [b for b in rows[sym]['bases'] if b.startswith('Period')]
        ck.decide(g == ['Group' + ROMAN[STANDARD_GROUP[sym]]], 'C18.1-bijection', f'group:{sym}', g,
                  f'{sym} derives from {g}, standard group is Group{ROMAN[STANDARD_GROUP[sym]]} '
                  f'(AnyMetal and the matcher masks classify elements by group)', file=rows[sym]['class'].file,
                  line=rows[sym]['class'].node.lineno)
        ck.decide(p == ['Period' + ROMAN[STANDARD_PERIOD[sym]]], 'C18.1-bijection', f'period:{sym}', p,
                  f'{sym} derives from {p}, standard period is Period{ROMAN[STANDARD_PERIOD[sym]]}',
                  file=rows[sym]['class'].file, line=rows[sym]['class'].node.lineno)
    # indirect subclasses of Element inside group modules would be invisible to __subclasses__()
    for m in repo.modules.values():
        if m.name.startswith('chython.periodictable.group'):
            for c in m.classes.values():
                if c.name not in rows and element in repo.mro(c):
                    ck.bad('C18.1-bijection', f'indirect:{c.name}', f'{c.name} is an indirect subclass of Element: '
                           f'invisible to Element.__subclasses__() lookups', file=c.file, line=c.node.lineno)
    # the lookups themselves
    fs = repo.func('chython.periodictable.base.element:Element.from_symbol')
    fn = repo.func('chython.periodictable.base.element:Element.from_atomic_number')
    src_s, src_n = ast.unparse(fs.node), ast.unparse(fn.node)
    ck.decide('Element.__subclasses__()' in src_s and 'x.__name__ == symbol' in src_s.replace('symbol == x.__name__', 'x.__name__ == symbol'),
              'C18.1-bijection', 'from_symbol', 'enumerates Element.__subclasses__() by __name__',
              'from_symbol no longer selects the subclass whose __name__ equals the symbol', file=fs.file, line=fs.lineno)
    ck.decide('Element.__subclasses__()' in src_n and 'atomic_number' in src_n, 'C18.1-bijection', 'from_atomic_number',
              'enumerates Element.__subclasses__() by atomic_number',
              'from_atomic_number no longer keys Element.__subclasses__() by atomic_number', file=fn.file, line=fn.lineno)

    # 2. isotope tables ---------------------------------------------------------------------------------------------
    ck.rule('C18.2-isotopes', 'keys(isotopes_distribution) == keys(isotopes_masses), non-empty int keys, abundances in '
                              '[0,1] summing to 1+-1e-3 when any is non-zero, |mass - A| <= 0.3 => atomic_mass is '
                              'computable for isotope=None and every tabulated isotope')
    for sym, row in rows.items():
        d, m = row['isotopes_distribution'], row['isotopes_masses']
        if not isinstance(d, dict) or not isinstance(m, dict):
            ck.bad('C18.2-isotopes', f'{sym}:type', f'{sym}: isotope tables are not dicts', **loc(sym, 'isotopes_distribution'))
            continue
        ck.decide(set(d) == set(m) and d, 'C18.2-isotopes', f'{sym}:keys', sorted(d),
                  f'{sym}: isotopes_distribution keys {sorted(d)} != isotopes_masses keys {sorted(m)} '
                  f'(atomic_mass raises KeyError)', **loc(sym, 'isotopes_distribution'))
        okv = all(isinstance(k, int) and not isinstance(k, bool) and k > 0 for k in list(d) + list(m)) and \
            all(isinstance(v, (int, float)) and 0 <= v <= 1 for v in d.values())
        tot = sum(d.values()) if okv else None
        ck.decide(okv and (tot == 0 or abs(tot - 1) <= 1e-3), 'C18.2-isotopes', f'{sym}:abundance', tot,
                  f'{sym}: abundances {d} are not a distribution (sum {tot})', **loc(sym, 'isotopes_distribution'))
        badm = [(i, x) for i, x in m.items() if not isinstance(x, (int, float)) or abs(x - i) > 0.3]
        ck.decide(not badm, 'C18.2-isotopes', f'{sym}:mass', None, f'{sym}: isotope masses far from mass number: {badm}',
                  **loc(sym, 'isotopes_masses'))
        r = row['atomic_radius']
        ck.decide(isinstance(r, (int, float)) and r > 0, 'C18.2-isotopes', f'{sym}:radius', r,
                  f'{sym}: atomic_radius {r!r} is not a positive number', **loc(sym, 'atomic_radius'))

    # 3. representability -------------------------------------------------------------------------------------------
    ck.rule('C18.3-representable', 'every tabulated isotope lies in the pack window (offset 1..31 from mdl_isotope-16) '
                                   'and the matcher window (derived from the encoder shift expression); charge -4..4, '
                                   'hydrogen counts producible by the valence tables and atomic numbers 1..118 fit '
                                   'the bit fields of both encoders')
    lay = matcher_layout(repo)
    iso_lo, iso_hi = lay['isotope_window']
    ck.note(f'matcher isotope window derived from encoder: {iso_lo}..{iso_hi}; H field 0..{lay["h_max"]}; '
            f'charge field {lay["charge_window"]}')
    nonmember = []
    for sym, row in rows.items():
        mi = row['mdl_isotope']
        if not isinstance(mi, int):
            ck.bad('C18.3-representable', f'{sym}:mdl', f'{sym}.mdl_isotope = {mi!r} is not an int', **loc(sym, 'mdl_isotope'))
            continue
        d = row['isotopes_distribution']
        if isinstance(d, dict):
            if mi not in d:
                nonmember.append(sym)
            for i in d:
                if not isinstance(i, int):
                    continue
                ck.decide(1 <= i - (mi - 16) <= 31, 'C18.3-representable', f'{sym}:{i}:pack', i - mi,
                          f'{sym} isotope {i}: pack offset {i - (mi - 16)} outside the 5-bit field 1..31 '
                          f'(mdl_isotope {mi})', **loc(sym, 'isotopes_distribution'))
                ck.decide(iso_lo <= i - mi <= iso_hi, 'C18.3-representable', f'{sym}:{i}:matcher', i - mi,
                          f'{sym} isotope {i}: matcher offset {i - mi} outside {iso_lo}..{iso_hi} (mdl_isotope {mi})',
                          **loc(sym, 'isotopes_distribution'))
    ck.note(f'observation (not armed, see DESIGN.md C18): mdl_isotope is not a tabulated nuclide for {sorted(nonmember)}')
    cs = repo.func('chython.periodictable.base.element:Element.charge')
    setter = repo.cls('chython.periodictable.base.element:Element').method('charge', setter=True)
    ck.require(setter is not None, 'Element.charge setter vanished')
    bounds = charge_bounds(setter)
    ck.decide(bounds is not None and lay['charge_window'][0] <= bounds[0] and bounds[1] <= lay['charge_window'][1]
              and bounds[0] >= -4 and bounds[1] <= 11,
              'C18.3-representable', 'charge-range', bounds,
              f'charge setter admits {bounds}, matcher field holds {lay["charge_window"]}, pack field holds -4..11',
              file=setter.file, line=setter.lineno, func=setter.qualname)
    # the documented charge domain itself: every formal charge -4..+4 is constructible (and nothing outside it), for atoms and for query atoms alike
    ck.decide(bounds == (-4, 4), 'C18.3-representable', 'charge-domain', bounds,
              f'Element.charge admits {bounds}; the documented domain (error message, pack and matcher layouts) is -4..+4: charges outside the admitted '
              f'interval cannot be constructed at all', file=setter.file, line=setter.lineno, func=setter.qualname)
    qsetter = None
    qm = repo.module('chython.periodictable.base.query')
    for qc in (qm.classes.values() if qm else ()):
        g_ = qc.method('charge', setter=True)
        if g_ is not None:
            qsetter = g_
    if qsetter is not None:
        qb = charge_bounds(qsetter)
        ck.decide(qb == bounds, 'C18.3-representable', 'charge-domain:query==atom', qb,
                  f'query atoms admit charges {qb}, atoms {bounds}: a charge constructible on one side cannot be expressed on the other', file=qsetter.file, line=qsetter.lineno,
                  func=qsetter.qualname)
    numbers = {s: r['atomic_number'] for s, r in rows.items()}
    maxh = 0
    who = None
    for sym, row in rows.items():
        rules, problems = compile_valence_rules(row, numbers)
        for k, v in rules.items():
            for _, _, h in v:
                if h > maxh:
                    maxh, who = h, (sym, k)
    ck.decide(maxh <= lay['h_max'] and maxh <= 6, 'C18.3-representable', 'hydrogens-max', f'{maxh} by {who}',
              f'valence tables can yield {maxh} implicit hydrogens ({who}); matcher field holds 0..{lay["h_max"]}, '
              f'pack field 0..6')
    # SMILES reader accepts H, H2.. up to what?
    from ..codebooks import smiles_h_max
    hmax_smi = smiles_h_max(repo)
    ck.decide(maxh <= hmax_smi, 'C18.3-representable', 'hydrogens-smiles', hmax_smi,
              f'valence tables can yield {maxh} implicit hydrogens but the SMILES atom regex accepts at most H{hmax_smi}')
    for z in range(1, 119):
        pos = lay['element_bit'](z)
        ck.decide(pos is not None, 'C18.3-representable', f'Z={z}:bit', pos, f'atomic number {z} has no bit in the matcher layout')
    coll = lay['element_collisions']
    ck.decide(coll == [[116, 117, 118]], 'C18.3-representable', 'element-collisions', coll,
              f'elements sharing a matcher bit: {coll}; only the documented Lv/Ts/Og fold is expected')

    # 4. duplicated tables -------------------------------------------------------------------------------------------
    ck.rule('C18.4-duplicates', 'common_isotopes in both .pyx have 119 entries, are equal, and equal mdl_isotope(Z)-16; '
                                'the unpacker elements list and import list are the 118 classes in atomic-number order')
    psrc = pyx_source(repo.root, PACK)
    usrc = pyx_source(repo.root, UNPACK)
    a = pyx_list_assign(psrc, 'common_isotopes')
    b = pyx_list_assign(usrc, 'common_isotopes')
    ck.decide(len(a) == 119 and pyx_decl_len(psrc, 'common_isotopes') == 119, 'C18.4-duplicates', 'pack:len', len(a),
              f'_pack_v2.pyx common_isotopes has {len(a)} entries / declared {pyx_decl_len(psrc, "common_isotopes")}, expected 119', file=PACK)
    ck.decide(len(b) == 119 and pyx_decl_len(usrc, 'common_isotopes') == 119, 'C18.4-duplicates', 'unpack:len', len(b),
              f'_unpack_v0v2.pyx common_isotopes has {len(b)} entries / declared {pyx_decl_len(usrc, "common_isotopes")}, expected 119', file=UNPACK)
    for z in range(1, 119):
        syms = bn.get(z, [])
        if len(syms) != 1:
            continue
        mi = rows[syms[0]]['mdl_isotope']
        va = a[z] if z < len(a) else None
        vb = b[z] if z < len(b) else None
        ck.decide(isinstance(mi, int) and va == vb == mi - 16, 'C18.4-duplicates', f'Z={z}:common_isotope', va,
                  f'{syms[0]} (Z={z}): pack table {va}, unpack table {vb}, mdl_isotope-16 = {mi - 16 if isinstance(mi, int) else mi}',
                  file=rows[syms[0]]['class'].file, line=rows[syms[0]].get('lines', {}).get('mdl_isotope'))
    els = pyx_list_assign(usrc, 'elements', as_names=True)
    ck.decide(els == [None] + STANDARD_SYMBOLS, 'C18.4-duplicates', 'unpack:elements',
              None, f'_unpack_v0v2.pyx elements list is not [None] + the 118 symbols in atomic-number order '
                    f'(first difference at index {first_diff(els, [None] + STANDARD_SYMBOLS)})', file=UNPACK)
    imp = pyx_import_names(usrc, 'chython.periodictable')
    ck.decide(imp is not None and set(x for x in els if x) <= set(imp), 'C18.4-duplicates', 'unpack:imports', None,
              '_unpack_v0v2.pyx uses element names it does not import from chython.periodictable', file=UNPACK)

    # 5. valence tables compile ----------------------------------------------------------------------------------------
    ck.rule('C18.5-valence-compile', 'the data transform of Element._compiled_valence_rules, re-implemented over the '
                                     'literals, cannot raise: symbols resolve, rows are 4-tuples, _common_valences non-empty')
    nrows = 0
    for sym, row in rows.items():
        cv, ve = row['_common_valences'], row['_valences_exceptions']
        shape = isinstance(cv, tuple) and len(cv) > 0 and all(isinstance(x, int) and not isinstance(x, bool) and 0 <= x <= 8 for x in cv) \
            and isinstance(ve, tuple)
        ck.decide(shape, 'C18.5-valence-compile', f'{sym}:common', cv, f'{sym}._common_valences {cv!r} is not a non-empty tuple of ints 0..8',
                  **loc(sym, '_common_valences'))
        if not isinstance(ve, tuple):
            continue
        rules, problems = compile_valence_rules(row, numbers)
        bad_rows = []
        for ex in ve:
            nrows += 1
            ok = isinstance(ex, tuple) and len(ex) == 4 and isinstance(ex[0], int) and -4 <= ex[0] <= 4 and \
                isinstance(ex[1], bool) and isinstance(ex[2], int) and not isinstance(ex[2], bool) and 0 <= ex[2] <= 6 and \
                isinstance(ex[3], tuple) and all(isinstance(e, tuple) and len(e) == 2 and e[0] in (1, 2, 3) and isinstance(e[1], str) for e in ex[3])
            if not ok:
                bad_rows.append(ex)
        ck.decide(not problems and not bad_rows, 'C18.5-valence-compile', f'{sym}:exceptions', len(ve),
                  f'{sym}._valences_exceptions: {problems + [f"ill-shaped row {x!r}" for x in bad_rows]}',
                  **loc(sym, '_valences_exceptions'))
    ck.count('valence exception rows', nrows)
    ck.floor('C18.5-valence-compile', 236)
    ck.require(nrows >= 600, f'only {nrows} valence exception rows found (711 on the pinned tree)')

    # 6. generated Dynamic*/Query* classes --------------------------------------------------------------------------
    ck.rule('C18.6-generated', 'the type(...) loops in periodictable/__init__.py iterate all element classes and copy '
                               'atomic_number (and mdl_isotope for queries) from the same class')
    init = repo.module('chython.periodictable')
    loops = []
    for st in init.tree.body:
        if isinstance(st, ast.For):
            for n in ast.walk(st):
                if isinstance(n, ast.Call) and isinstance(n.func, ast.Name) and n.func.id == 'type' and len(n.args) == 3:
                    loops.append((st, n))
    ck.require(len(loops) >= 2, 'type(...) generation loops of periodictable/__init__.py vanished')
    seen_kinds = set()
    for st, call in loops:
        base = ast.unparse(call.args[1])
        kind = 'Dynamic' if 'DynamicElement' in base else 'Query' if 'QueryElement' in base else base
        seen_kinds.add(kind)
        it = ast.unparse(st.iter)
        tgt = ast.unparse(st.target)
        ck.decide(it == 'elements.items()' and tgt == '(k, v)', 'C18.6-generated', f'{kind}:iter', it,
                  f'{kind} loop iterates {it} as {tgt}, expected elements.items() as (k, v)', file=init.relpath, line=st.lineno)
        ns = call.args[2]
        d = {}
        if isinstance(ns, ast.Dict):
            for k, v in zip(ns.keys, ns.values):
                if isinstance(k, ast.Constant):
                    d[k.value] = ast.unparse(v)
        need = {'atomic_number': 'v.atomic_number'}
        if kind == 'Query':
            need['mdl_isotope'] = 'v.mdl_isotope'
        for k, v in need.items():
            ck.decide(d.get(k) == v, 'C18.6-generated', f'{kind}:{k}', d.get(k),
                      f'{kind}<X>.{k} is bound to {d.get(k)!r}, expected {v}', file=init.relpath, line=call.lineno)
        nm = None
        for s in st.body:
            if isinstance(s, ast.Assign) and isinstance(s.targets[0], ast.Name) and s.targets[0].id == 'name':
                nm = ast.unparse(s.value)
        ck.decide(nm == f"f'{kind}{{k}}'", 'C18.6-generated', f'{kind}:name', nm, f'{kind} loop names classes {nm}',
                  file=init.relpath, line=st.lineno)
    ck.decide(seen_kinds >= {'Dynamic', 'Query'}, 'C18.6-generated', 'kinds', sorted(seen_kinds),
              f'generation loops cover {sorted(seen_kinds)}, expected Dynamic and Query', file=init.relpath)
    el = init.assigns.get('elements')
    ck.decide(el is not None and 'issubclass(v, Element)' in ast.unparse(el) and "k != 'Element'" in ast.unparse(el),
              'C18.6-generated', 'elements-dict', None, 'periodictable.elements is no longer "every subclass of Element in globals()"',
              file=init.relpath)
    # every group module is star-imported so that its classes are in globals()
    mods = {m.name for m in repo.modules.values() if m.name.startswith('chython.periodictable.group')}
    ck.decide(mods <= set(init.stars), 'C18.6-generated', 'star-imports', len(mods),
              f'group modules not star-imported by periodictable/__init__.py: {sorted(mods - set(init.stars))}', file=init.relpath)
    for mn in sorted(mods):
        m = repo.module(mn)
        mine = {c for c in m.classes if c in rows}
        ck.decide(m.all is not None and mine <= set(m.all), 'C18.6-generated', f'__all__:{mn.rsplit(".", 1)[1]}', len(mine),
                  f'{mn}.__all__ omits element classes {sorted(mine - set(m.all or ()))} (not exported -> no Dynamic/Query twin, '
                  f'not importable by the unpacker)', file=m.relpath)

    ck.floor('C18.1-bijection', 118 * 3)
    ck.floor('C18.2-isotopes', 118 * 4)
    ck.floor('C18.3-representable', 400)
    ck.floor('C18.4-duplicates', 118)
    _rule_hygiene(ck, repo, 'C18.H-dataflow-hygiene', 'C18')
    _rule_iso_setter(ck, repo, 'C18.3-isotope-setter')
    _r8_cc(ck, repo, 'C18.D5-class-cache-scope')
    _r9_strip(ck, repo, 'C18.D6-strip-charset')


def first_diff(a, b):
    for i, (x, y) in enumerate(zip(a, b)):
        if x != y:
            return i
    return min(len(a), len(b))


def duplicate_tables(ck, repo, R):
    """C10-D1: both common_isotopes tables equal, 119 long, equal mdl_isotope - 16; elements list in order"""
    ck.rule(R, 'common_isotopes in both .pyx have 119 entries, are equal, and equal mdl_isotope(Z)-16; the unpacker elements list and import list are the 118 classes in atomic-number order')
    t = ElementTable(repo)
    bn = t.by_number()
    psrc = pyx_source(repo.root, PACK)
    usrc = pyx_source(repo.root, UNPACK)
    a = pyx_list_assign(psrc, 'common_isotopes')
    b = pyx_list_assign(usrc, 'common_isotopes')
    ck.decide(len(a) == len(b) == 119 and pyx_decl_len(psrc, 'common_isotopes') == pyx_decl_len(usrc, 'common_isotopes') == 119, R, 'len', (len(a), len(b)),
              f'common_isotopes tables have {len(a)} / {len(b)} entries (declared {pyx_decl_len(psrc, "common_isotopes")} / {pyx_decl_len(usrc, "common_isotopes")}), expected 119', file=PACK)
    for z in range(1, 119):
        syms = bn.get(z, [])
        if len(syms) != 1:
            ck.bad(R, f'Z={z}', f'atomic number {z} carried by {syms}')
            continue
        mi = t.rows[syms[0]]['mdl_isotope']
        va = a[z] if z < len(a) else None
        vb = b[z] if z < len(b) else None
        ck.decide(isinstance(mi, int) and va == vb == mi - 16, R, f'Z={z}', va, f'{syms[0]} (Z={z}): pack table {va}, unpack table {vb}, mdl_isotope-16 = {mi - 16 if isinstance(mi, int) else mi}',
                  file=t.rows[syms[0]]['class'].file, line=t.rows[syms[0]].get('lines', {}).get('mdl_isotope'))
    els = pyx_list_assign(usrc, 'elements', as_names=True)
    ck.decide(els == [None] + STANDARD_SYMBOLS, R, 'elements', None, f'unpacker elements list differs from the periodic order at index {first_diff(els, [None] + STANDARD_SYMBOLS)}', file=UNPACK)
    imp = pyx_import_names(usrc, 'chython.periodictable')
    ck.decide(imp is not None and set(x for x in els if x) <= set(imp), R, 'imports', None, 'unpacker uses element names it does not import', file=UNPACK)
    ck.decide('common_isotopes[atomic_number]' in psrc and 'common_isotopes[atomic_number] + isotope' in usrc, R, 'use', None,
              'isotope offset is no longer computed against common_isotopes[atomic_number] on both sides', file=PACK)
    ck.floor(R, 118)


def isotope_windows(ck, repo, R):
    ck.rule(R, 'every tabulated isotope offset (isotope - (mdl_isotope - 16)) fits the 5-bit field 1..31 (0 = unspecified); charges admitted by the setter '
               'fit the 4-bit charge + 4 field; the largest hydrogen count of the valence tables fits 0..6 (7 = unknown)')
    t = ElementTable(repo)
    n = 0
    for sym, row in t.rows.items():
        mi = row['mdl_isotope']
        for i in row['isotopes_distribution']:
            n += 1
            ck.decide(isinstance(mi, int) and 1 <= i - (mi - 16) <= 31, R, f'{sym}:{i}', None, f'{sym} isotope {i}: offset {i - (mi - 16) if isinstance(mi, int) else "?"} outside 1..31',
                      file=row['class'].file, line=row.get('lines', {}).get('isotopes_distribution'))
    setter = repo.cls('chython.periodictable.base.element:Element').method('charge', setter=True)
    cb = charge_bounds(setter)
    ck.decide(cb is not None and 0 <= cb[0] + 4 and cb[1] + 4 <= 15, R, 'charge', cb, f'charge range {cb} + 4 does not fit 4 bits', file=setter.file, line=setter.lineno)
    ck.decide(cb == (-4, 4), R, 'charge-domain', cb, f'Element.charge admits {cb}; the pack format documents charges -4..+4 (stored as charge + 4): the admitted interval must be exactly that', file=setter.file, line=setter.lineno)
    numbers = {s: r['atomic_number'] for s, r in t.rows.items()}
    maxh = 0
    for row in t.rows.values():
        rules, _ = compile_valence_rules(row, numbers)
        for v in rules.values():
            for _, _, h in v:
                maxh = max(maxh, h)
    ck.decide(maxh <= 6, R, 'hydrogens', maxh, f'valence tables can produce {maxh} implicit hydrogens; the 3-bit field holds 0..6 (7 = unknown)')
    ck.require(n >= 380, f'only {n} tabulated isotopes seen')
