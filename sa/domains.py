# -*- coding: utf-8 -*-
"""
Domain typing: a small flow-sensitive type inference over *index domains* (query-atom number Q, molecule-atom number M,
element symbol SYM, atomic number Z, bond order ORD ...). Functions of the repo get seed declarations for their inputs; the
walker propagates types through tuples, dict/set/list operations, comprehensions, loops and subscripts and reports a
violation only when two *known, different* domains meet (set operation, membership, dict key, equality, count/index).
Anything it does not understand becomes "unknown" and is never reported: the rule is an under-approximation by design.
"""
import ast
from .core import AnalysisError
from .astutil import src


class T:
    pass


class Dom(T):
    def __init__(self, name):
        self.name = name

    def __repr__(self):
        return self.name


class Tup(T):
    def __init__(self, *elts):
        self.elts = list(elts)

    def __repr__(self):
        return '(' + ', '.join(map(repr, self.elts)) + ')'


class Coll(T):
    def __init__(self, elem=None):
        self.elem = elem

    def __repr__(self):
        return f'Coll[{self.elem!r}]'


class Map(T):
    def __init__(self, key=None, val=None):
        self.key = key
        self.val = val

    def __repr__(self):
        return f'Map[{self.key!r} -> {self.val!r}]'


ANY = None  # unknown / compatible with everything
TRACKED = {'Q', 'M', 'SYM', 'Z'}


def Q():
    return Dom('Q')


def M():
    return Dom('M')


class Mismatch(Exception):
    def __init__(self, a, b):
        self.a, self.b = a, b


def unify(a, b):
    """most specific common type; raises Mismatch when two known tracked domains differ"""
    if a is None:
        return b
    if b is None:
        return a
    if isinstance(a, Dom) and isinstance(b, Dom):
        if a.name == b.name:
            return a
        if a.name in TRACKED and b.name in TRACKED:
            raise Mismatch(a, b)
        return a if a.name in TRACKED else b
    if isinstance(a, Tup) and isinstance(b, Tup):
        if len(a.elts) != len(b.elts):
            return a
        return Tup(*[unify(x, y) for x, y in zip(a.elts, b.elts)])
    if isinstance(a, Coll) and isinstance(b, Coll):
        e = unify(a.elem, b.elem)
        a.elem = b.elem = e
        return a
    if isinstance(a, Map) and isinstance(b, Map):
        a.key = b.key = unify(a.key, b.key)
        a.val = b.val = unify(a.val, b.val)
        return a
    if isinstance(a, Dom) and isinstance(b, Tup) or isinstance(a, Tup) and isinstance(b, Dom):
        da = a if isinstance(a, Dom) else b
        if da.name in TRACKED:
            raise Mismatch(a, b)
    return a


def elem_of(t):
    if isinstance(t, Coll):
        return t.elem
    if isinstance(t, Map):
        return t.key
    if isinstance(t, Tup):
        out = None
        try:
            for e in t.elts:
                out = unify(out, e)
        except Mismatch:
            return None
        return out
    return None


SET_OPS = {'update', 'difference', 'intersection', 'union', 'issubset', 'issuperset', 'isdisjoint', 'difference_update', 'intersection_update',
           'symmetric_difference', 'symmetric_difference_update', 'extend'}
ELEM_OPS = {'add', 'append', 'count', 'index', 'remove', 'discard', 'appendleft'}


class Walker:
    def __init__(self, func, env, attrs, report):
        self.func = func
        self.env = dict(env)
        self.attrs = attrs  # attribute name -> type factory (for x.<attr>)
        self.report = report

    def mismatch(self, node, what, m):
        self.report(node, f'{what}: `{src(node)[:90]}` combines {m.a!r} with {m.b!r}')

    def meet(self, node, what, a, b):
        try:
            return unify(a, b)
        except Mismatch as m:
            self.mismatch(node, what, m)
            return a

    # -- expressions ----------------------------------------------------------------------------------------------------
    def ty(self, n):
        if n is None:
            return None
        if isinstance(n, ast.Name):
            return self.env.get(n.id)
        if isinstance(n, ast.Constant):
            return None
        if isinstance(n, ast.Tuple):
            return Tup(*[self.ty(e) for e in n.elts])
        if isinstance(n, (ast.List, ast.Set)):
            c = Coll()
            for e in n.elts:
                c.elem = self.meet(n, 'display', c.elem, self.ty(e))
            return c
        if isinstance(n, ast.Dict):
            m = Map()
            for k, v in zip(n.keys, n.values):
                if k is not None:
                    m.key = self.meet(n, 'dict display', m.key, self.ty(k))
                    m.val = self.meet(n, 'dict display', m.val, self.ty(v))
            return m
        if isinstance(n, ast.Attribute):
            base = self.ty(n.value)
            f = self.attrs.get(n.attr)
            if f is not None:
                return f()
            return None
        if isinstance(n, ast.Subscript):
            base = self.ty(n.value)
            if isinstance(n.slice, ast.Slice):
                return base
            idx = self.ty(n.slice)
            if isinstance(base, Map):
                if not isinstance(n.slice, ast.Constant):
                    self.meet(n, 'dictionary key', base.key, idx)
                return base.val
            if isinstance(base, Tup) and isinstance(n.slice, ast.Constant) and isinstance(n.slice.value, int) and -len(base.elts) <= n.slice.value < len(base.elts):
                return base.elts[n.slice.value]
            if isinstance(base, Coll):
                return base.elem
            return None
        if isinstance(n, ast.NamedExpr):
            t = self.ty(n.value)
            self.bind(n.target, t)
            return t
        if isinstance(n, ast.IfExp):
            self.ty(n.test)
            a, b = self.ty(n.body), self.ty(n.orelse)
            try:
                return unify(a, b)
            except Mismatch:
                return None
        if isinstance(n, ast.BoolOp):
            ts = [self.ty(v) for v in n.values]
            return ts[0] if ts else None
        if isinstance(n, ast.UnaryOp):
            self.ty(n.operand)
            return None
        if isinstance(n, ast.BinOp):
            a, b = self.ty(n.left), self.ty(n.right)
            if isinstance(n.op, (ast.Sub, ast.BitAnd, ast.BitOr, ast.BitXor)) and isinstance(a, (Coll, Map)) and isinstance(b, (Coll, Map)):
                e = self.meet(n, 'set operation', elem_of(a), elem_of(b))
                return Coll(e)
            return None
        if isinstance(n, ast.Compare):
            left = self.ty(n.left)
            for op, c in zip(n.ops, n.comparators):
                right = self.ty(c)
                if isinstance(op, (ast.In, ast.NotIn)):
                    if isinstance(right, (Coll, Map, Tup)):
                        self.meet(n, 'membership test', left, elem_of(right))
                elif isinstance(op, (ast.Eq, ast.NotEq)):
                    if isinstance(left, (Dom, Tup)) and isinstance(right, (Dom, Tup)):
                        self.meet(n, 'comparison', left, right)
                    elif isinstance(left, Coll) and isinstance(right, Coll):
                        self.meet(n, 'comparison', left.elem, right.elem)
                left = right
            return None
        if isinstance(n, (ast.ListComp, ast.SetComp, ast.GeneratorExp)):
            saved = dict(self.env)
            for g in n.generators:
                self.bind(g.target, elem_of(self.ty(g.iter)))
                for i in g.ifs:
                    self.ty(i)
            t = Coll(self.ty(n.elt))
            self.env = saved
            return t
        if isinstance(n, ast.DictComp):
            saved = dict(self.env)
            for g in n.generators:
                self.bind(g.target, elem_of(self.ty(g.iter)))
                for i in g.ifs:
                    self.ty(i)
            t = Map(self.ty(n.key), self.ty(n.value))
            self.env = saved
            return t
        if isinstance(n, ast.Call):
            return self.call(n)
        if isinstance(n, ast.Starred):
            return self.ty(n.value)
        for ch in ast.iter_child_nodes(n):
            self.ty(ch)
        return None

    def call(self, n):
        f = n.func
        args = [self.ty(a) for a in n.args]
        for k in n.keywords:
            self.ty(k.value)
        if isinstance(f, ast.Name):
            if f.id in ('set', 'list', 'tuple', 'sorted', 'frozenset', 'reversed', 'deque', 'iter'):
                if not args:
                    return Coll()
                return Coll(elem_of(args[0]))
            if f.id in ('dict', 'defaultdict'):
                if args and isinstance(args[0], Map):
                    return Map(args[0].key, args[0].val)
                return Map()
            if f.id == 'enumerate' and args:
                return Coll(Tup(None, elem_of(args[0])))
            if f.id == 'zip' and args:
                return Coll(Tup(*[elem_of(a) for a in args]))
            if f.id in ('next', 'min', 'max') and args:
                return elem_of(args[0])
            if f.id == 'len':
                return None
            return None
        if isinstance(f, ast.Attribute):
            base = self.ty(f.value)
            a = f.attr
            if isinstance(base, Map):
                if a == 'values':
                    return Coll(base.val)
                if a == 'keys':
                    return Coll(base.key)
                if a == 'items':
                    return Coll(Tup(base.key, base.val))
                if a in ('get', 'pop', 'setdefault') and args:
                    self.meet(n, 'dictionary key', base.key, args[0])
                    return base.val
                if a == 'copy':
                    return Map(base.key, base.val)
                if a == 'update' and args and isinstance(args[0], Map):
                    self.meet(n, 'dictionary update', base.key, args[0].key)
            if isinstance(base, (Coll, Map)):
                if a in SET_OPS and args:
                    for x in args:
                        if isinstance(x, (Coll, Map, Tup)):
                            e = self.meet(n, f'.{a}()', elem_of(base), elem_of(x))
                            if isinstance(base, Coll):
                                base.elem = e
                    return Coll(elem_of(base)) if a in ('difference', 'intersection', 'union', 'symmetric_difference') else None
                if a in ELEM_OPS and args:
                    e = self.meet(n, f'.{a}()', elem_of(base), args[0])
                    if isinstance(base, Coll):
                        base.elem = e
                    return None
                if a in ('pop', 'popleft') and isinstance(base, Coll):
                    return base.elem
                if a == 'copy':
                    return Coll(elem_of(base))
            if isinstance(base, Tup) and a in ('count', 'index') and args:
                self.meet(n, f'.{a}()', elem_of(base), args[0])
            return None
        return None

    # -- statements -----------------------------------------------------------------------------------------------------
    def bind(self, target, t):
        if isinstance(target, ast.Name):
            self.env[target.id] = t
        elif isinstance(target, (ast.Tuple, ast.List)):
            elts = target.elts
            if isinstance(t, Tup) and len(t.elts) == len(elts) and not any(isinstance(e, ast.Starred) for e in elts):
                for e, x in zip(elts, t.elts):
                    self.bind(e, x)
            else:
                for e in elts:
                    self.bind(e.value if isinstance(e, ast.Starred) else e, None)
        elif isinstance(target, ast.Subscript):
            base = self.ty(target.value)
            idx = self.ty(target.slice)
            if isinstance(base, Map):
                base.key = self.meet(target, 'dictionary key', base.key, idx)
                base.val = self.meet(target, 'dictionary value', base.val, t) if isinstance(t, (Dom, Tup)) or isinstance(base.val, (Dom, Tup)) else (base.val or t)
        elif isinstance(target, ast.Starred):
            self.bind(target.value, None)

    def walk(self, body):
        for st in body:
            self.stmt(st)

    def stmt(self, st):
        if isinstance(st, ast.Assign):
            t = self.ty(st.value)
            for tg in st.targets:
                self.bind(tg, t)
        elif isinstance(st, ast.AnnAssign):
            if st.value is not None:
                self.bind(st.target, self.ty(st.value))
        elif isinstance(st, ast.AugAssign):
            self.ty(st.value)
            if isinstance(st.target, ast.Subscript):
                base = self.ty(st.target.value)
                idx = self.ty(st.target.slice)
                if isinstance(base, Map):
                    base.key = self.meet(st.target, 'dictionary key', base.key, idx)
        elif isinstance(st, ast.For):
            self.bind(st.target, elem_of(self.ty(st.iter)))
            self.walk(st.body)
            self.walk(st.orelse)
        elif isinstance(st, ast.While):
            self.ty(st.test)
            self.walk(st.body)
            self.walk(st.orelse)
        elif isinstance(st, ast.If):
            self.ty(st.test)
            self.walk(st.body)
            self.walk(st.orelse)
        elif isinstance(st, ast.Try):
            self.walk(st.body)
            for h in st.handlers:
                self.walk(h.body)
            self.walk(st.orelse)
            self.walk(st.finalbody)
        elif isinstance(st, ast.With):
            self.walk(st.body)
        elif isinstance(st, (ast.Expr, ast.Return)):
            if st.value is not None:
                self.ty(st.value)
        elif isinstance(st, ast.Delete):
            for t in st.targets:
                self.ty(t)
