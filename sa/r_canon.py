# -*- coding: utf-8 -*-
"""
F-hash / F-sort / F-mask / wiring rules for C01, C17, C19.
"""
import ast
from .core import AnalysisError
from .astutil import expand_locals, src, strip_doc

# structure-only integer (or bool) attributes that may feed a refinement hash; Optional ones need `or 0`
INT_ATTRS = {'atomic_number', 'charge', 'p_charge', 'is_radical', 'p_is_radical', 'in_ring', 'neighbors', 'heteroatoms',
             'hybridization', 'explicit_hydrogens'}
OPT_INT_ATTRS = {'isotope', 'implicit_hydrogens', 'order', 'p_order'}
ALWAYS_INT = {('Bond', 'order')}  # Bond.order is a plain int (validated in __init__); DynamicBond orders may be None
FORBIDDEN = {'atomic_symbol': 'a string: str hashes change with PYTHONHASHSEED', 'x': 'a coordinate', 'y': 'a coordinate',
             'xy': 'a coordinate', '_xy': 'a coordinate', 'parsed_mapping': 'an atom number', '_parsed_mapping': 'an atom number',
             'stereo': 'stereo is refined separately (_chiral_morgan); None/bool mix'}
ORDER_FREE = {'sorted', 'min', 'max', 'sum', 'set', 'frozenset', 'len', 'any', 'all', 'Counter'}

HASH_SITES = [
    ('chython.periodictable.base.element:Element.__hash__', 'Element'),
    ('chython.containers.bonds:Bond.__hash__', 'Bond'),
    ('chython.containers.bonds:DynamicBond.__hash__', 'DynamicBond'),
    ('chython.periodictable.base.dynamic:DynamicElement.__hash__', 'DynamicElement'),
    ('chython.algorithms.fingerprints:Fingerprints._atom_identifiers', 'Element'),
    ('chython.algorithms.fingerprints:FingerprintsCGR._atom_identifiers', 'DynamicElement'),
]


def classify_hash_element(e, owner):
    """None if the tuple element is a structure-only int, else an explanation"""
    guard = False
    if isinstance(e, ast.BoolOp) and isinstance(e.op, ast.Or) and len(e.values) == 2 and isinstance(e.values[1], ast.Constant) and e.values[1].value == 0:
        guard = True
        e = e.values[0]
    if isinstance(e, ast.Constant) and isinstance(e.value, int):
        return None
    if isinstance(e, ast.Attribute) and isinstance(e.value, ast.Name):
        a = e.attr
        if a in FORBIDDEN:
            return f'{src(e)} is {FORBIDDEN[a]}'
        if a in INT_ATTRS or (owner, a) in ALWAYS_INT:
            return None
        if a in OPT_INT_ATTRS:
            return None if guard else f'{src(e)} may be None (hash(None) / mixed None-int tuples): guard it with `or 0`'
        return f'?{src(e)}'
    return f'?{src(e)}'


def rule_hash_inputs(ck, repo, R):
    ck.rule(R, 'the tuples hashed by Element/Bond/DynamicElement/DynamicBond.__hash__ and by the fingerprint atom identifiers '
               'contain only structure-only integer attributes (Optional ones guarded by `or 0`): no atom number, coordinate, '
               'string or object, so the refinement is independent of numbering and of PYTHONHASHSEED')
    for fq, owner in HASH_SITES:
        f = repo.func(fq)
        calls = [n for n in ast.walk(f.node) if isinstance(n, ast.Call) and isinstance(n.func, ast.Name) and n.func.id == 'hash']
        rets = [n for n in ast.walk(f.node) if isinstance(n, ast.Return) and n.value is not None]
        loc = dict(file=f.file, line=f.lineno, func=f.qualname)
        if not calls:
            # `return self.order`
            if len(rets) == 1:
                why = classify_hash_element(rets[0].value, owner)
                if why and why.startswith('?'):
                    raise AnalysisError(f'{fq}: returned hash value {src(rets[0].value)} not recognised')
                ck.decide(why is None, R, f'{f.qualname}:return', src(rets[0].value), f'{f.qualname} returns {why}', **loc)
                continue
            raise AnalysisError(f'{fq}: no hash(...) call and no single return')
        # names bound to atom numbers: first element of the target when iterating atoms()/items() of the atom mapping
        numbers = set()
        for comp in ast.walk(f.node):
            if isinstance(comp, ast.comprehension) and isinstance(comp.target, ast.Tuple) and comp.target.elts and \
                    isinstance(comp.target.elts[0], ast.Name) and ('atoms()' in src(comp.iter) or '_atoms.items()' in src(comp.iter)):
                numbers.add(comp.target.elts[0].id)
        for c in calls:
            arg = c.args[0] if c.args else None
            if isinstance(arg, ast.Tuple):
                for e in arg.elts:
                    if isinstance(e, ast.Name) and e.id in numbers:
                        ck.bad(R, f'{f.qualname}:{src(e)}', f'{f.qualname} hashes the atom number `{e.id}`: identifiers change under renumbering', **loc)
                        continue
                    why = classify_hash_element(e, owner)
                    if why and why.startswith('?'):
                        raise AnalysisError(f'{fq}: hashed tuple element {why[1:]} is not a recognised attribute form')
                    ck.decide(why is None, R, f'{f.qualname}:{src(e)}', None, f'{f.qualname} hashes {why}', **loc)
            elif isinstance(arg, ast.Name) and arg.id == 'self':
                ck.ok(R, f'{f.qualname}:hash(self)', 'delegates to __hash__')
            else:
                why = classify_hash_element(arg, owner) if arg is not None else '?nothing'
                if why and why.startswith('?'):
                    ck.bad(R, f'{f.qualname}:{src(arg)}', f'{f.qualname} hashes `{src(arg)}`, which is not a tuple of structure-only integers '
                                                           f'(a str/object hash depends on the interpreter hash seed)', **loc)
                else:
                    ck.decide(why is None, R, f'{f.qualname}:{src(arg)}', None, f'{f.qualname} hashes {why}', **loc)
    # Element.__eq__ with int compares the atomic number (used as `atom == C` everywhere)
    ck.floor(R, 20)


def rule_order_free_hash(ck, repo, R, funcs):
    from .astutil import single_defs
    ck.rule(R, 'inside every hash(...) of the refinement loops each value that iterates a neighbour dictionary (insertion order = '
               'edit history) passes through an order-insensitive aggregator (sorted/min/max/sum/set/frozenset) first')
    n = 0
    for fq in funcs:
        f = repo.func(fq)
        parents = {}
        for p in ast.walk(f.node):
            for c in ast.iter_child_nodes(p):
                parents[c] = p
        for call0 in ast.walk(f.node):
            if not (isinstance(call0, ast.Call) and isinstance(call0.func, ast.Name) and call0.func.id == 'hash'):
                continue
            call = expand_locals(call0, f.node)  # `env = sorted(...); hash((x, *env))` is the same shape as the nested form
            ast.copy_location(call, call0)
            for p in ast.walk(call):
                for c in ast.iter_child_nodes(p):
                    parents[c] = p
            for g in ast.walk(call):
                if not isinstance(g, (ast.GeneratorExp, ast.ListComp, ast.SetComp)):
                    continue
                for comp in g.generators:
                    it = comp.iter
                    dict_iter = isinstance(it, ast.Call) and isinstance(it.func, ast.Attribute) and it.func.attr in ('items', 'values', 'keys')
                    if not dict_iter:
                        continue
                    n += 1
                    # climb from the comprehension to the hash call looking for an aggregator
                    p = parents.get(g)
                    ok = isinstance(g, ast.SetComp)
                    while p is not None and p is not call:
                        if isinstance(p, ast.Call) and isinstance(p.func, ast.Name) and p.func.id in ORDER_FREE:
                            ok = True
                        p = parents.get(p)
                    ck.decide(ok, R, f'{f.qualname}:{src(it)}', 'sorted' if ok else None,
                              f'{f.qualname}: hash(...) consumes `{src(g)[:80]}` in dictionary insertion order: two numberings / build orders '
                              f'of one structure hash differently', file=f.file, line=call.lineno, func=f.qualname, construct=src(call)[:120])
            # a value consumed by hash() inside a refinement loop must not be precomputed, outside the loop, from a variable the loop rebinds each round
            # (`order = sorted(.., key=current identifiers)` hoisted out of the loop keeps the order of round 0: ties are then broken by position)
            loop = parents.get(call0)
            while loop is not None and not isinstance(loop, (ast.For, ast.While)):
                loop = parents.get(loop)
            if loop is not None:
                rebound = {t.id for a in ast.walk(loop) if isinstance(a, ast.Assign) for tt in a.targets for t in ast.walk(tt) if isinstance(t, ast.Name)}
                defs = single_defs(f.node)
                in_loop = {id(x) for x in ast.walk(loop)}
                for nm in {x.id for x in ast.walk(call0) if isinstance(x, ast.Name) and isinstance(x.ctx, ast.Load)}:
                    d = defs.get(nm)
                    if d is None or id(d) in in_loop:
                        continue
                    stale = sorted({x.id for x in ast.walk(d) if isinstance(x, ast.Name)} & rebound)
                    if stale:
                        n += 1
                        ck.bad(R, f'{f.qualname}:hoisted:{nm}', f'{f.qualname}: hash(...) inside the refinement loop consumes `{nm}`, computed once before the loop from {stale}, '
                                                              f'which the loop rebinds every round: the precomputed order / values belong to round 0, so later rounds combine neighbours in an '
                                                              f'order fixed by the first round (ties by position), not by the current identifiers',
                               file=f.file, line=call0.lineno, func=f.qualname, construct=f'{nm} = {src(d)[:100]}')
    ck.count(f'{R} dict iterations inside hash()', n)
    return n


def rule_final_ranking(ck, repo, R):
    ck.rule(R, '_morgan turns final hash values into class numbers by sorting on the hash and grouping on the same key')
    f = repo.func('chython.algorithms.morgan:_morgan')
    ret = [n for n in strip_doc(f.node.body) if isinstance(n, ast.Return)]
    ck.require(len(ret) == 1, '_morgan: single final return not found')
    gb = [c for c in ast.walk(f.node) if isinstance(c, ast.Call) and isinstance(c.func, ast.Name) and c.func.id == 'groupby']
    ck.require(len(gb) == 1, '_morgan: groupby ranking not found')
    g = expand_locals(gb[0], f.node)  # `ranked = sorted(...); groupby(ranked, ...)` is the same ranking
    srt = g.args[0] if g.args else None
    gkey = next((src(k.value) for k in g.keywords if k.arg == 'key'), None)
    ok = isinstance(srt, ast.Call) and isinstance(srt.func, ast.Name) and srt.func.id == 'sorted'
    skey = next((src(k.value) for k in srt.keywords if k.arg == 'key'), None) if ok else None
    ck.decide(ok and skey == gkey == 'itemgetter(1)', R, 'sort-key==group-key', (skey, gkey),
              f'_morgan ranks with sorted(key={skey}) but groups with key={gkey}: classes must be sorted and grouped by the hash value itself',
              file=f.file, line=ret[0].lineno, func=f.qualname)
    ck.decide(ok and src(srt.args[0]) == 'atoms.items()', R, 'ranks-final-hashes', src(srt.args[0]) if ok else None,
              '_morgan no longer ranks the final atoms.items()', file=f.file, line=ret[0].lineno)
    st = [k for k in g.args[1:]] + [k for k in ast.walk(ret[0]) if isinstance(k, ast.keyword) and k.arg == 'start']
    # atoms_order feeds hash(a) for atoms and hash(b) for bonds
    ao = repo.func('chython.algorithms.morgan:Morgan.atoms_order')
    s = src(ao.node)
    ck.decide('_morgan({n: hash(a) for n, a in self.atoms()}, self.int_adjacency)' in s, R, 'seed-invariants', None,
              'atoms_order no longer seeds the refinement with hash(atom) and the integer-coded adjacency', file=ao.file, line=ao.lineno)
    ia = repo.func('chython.algorithms.morgan:Morgan.int_adjacency')
    ck.decide('hash(b)' in src(ia.node), R, 'bond-invariants', None, 'int_adjacency no longer codes bonds by hash(bond)', file=ia.file, line=ia.lineno)


def rule_eq_hash_wiring(ck, repo, R):
    ck.rule(R, 'equality is equality of the canonical string and the hash is the hash of that string, for molecules/CGRs (Smiles) and reactions')
    for fq_cls, base in (('chython.algorithms.smiles:Smiles', 'Smiles'), ('chython.containers.reaction:ReactionContainer', 'ReactionContainer')):
        c = repo.cls(fq_cls)
        eq, hs, st = c.method('__eq__'), c.method('__hash__'), c.method('__str__')
        ck.require(eq is not None and hs is not None and st is not None, f'{c.name}.__eq__/__hash__/__str__ vanished')
        b = strip_doc(eq.node.body)
        ok = False
        if len(b) == 1 and isinstance(b[0], ast.Return) and isinstance(b[0].value, ast.BoolOp) and isinstance(b[0].value.op, ast.And):
            cs = {src(v) for v in b[0].value.values}
            ok = cs in ({f'isinstance(other, {base})', 'str(self) == str(other)'}, {f'isinstance(other, {base})', 'str(other) == str(self)'})
        ck.decide(ok, R, f'{c.name}.__eq__', src(b[0].value) if b and isinstance(b[0], ast.Return) else None,
                  f'{c.name}.__eq__ is no longer `isinstance(other, {base}) and str(self) == str(other)`', file=eq.file, line=eq.lineno, func=eq.qualname)
        b = strip_doc(hs.node.body)
        ok = len(b) == 1 and isinstance(b[0], ast.Return) and src(b[0].value) == 'hash(str(self))'
        ck.decide(ok, R, f'{c.name}.__hash__', None, f'{c.name}.__hash__ is no longer hash(str(self))', file=hs.file, line=hs.lineno, func=hs.qualname)
        ck.decide(st.cache_kind == 'cached_method' and hs.cache_kind == 'cached_method', R, f'{c.name}:cached', None,
                  f'{c.name}.__str__/__hash__ lost their @cached_method (keys of the flush protocol)', file=st.file, line=st.lineno)
    # the canonical string uses the chiral morgan order by default
    so = repo.func('chython.algorithms.smiles:MoleculeSmiles._smiles_order')
    s = src(so.node)
    ck.decide('self._chiral_morgan.__getitem__' in s and 'self.atoms_order.__getitem__' in s, R, '_smiles_order', None,
              '_smiles_order no longer returns the (chiral) morgan ranks', file=so.file, line=so.lineno)
    sm = repo.func('chython.algorithms.smiles:Smiles._smiles')
    txt = src(sm.node)
    ck.decide('min(atoms_set, key=mod_weights_start)' in txt and 'sorted(bonds[start], key=mod_weights)' in txt and 'sorted(front, key=mod_weights)' in txt,
              R, '_smiles:ordered-traversal', None, '_smiles no longer picks the start atom / orders neighbours by the weight keys', file=sm.file, line=sm.lineno)


def rule_fold_mask(ck, repo, R):
    ck.rule(R, 'every index inserted into the fingerprint bit set has the form <expr> & mask with mask = length - 1, and the number of '
               'insertions per hash follows number_active_bits (1; == 2 -> one more; > 2 -> loop of n-1 more)')
    for fq in ('chython.algorithms.fingerprints.linear:LinearFingerprint.linear_bit_set',
               'chython.algorithms.fingerprints.morgan:MorganFingerprint.morgan_bit_set'):
        f = repo.func(fq)
        loc = dict(file=f.file, func=f.qualname)
        masks = [n for n in ast.walk(f.node) if isinstance(n, ast.Assign) and src(n.targets[0]) == 'mask']
        ck.decide(len(masks) == 1 and src(masks[0].value) == 'length - 1', R, f'{f.name}:mask', src(masks[0].value) if masks else None,
                  f'{f.name}: mask is `{src(masks[0].value) if masks else None}`, expected length - 1', line=f.lineno, **loc)
        logs = [n for n in ast.walk(f.node) if isinstance(n, ast.Assign) and src(n.targets[0]) == 'log']
        ck.decide(len(logs) == 1 and src(logs[0].value) == 'int(log2(length))', R, f'{f.name}:shift', src(logs[0].value) if logs else None,
                  f'{f.name}: shift width is `{src(logs[0].value) if logs else None}`, expected int(log2(length))', line=f.lineno, **loc)
        adds = [n for n in ast.walk(f.node) if isinstance(n, ast.Call) and src(n.func) == 'active_bits.add']
        ck.require(len(adds) >= 3, f'{f.name}: active_bits.add sites not found')
        for a in adds:
            e = a.args[0]
            ok = isinstance(e, ast.BinOp) and isinstance(e.op, ast.BitAnd) and (src(e.right) == 'mask' or src(e.left) == 'mask')
            ck.decide(ok, R, f'{f.name}:add:{src(e)}', None, f'{f.name}: inserts `{src(e)}` without folding with `& mask`: bit index can reach or exceed length',
                      line=a.lineno, construct=src(a), **loc)
        # ladder on number_active_bits
        tests = [src(n.test) for n in ast.walk(f.node) if isinstance(n, ast.If) and 'number_active_bits' in src(n.test)]
        ck.decide('number_active_bits == 2' in tests and 'number_active_bits > 2' in tests, R, f'{f.name}:ladder', tests,
                  f'{f.name}: number_active_bits ladder is {tests}', line=f.lineno, **loc)
        loops = [n for n in ast.walk(f.node) if isinstance(n, ast.For) and 'number_active_bits' in src(n.iter)]
        ck.decide(len(loops) == 1 and src(loops[0].iter) == 'range(1, number_active_bits)', R, f'{f.name}:loop', src(loops[0].iter) if loops else None,
                  f'{f.name}: extra-bit loop iterates {src(loops[0].iter) if loops else None}, expected range(1, number_active_bits)', line=f.lineno, **loc)
    ck.floor(R, 14)


def rule_fragment_canonical(ck, repo, R):
    ck.rule(R, 'linear fragments are keyed by identifier tuples made direction-free by comparing the tuple with its reverse; atom '
               'numbers never enter a hashed key')
    f = repo.func('chython.algorithms.fingerprints.linear:LinearFingerprint._fragments')
    loc = dict(file=f.file, line=f.lineno, func=f.qualname)
    # value provenance inside _fragments, whatever the local names: builder list -> tuple(builder) -> its reverse
    defs = {}
    for n in ast.walk(f.node):
        if isinstance(n, ast.Assign) and len(n.targets) == 1 and isinstance(n.targets[0], ast.Name):
            defs.setdefault(n.targets[0].id, []).append(n.value)
        elif isinstance(n, ast.NamedExpr):
            defs.setdefault(n.target.id, []).append(n.value)
    builders = {k for k, vs in defs.items() if any(isinstance(v, ast.List) for v in vs)}
    tupled = {k for k, vs in defs.items() if any(isinstance(v, ast.Call) and src(v.func) == 'tuple' and len(v.args) == 1 and src(v.args[0]) in builders for v in vs)}
    rev = {k for k, vs in defs.items() if any(isinstance(v, ast.Subscript) and src(v.value) in tupled and src(v.slice) == '::-1' for v in vs)}

    def name_of(e):
        return e.target.id if isinstance(e, ast.NamedExpr) else e.id if isinstance(e, ast.Name) else None
    shape = False
    for n in ast.walk(f.node):
        if isinstance(n, ast.If) and isinstance(n.test, ast.Compare) and len(n.test.ops) == 1 and isinstance(n.test.ops[0], (ast.Gt, ast.Lt, ast.GtE, ast.LtE)):
            l, r = name_of(n.test.left), name_of(n.test.comparators[0])
            if {l, r} <= (tupled | rev) and (l in tupled) != (r in tupled) and n.orelse:
                def stores(block):
                    out_ = []
                    for c in ast.walk(ast.Module(body=block, type_ignores=[])):
                        if isinstance(c, ast.Call) and isinstance(c.func, ast.Attribute) and c.func.attr == 'append' and isinstance(c.func.value, ast.Subscript) \
                                and src(c.func.value.value) == 'out' and len(c.args) == 1:
                            out_.append((src(c.func.value.slice), src(c.args[0])))
                    return out_
                sb, so = stores(n.body), stores(n.orelse)
                if len(sb) == 1 and len(so) == 1:
                    fwd = [x for x in (sb[0], so[0]) if x[0] in tupled]
                    bwd = [x for x in (sb[0], so[0]) if x[0] in rev]
                    shape = len(fwd) == 1 and len(bwd) == 1 and fwd[0][1] == 'frag' and bwd[0][1] == 'frag[::-1]'
    ck.decide(shape, R, 'direction-canonical', None,
              '_fragments no longer canonicalises a path against its reverse on identifier tuples (key tuple vs its reverse, the chain reversed with the key)', **loc)
    keys = [n for n in ast.walk(f.node) if isinstance(n, ast.Subscript) and src(n.value) == 'out' and isinstance(n.ctx, ast.Load)]
    ck.decide(bool(keys) and {src(k.slice) for k in keys} <= (tupled | rev), R, 'keys-are-identifiers', sorted(src(k.slice) for k in keys),
              f'_fragments keys its dictionary by {sorted(src(k.slice) for k in keys)}; only the identifier tuple and its reverse are numbering independent', **loc)
    var0 = [v for k in builders for v in defs[k] if isinstance(v, ast.List)]
    ck.decide(len(var0) == 1 and src(var0[0]) == '[atoms[frag[0]]]', R, 'var-seed', src(var0[0]) if var0 else None,
              '_fragments seeds the key with something else than the identifier of the first atom', **loc)
    apps = sorted(src(n.args[0]) for n in ast.walk(f.node) if isinstance(n, ast.Call) and isinstance(n.func, ast.Attribute) and n.func.attr == 'append'
                  and src(n.func.value) in builders)
    ck.decide(apps == ['atoms[y]', 'int(bonds[x][y])'], R, 'var-parts', apps, f'_fragments appends {apps} to the key; expected bond order and atom identifier', **loc)
    hs = repo.func('chython.algorithms.fingerprints.linear:LinearFingerprint.linear_hash_set')
    ck.decide('hash((*tpl, cnt))' in src(hs.node) and 'range(min(len(count), number_bit_pairs))' in src(hs.node), R, 'count-aware-hash', None,
              'linear_hash_set no longer hashes (identifier tuple, occurrence index) up to the multiplicity cap', file=hs.file, line=hs.lineno)
    ch = repo.func('chython.algorithms.fingerprints.linear:LinearFingerprint._chains')
    s = src(ch.node)
    ck.decide('if x not in now' in s and 'arr.add(frag if frag > rev else rev)' in s, R, 'simple-paths', None,
              '_chains no longer restricts to simple paths / de-duplicates a path and its reverse', file=ch.file, line=ch.lineno)


NONDET = {'random', 'shuffle', 'uuid4', 'time', 'urandom', 'id', 'choice', 'sample', 'getrandbits'}
NONDET_ALLOWED = {
    'Smiles.__format__': "only under the explicit 'r' format flag",
    'MoleculeSmiles.sticky_smiles': 'documented random-order writer',
    'Calculate2DMolecule.__clean2d_prepare': '2D layout start order (coordinates are outside the listed outputs)',
    'DepictMolecule.depict': 'svg element ids',
    'Saturation.saturate': 'documented randomised search for a saturation (not part of canonicalize/standardize)',
    '_saturate': 'helper of saturate',
}


def rule_no_ambient_nondeterminism(ck, repo, R):
    ck.rule(R, 'random / time / id() / uuid are not called in the algorithms and containers packages outside a frozen list of '
               'documented randomised functions (explicit r flag, sticky_smiles, 2D layout, svg ids, saturate)')
    n = 0
    for m in repo.modules.values():
        if not (m.name.startswith('chython.algorithms') or m.name.startswith('chython.containers') or m.name == 'chython._functions'
                or m.name.startswith('chython.periodictable')):
            continue
        if m.name.startswith('chython.algorithms.mapping') or m.name.startswith('chython.algorithms.x3dom'):
            continue
        parents = {}
        for p in ast.walk(m.tree):
            for c in ast.iter_child_nodes(p):
                parents[c] = p
        for node in ast.walk(m.tree):
            if isinstance(node, ast.Call) and isinstance(node.func, ast.Name) and node.func.id in NONDET:
                p = parents.get(node)
                chain = []
                while p is not None:
                    if isinstance(p, (ast.FunctionDef, ast.ClassDef)):
                        chain.append(p.name)
                    p = parents.get(p)
                q = '.'.join(reversed([c for c in chain if c]))
                short = q
                allowed = next((v for k, v in NONDET_ALLOWED.items() if q.endswith(k) or q.split('.')[-2:] == k.split('.') or k in q), None)
                n += 1
                ck.decide(allowed is not None, R, f'{q}:{node.func.id}', allowed,
                          f'{q} calls {node.func.id}(): results of ordering / canonicalisation code become run dependent',
                          file=m.relpath, line=node.lineno, func=q, construct=src(node))
    ck.count('nondeterministic calls seen', n)
    # positive control: the rule must see the known calls
    ck.require(n >= 5, f'only {n} random()/uuid4()/shuffle() calls seen; 6 are known on the pinned tree')


# ---- breadth-first distance labels ----------------------------------------------------------------------------------------------------------
def level_worklists(fn):
    """
    while Q: x, d = Q.pop(..) ; for m in <undiscovered by L>: Q.append((m, f(d))); L[m] = g(d)
    -> (loop, Q, level var, label dict L, pop call)
    """
    out = []
    for loop in ast.walk(fn):
        if not (isinstance(loop, ast.While) and isinstance(loop.test, ast.Name) and loop.body):
            continue
        q = loop.test.id
        first = loop.body[0]
        if not (isinstance(first, ast.Assign) and isinstance(first.value, ast.Call) and isinstance(first.value.func, ast.Attribute) and
                isinstance(first.value.func.value, ast.Name) and first.value.func.value.id == q and first.value.func.attr in ('pop', 'popleft')):
            continue
        tgt = first.targets[0]
        if not (isinstance(tgt, ast.Tuple) and all(isinstance(e, ast.Name) for e in tgt.elts)):
            continue
        names = [e.id for e in tgt.elts]
        for lv in names[1:]:
            pushes = [n for n in ast.walk(loop) if isinstance(n, ast.Call) and isinstance(n.func, ast.Attribute) and n.func.attr in ('append', 'extend') and
                      isinstance(n.func.value, ast.Name) and n.func.value.id == q and any(isinstance(x, ast.Name) and x.id == lv for x in ast.walk(n))]
            labels = [n for n in ast.walk(loop) if isinstance(n, ast.Assign) and isinstance(n.targets[0], ast.Subscript) and isinstance(n.targets[0].value, ast.Name) and
                      any(isinstance(x, ast.Name) and x.id == lv for x in ast.walk(n.value))]
            if pushes and labels:
                out.append((loop, q, lv, labels[0].targets[0].value.id, first.value))
    return out


def rule_bfs_distance(ck, repo, R, select, floor):
    ck.rule(R, 'a worklist that labels every newly discovered atom with a level derived from the level of the popped atom (seen[m] = d; push (m, d+1)) '
               'computes graph distances only if it is first-in-first-out (pop(0) / popleft()); popped from the tail it records the depth along an '
               'arbitrary, numbering-dependent path. The canonical writer uses these labels as a tie-breaker between equivalent neighbours')
    n = 0
    for f in repo.all_functions():
        if not select(f):
            continue
        for loop, q, lv, lab, pop in level_worklists(f.node):
            n += 1
            fifo = pop.func.attr == 'popleft' or (pop.func.attr == 'pop' and len(pop.args) == 1 and isinstance(pop.args[0], ast.Constant) and pop.args[0].value == 0)
            ck.decide(fifo, R, f'{f.fq}:{q}->{lab}', f'`{src(pop)}` is FIFO',
                      f'{f.qualname}: the worklist `{q}` labels discovered atoms in `{lab}` with the level `{lv}` but is popped with `{src(pop)}` (last-in-first-out): '
                      f'`{lab}` is no longer the distance from the start atom but depends on the iteration order of the neighbour sets, i.e. on atom numbers',
                      file=f.file, line=pop.lineno, func=f.qualname, construct=src(pop))
    ck.count(f'{R}: level-labelling worklists', n)
    ck.floor(R, floor)


def rule_morgan_layers(ck, repo, R):
    ck.rule(R, '_morgan_hash_dict builds exactly one identifier layer per radius 1..max_radius (loop `range(1, max_radius)` after the initial layer) and '
               'returns the last max_radius - min_radius + 1 of them: any other round count makes the slice slide to other radii')
    f = repo.func('chython.algorithms.fingerprints.morgan:MorganFingerprint._morgan_hash_dict')
    ck.require(f is not None, '_morgan_hash_dict not found')
    loops = [n for n in ast.walk(f.node) if isinstance(n, ast.For) and isinstance(n.iter, ast.Call) and src(n.iter.func) == 'range']
    ck.require(len(loops) == 1, '_morgan_hash_dict: expected one range loop')
    args = [src(a) for a in loops[0].iter.args]
    rounds_ok = args in (['1', 'max_radius'], ['max_radius - 1'], ['0', 'max_radius - 1'])
    ck.decide(rounds_ok, R, 'rounds', args, f'_morgan_hash_dict iterates range({", ".join(args)}): the number of layers is no longer max_radius for every molecule, '
                                            f'while the returned slice still assumes len(out) == max_radius', file=f.file, line=loops[0].lineno, func=f.qualname,
              construct=src(loops[0].iter))
    init = [n for n in ast.walk(f.node) if isinstance(n, ast.Assign) and src(n.targets[0]) == 'out']
    ck.decide(len(init) == 1 and src(init[0].value) == '[identifiers]', R, 'initial-layer', None, 'the radius-1 layer is no longer the initial element of out', file=f.file)
    app = [n for n in ast.walk(loops[0]) if isinstance(n, ast.Call) and src(n.func) == 'out.append']
    ck.decide(len(app) == 1, R, 'one-layer-per-round', len(app), f'{len(app)} appends per round', file=f.file)
    ret = [n for n in ast.walk(f.node) if isinstance(n, ast.Return)]
    from .r_query import _ev, _Unknown
    from .astutil import expand_locals, single_defs
    slice_ok = False
    if len(ret) == 1 and ret[0].value is not None:
        e = expand_locals(ret[0].value, f.node, only=set(single_defs(f.node)) - {'out'})
        try:
            # with one layer per radius, out == [layer 1, .., layer max_radius]: the returned expression must select layers min_radius..max_radius
            slice_ok = all(list(_ev(e, {'out': list(range(1, hi + 1)), 'min_radius': lo, 'max_radius': hi})) == list(range(lo, hi + 1))
                           for lo in range(1, 5) for hi in range(lo, 6))
        except _Unknown as x:
            raise AnalysisError(f'_morgan_hash_dict: returned expression `{src(ret[0].value)}` not understood ({x})')
    ck.decide(slice_ok, R, 'slice',
              src(ret[0].value) if ret else None, f'returned slice `{src(ret[0].value) if ret else None}` does not select radii min_radius..max_radius', file=f.file)
    ck.floor(R, 4)


def rule_chain_length_window(ck, repo, R):
    ck.rule(R, 'LinearFingerprint._chains grows paths breadth first: a grown path of `size` atoms is queued for further growth iff size < max_radius and '
               'collected iff size >= min_radius (so the result holds every simple path with min_radius..max_radius atoms); both guards are evaluated over a grid '
               'of (size, min_radius, max_radius), whatever their spelling')
    from .r_query import _ev, _Unknown
    import copy as _copy
    f = repo.func('chython.algorithms.fingerprints.linear:LinearFingerprint._chains')
    ck.require(f is not None, '_chains not found')
    loops = [l for l in ast.walk(f.node) if isinstance(l, ast.While)]
    ck.require(len(loops) == 1, '_chains: growth loop not found')
    lp = loops[0]
    from .astutil import expand_locals, single_defs
    # the popped path and the list of its one-atom extensions: len(<popped>) = SIZE - 1, len(<extension>) = SIZE
    now_names = {a.targets[0].id for a in ast.walk(lp) if isinstance(a, ast.Assign) and isinstance(a.targets[0], ast.Name)
                 and isinstance(a.value, ast.Call) and src(a.value.func).endswith('.popleft')}
    ext_names = {a.targets[0].id for a in ast.walk(lp) if isinstance(a, ast.Assign) and isinstance(a.targets[0], ast.Name)
                 and isinstance(a.value, ast.ListComp) and isinstance(a.value.elt, ast.BinOp) and isinstance(a.value.elt.op, ast.Add)
                 and src(a.value.elt.left) in now_names and isinstance(a.value.elt.right, ast.Tuple) and len(a.value.elt.right.elts) == 1}
    ck.require(now_names and ext_names, '_chains: popped path / its extensions not found')

    class S(ast.NodeTransformer):
        def visit_Call(self, node):
            if src(node.func) == 'len' and len(node.args) == 1:
                a = node.args[0]
                if isinstance(a, ast.Name) and a.id in now_names:
                    return ast.BinOp(left=ast.Name(id='SIZE', ctx=ast.Load()), op=ast.Sub(), right=ast.Constant(value=1))
                if isinstance(a, ast.Subscript) and src(a.value) in ext_names:
                    return ast.Name(id='SIZE', ctx=ast.Load())
                if isinstance(a, ast.Name) and a.id not in now_names and a.id not in ext_names:
                    return ast.Name(id='SIZE', ctx=ast.Load())  # the loop variable over the extensions
            return self.generic_visit(node)
    parents = {}
    for p_ in ast.walk(lp):
        for ch in ast.iter_child_nodes(p_):
            parents[ch] = p_

    def guard_of(pred):
        calls = [c for c in ast.walk(lp) if isinstance(c, ast.Call) and pred(c)]
        ck.require(len(calls) == 1, '_chains: growth / collection statement not found')
        tests = []
        p_ = parents.get(calls[0])
        while p_ is not None and p_ is not lp:
            if isinstance(p_, ast.If) and any(calls[0] in ast.walk(s_) for s_ in p_.body):
                t = p_.test
                if any(isinstance(x, ast.Name) and x.id in ('min_radius', 'max_radius') for x in ast.walk(t)):
                    tests.append(S().visit(expand_locals(t, f.node, only=set(single_defs(f.node)) - now_names - ext_names)))
            p_ = parents.get(p_)
        return tests, calls[0]
    for what, pred, expect in (('grow', lambda c: src(c.func) == 'queue.extend', lambda s, lo, hi: s < hi),
                               ('collect', lambda c: src(c.func) == 'arr.add', lambda s, lo, hi: s >= lo)):
        tests, call = guard_of(pred)
        ck.require(tests, f'_chains: no radius guard around the {what} statement')
        bad = None
        for lo in range(1, 5):
            for hi in range(lo, 6):
                for s_ in range(1, 7):
                    try:
                        got = all(_ev(t, {'SIZE': s_, 'min_radius': lo, 'max_radius': hi}) for t in tests)
                    except _Unknown as e:
                        raise AnalysisError(f'_chains: guard of the {what} statement not understood ({e})')
                    if got != expect(s_, lo, hi) and bad is None:
                        bad = (s_, lo, hi, got)
        ck.decide(bad is None, R, f'{what}-guard', ' and '.join(src(t) for t in tests),
                  (f'_chains: a grown path of {bad[0]} atoms with min_radius={bad[1]}, max_radius={bad[2]} is {"" if bad[3] else "not "}{"queued for growth" if what == "grow" else "collected"} '
                   f'under `{" and ".join(src(t) for t in tests)}`; paths with exactly min_radius / fewer than max_radius atoms are mishandled') if bad else None,
                  file=f.file, line=call.lineno, func=f.qualname, construct=' and '.join(src(t) for t in tests))
    ck.floor(R, 2)


def rule_closure_order_consumers(ck, repo, R):
    """C01/C02: the @/@@ mark of an atom is computed for the neighbour order recorded in `visited`, which lists the ring-closure partners in the order of
    their closure numbers; the writer then prints the closure digits of that atom. Both must walk the closure list in the SAME order."""
    ck.rule(R, 'in Smiles._smiles the two consumers of an atom\'s closure list -- the neighbour order handed to the stereo sign (visited[token].extend(..)) and the loop that '
               'prints the closure digits -- read it in one and the same order: both the list sorted in place by closure number, or both the same sorted(...) view')
    f = repo.func('chython.algorithms.smiles:Smiles._smiles')
    sorts = [c for c in ast.walk(f.node) if isinstance(c, ast.Call) and isinstance(c.func, ast.Attribute) and c.func.attr == 'sort' and src(c.func.value) == 'tokens[token]']

    def view(it, line):
        if src(it) == 'tokens[token]':
            s_ = [c for c in sorts if c.lineno <= line]
            if s_:
                k = next((src(kw.value) for kw in s_[-1].keywords if kw.arg == 'key'), None)
                return f'in-place sort by {k}'
            return 'unsorted'
        if isinstance(it, ast.Call) and src(it.func) == 'sorted' and it.args and src(it.args[0]) == 'tokens[token]':
            return 'sorted copy by ' + str(next((src(kw.value) for kw in it.keywords if kw.arg == 'key'), None))
        return None
    stereo_view = digits_view = None
    for c in ast.walk(f.node):
        if isinstance(c, ast.Call) and isinstance(c.func, ast.Attribute) and c.func.attr == 'extend' and src(c.func.value) == 'visited[token]' and c.args \
                and isinstance(c.args[0], (ast.GeneratorExp, ast.ListComp)):
            v = view(c.args[0].generators[0].iter, c.lineno)
            if v is not None:
                stereo_view = (v, c.lineno)
        if isinstance(c, ast.For) and any(isinstance(x, ast.Call) and src(x.func) == 'self._format_closure' for x in ast.walk(c)):
            v = view(c.iter, c.lineno)
            if v is not None:
                digits_view = (v, c.lineno)
    if stereo_view is None or digits_view is None:
        raise AnalysisError('Smiles._smiles: consumers of the closure list not recognised')
    ok = stereo_view[0] == digits_view[0] and stereo_view[0] != 'unsorted' and 'casted_cycles' in stereo_view[0]
    ck.decide(ok, R, 'same-order', (stereo_view[0], digits_view[0]),
              f'Smiles._smiles: the neighbour order used for the stereo mark reads the closure list as "{stereo_view[0]}" (line {stereo_view[1]}) but the closure digits are printed '
              f'from "{digits_view[0]}" (line {digits_view[1]}): for an atom with two ring closures the written @/@@ describes another neighbour order than the digits that follow',
              file=f.file, line=digits_view[1], func=f.qualname)


def rule_bare_string_for_reaction(ck, repo, R):
    """C15/C02: ReactionContainer.__format__ asks every molecule for (bare SMILES, atom order) and appends ONE global CX block; the pair returned under
    `_return_order` must therefore be the joined token list of a `_smiles()` run of that call -- never str(self) / a cached string that already carries the
    molecule's own CX block"""
    ck.rule(R, 'every `return a, b` of Smiles.__format__ returns a = the joined tokens and b = the order produced by one self._smiles(..) call made in that branch '
               '(provenance through local assignments); a cached / finished string is never returned as the bare string')
    f = repo.func('chython.algorithms.smiles:Smiles.__format__')
    rets = [r for r in ast.walk(f.node) if isinstance(r, ast.Return) and isinstance(r.value, ast.Tuple) and len(r.value.elts) == 2]
    ck.require(len(rets) >= 2, 'Smiles.__format__: pair returns not found')
    # names bound (directly or through ''.join) to the result of self._smiles(..)
    fresh = set()
    for a in sorted((x for x in ast.walk(f.node) if isinstance(x, ast.Assign)), key=lambda x: x.lineno):
        v = a.value
        if isinstance(v, ast.Call) and src(v.func) == 'self._smiles':
            for t in a.targets:
                fresh |= {x.id for x in ast.walk(t) if isinstance(x, ast.Name)}
        elif isinstance(v, ast.Call) and src(v.func) == "''.join" and len(v.args) == 1 and isinstance(v.args[0], ast.Name) and v.args[0].id in fresh:
            fresh |= {t.id for t in a.targets if isinstance(t, ast.Name)}

    def is_fresh(e):
        if isinstance(e, ast.Name):
            return e.id in fresh
        if isinstance(e, ast.Call) and src(e.func) in ("''.join", 'tuple', 'list') and len(e.args) == 1:
            return is_fresh(e.args[0])
        return False
    for r in rets:
        a, b = r.value.elts
        ck.decide(is_fresh(a) and is_fresh(b), R, f'return@{src(r.value)[:40]}', None,
                  f'Smiles.__format__ returns `{src(r.value)}` under _return_order: the string / order do not come from a self._smiles() run of this call (a cached str(self) already '
                  f'ends with the molecule\'s own CXSMILES block, which the reaction writer then embeds in the middle of the reaction string)',
                  file=f.file, line=r.lineno, func=f.qualname, construct=src(r.value))


def rule_elemental_bracket(ck, repo, R):
    """C02: an atom of B, C, P, S without hydrogens and without ORDINARY bonds is written in brackets ([C]); "ordinary" is what the reader's hydrogen calculation counts
    (calc_implicit skips order-8 bonds), i.e. the not_special_connectivity view -- not the raw adjacency"""
    from .r_query import dnf as _dnf, simplify as _simplify
    ck.rule(R, 'MoleculeSmiles._format_atom has an arm whose condition is exactly: no implicit hydrogens, element in (B, C, P, S), and no neighbour in '
               'not_special_connectivity (the same view calc_implicit uses); compared as normalised DNF')
    f = repo.func('chython.algorithms.smiles:MoleculeSmiles._format_atom')
    want = _simplify(_dnf(ast.parse('not atom.implicit_hydrogens and atom in (B, C, P, S) and not self.not_special_connectivity[n]', mode='eval').body))
    from .astutil import if_chain as _chain
    tests = [t for top in ast.walk(f.node) if isinstance(top, ast.If) for t, _ in _chain(top) if t is not None]
    hit = [t for t in tests if _simplify(_dnf(t)) == want]
    # for the message: the arm that speaks about hydrogen-free B / C / P / S atoms
    cand = hit or [t for t in tests if 'implicit_hydrogens' in src(t) and any(isinstance(x, ast.Tuple) and {src(e) for e in x.elts} == {'B', 'C', 'P', 'S'} for x in ast.walk(t))]
    ck.decide(bool(hit), R, 'elemental-arm', src(cand[0]) if cand else None,
              f'_format_atom: the "elemental B, C, P, S" arm is `{src(cand[0]) if cand else "missing"}`; it must test the ordinary-bond view not_special_connectivity[n] '
              f'(an atom whose only bonds are order-8 "~" bonds gets hydrogens from the reader unless it is bracketed)', file=f.file, line=(cand[0].lineno if cand else f.lineno), func=f.qualname)


def rule_uncapped_sentinel(ck, repo, R):
    """C17: number_bit_pairs == 0 means "no cap on repeated fragments"; the value substituted for 0 must exceed any possible count (a constant >= 10**6) and be the same
    in every function of the module that implements the option"""
    ck.rule(R, 'linear fingerprints: wherever `not number_bit_pairs` is replaced by a cap, the cap is one and the same integer constant >= 1_000_000 in all sibling functions')
    m = repo.module('chython.algorithms.fingerprints.linear')
    vals = []
    for fn in ast.walk(m.tree):
        if isinstance(fn, ast.FunctionDef):
            for i in ast.walk(fn):
                if isinstance(i, ast.If) and src(i.test) in ('not number_bit_pairs', 'number_bit_pairs == 0'):
                    for a in i.body:
                        if isinstance(a, ast.Assign) and src(a.targets[0]) == 'number_bit_pairs':
                            vals.append((fn.name, a.value, a.lineno))
    ck.require(len(vals) >= 2, f'linear.py: {len(vals)} "no cap" substitutions found, 2 confirmed by hand')
    consts = {v.value for _, v, _ in vals if isinstance(v, ast.Constant) and isinstance(v.value, int)}
    for name, v, line in vals:
        ok = isinstance(v, ast.Constant) and isinstance(v.value, int) and v.value >= 10 ** 6 and len(consts) == 1
        ck.decide(ok, R, f'{name}:cap', src(v), f'{name}: number_bit_pairs=0 ("count every repeat") is replaced by `{src(v)}`; a fragment class can occur more often than any '
                                               f'structure-derived bound (paths, not atoms), and the sibling functions use {sorted(consts)}', file=m.relpath, line=line, func=name)


def rule_closure_id_scope(ck, repo, R):
    """C02: in Smiles._smiles the running ring-closure id keys two tables: `tokens` (per component) and `casted_cycles` (id -> printed digit, together with the heap of
    free digits it lives for the whole call). Ids must therefore be unique over the whole call: the counter is initialised where casted_cycles is"""
    ck.rule(R, 'Smiles._smiles: the closure-id counter (`cycle`) and the id -> digit table (`casted_cycles`) are initialised in the same statement list (same lifetime); '
               'a counter restarted per component re-uses ids that are still keys of the table')
    f = repo.func('chython.algorithms.smiles:Smiles._smiles')
    from .astutil import enclosing_map
    pm = enclosing_map(f.node)

    def init_block(name):
        outs = []
        for a in ast.walk(f.node):
            if isinstance(a, ast.Assign) and any(isinstance(t, ast.Name) and t.id == name for t in a.targets) and isinstance(a.value, (ast.Constant, ast.Dict)):
                outs.append(pm.get(a))
        return outs
    c, t = init_block('cycle'), init_block('casted_cycles')
    if len(c) != 1 or len(t) != 1:
        raise AnalysisError(f'Smiles._smiles: initialisation of cycle / casted_cycles not recognised ({len(c)}, {len(t)})')
    ck.decide(c[0] is t[0], R, 'same-lifetime', None,
              'Smiles._smiles: `cycle` is (re)initialised inside ' + ('a loop' if isinstance(c[0], (ast.For, ast.While)) else 'another block') +
              ' while `casted_cycles` lives for the whole call: in a later component an opening closure gets an id that is still in the table and is taken for a closing one '
              '(two open rings share a digit)', file=f.file, line=f.lineno, func=f.qualname)
