# -*- coding: utf-8 -*-
"""
Engine C-d: writer <-> reader code books. Regex sub-languages are enumerated from the regex AST
(re._parser.parse) when finite; nothing is matched against sample inputs.
"""
import ast
import re
try:
    import re._parser as sre_parse  # py >= 3.11
    import re._constants as sre_c
except ImportError:  # pragma: no cover
    import sre_parse
    import sre_constants as sre_c
from .core import AnalysisError

TOK = 'chython.files.daylight.tokenize'
LIMIT = 200000


def regex_literal(repo, modname, name):
    m = repo.module(modname)
    e = m.assigns.get(name)
    if not (isinstance(e, ast.Call) and ast.unparse(e.func) in ('compile', 're.compile') and e.args and
            isinstance(e.args[0], ast.Constant) and isinstance(e.args[0].value, str)):
        raise AnalysisError(f'{modname}.{name} is not compile(<string literal>)')
    return e.args[0].value


def _lang(items):
    """finite language of a parsed regex sequence, as a set of strings"""
    out = {''}
    for op, av in items:
        if op is sre_c.LITERAL:
            cur = {chr(av)}
        elif op is sre_c.IN:
            cur = set()
            for o, a in av:
                if o is sre_c.LITERAL:
                    cur.add(chr(a))
                elif o is sre_c.RANGE:
                    cur.update(chr(c) for c in range(a[0], a[1] + 1))
                else:
                    raise AnalysisError(f'regex class item {o} not supported by the enumerator')
        elif op is sre_c.MAX_REPEAT or op is sre_c.MIN_REPEAT:
            lo, hi, sub = av
            if hi is sre_c.MAXREPEAT or hi > 8:
                raise AnalysisError('unbounded repeat: language not finite')
            base = _lang(list(sub))
            cur = set()
            for k in range(lo, hi + 1):
                part = {''}
                for _ in range(k):
                    part = {x + y for x in part for y in base}
                    if len(part) > LIMIT:
                        raise AnalysisError('regex language too large to enumerate')
                cur |= part
        elif op is sre_c.SUBPATTERN:
            cur = _lang(list(av[3]))
        elif op is sre_c.BRANCH:
            cur = set()
            for alt in av[1]:
                cur |= _lang(list(alt))
        elif op is sre_c.AT:
            cur = {''}
        else:
            raise AnalysisError(f'regex op {op} not supported by the enumerator')
        out = {x + y for x in out for y in cur}
        if len(out) > LIMIT:
            raise AnalysisError('regex language too large to enumerate')
    return out


def group_language(pattern, group):
    """language of capture group `group` (1-based) of pattern; optional-ness is reported separately"""
    tree = sre_parse.parse(pattern)

    def find(items):
        for op, av in items:
            if op is sre_c.SUBPATTERN:
                if av[0] == group:
                    return list(av[3])
                r = find(list(av[3]))
                if r is not None:
                    return r
            elif op in (sre_c.MAX_REPEAT, sre_c.MIN_REPEAT):
                r = find(list(av[2]))
                if r is not None:
                    return r
            elif op is sre_c.BRANCH:
                for alt in av[1]:
                    r = find(list(alt))
                    if r is not None:
                        return r
        return None

    sub = find(list(tree))
    if sub is None:
        raise AnalysisError(f'group {group} not found in regex {pattern!r}')
    return _lang(sub)


def whole_language(pattern):
    return _lang(list(sre_parse.parse(pattern)))


def atom_re_groups(repo):
    """name the six groups of atom_re by the unpacking in _atom_parse"""
    f = repo.func(f'{TOK}:_atom_parse')
    for n in ast.walk(f.node):
        if isinstance(n, ast.Assign) and isinstance(n.targets[0], ast.Tuple) and isinstance(n.value, ast.Call) and \
                ast.unparse(n.value.func).endswith('.groups'):
            return [ast.unparse(e) for e in n.targets[0].elts]
    raise AnalysisError('_atom_parse no longer unpacks _match.groups()')


def smiles_h_max(repo):
    pat = regex_literal(repo, TOK, 'atom_re')
    names = atom_re_groups(repo)
    if 'hydrogen' not in names:
        raise AnalysisError('hydrogen group of atom_re not identifiable')
    lang = group_language(pat, names.index('hydrogen') + 1)
    mx = 0
    for s in lang:
        if not s.startswith('H'):
            raise AnalysisError(f'hydrogen group admits {s!r}')
        mx = max(mx, int(s[1:]) if len(s) > 1 else 1)
    return mx
