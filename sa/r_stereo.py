# -*- coding: utf-8 -*-
"""
Stereo sign tables and translation ladders (C12-D1..D3), shared with C02/C20.
"""
import ast
from itertools import permutations
from .core import AnalysisError
from .astutil import if_chain, disjuncts, conjuncts, src, strip_doc, alpha_normal
from .tables import module_literal, permutation_parity

ST = 'chython.algorithms.stereo'


def rule_tetrahedron_table(ck, repo):
    R = 'C12.D1-tetrahedron-table'
    ck.rule(R, '_tetrahedron_translate has exactly the 24 ordered triples over {0,1,2,3} as keys and each value is the '
               'parity of the permutation completed with the missing index (odd <=> sign flips)')
    t = module_literal(repo, ST, '_tetrahedron_translate')
    m = repo.module(ST)
    line = m.assigns['_tetrahedron_translate'].lineno
    ck.require(isinstance(t, dict), '_tetrahedron_translate is not a dict literal')
    want = {p[:3]: bool(permutation_parity(p)) for p in permutations(range(4))}
    for k in sorted(want):
        ck.decide(k in t and t[k] is want[k], R, str(k), want[k],
                  f'_tetrahedron_translate[{k}] = {t.get(k, "missing")!r}, parity of the completed permutation says {want[k]}',
                  file=m.relpath, line=line)
    extra = sorted(k for k in t if k not in want)
    ck.decide(not extra, R, 'no-extra-keys', None, f'unexpected keys {extra}', file=m.relpath, line=line)
    # duplicate keys in a dict display silently overwrite: count the display entries
    disp = m.assigns['_tetrahedron_translate']
    if isinstance(disp, ast.Dict):
        ck.decide(len(disp.keys) == len(t), R, 'no-duplicate-keys', len(disp.keys),
                  'dict display repeats a key (a later entry silently overwrites an earlier one)', file=m.relpath, line=line)
    ck.floor(R, 25)

    # use site: translate = tuple(order.index(x) for x in env[:3]); flips when table value is True
    f = repo.func(f'{ST}:MoleculeStereo._translate_tetrahedron_sign')
    R2 = 'C12.D1-tetrahedron-use'
    ck.rule(R2, '_translate_tetrahedron_sign indexes the table with the positions of the first three given neighbours '
                'in the stored order, appends an implicit/explicit hydrogen last, and returns `not s` exactly when the '
                'table says True')
    loc = dict(file=f.file, line=f.lineno, func=f.qualname)
    # the table subscript and the expression that builds its key
    subs = [n for n in ast.walk(f.node) if isinstance(n, ast.Subscript) and src(n.value) == '_tetrahedron_translate']
    if len(subs) != 1:
        raise AnalysisError(f'{f.fq}: expected exactly one lookup in _tetrahedron_translate, found {len(subs)}')
    key = subs[0].slice
    if isinstance(key, ast.Name):
        defs = [n for n in ast.walk(f.node) if isinstance(n, ast.Assign) and len(n.targets) == 1 and src(n.targets[0]) == key.id]
        if len(defs) != 1:
            raise AnalysisError(f'{f.fq}: table key variable {key.id} has {len(defs)} definitions')
        key = defs[0].value
    elif isinstance(key, ast.Tuple) and key.elts and all(isinstance(e, ast.Name) for e in key.elts):
        # i0, i1, i2 = (<stored>.index(x) for x in <given>[:3]) ; table[(i0, i1, i2)]
        names = [e.id for e in key.elts]
        defs = [n for n in ast.walk(f.node) if isinstance(n, ast.Assign) and len(n.targets) == 1 and isinstance(n.targets[0], ast.Tuple)
                and [src(e) for e in n.targets[0].elts] == names]
        if len(defs) == 1:
            v = defs[0].value
            if isinstance(v, (ast.GeneratorExp, ast.ListComp)):
                v = ast.Call(func=ast.Name(id='tuple', ctx=ast.Load()), args=[v], keywords=[])
            key = v
    gen = None
    if isinstance(key, ast.Call) and src(key.func) == 'tuple' and len(key.args) == 1 and \
            isinstance(key.args[0], (ast.GeneratorExp, ast.ListComp)) and len(key.args[0].generators) == 1:
        gen = key.args[0]
    if gen is None or not (isinstance(gen.elt, ast.Call) and isinstance(gen.elt.func, ast.Attribute) and gen.elt.func.attr == 'index'
                           and isinstance(gen.elt.func.value, ast.Name) and len(gen.elt.args) == 1):
        raise AnalysisError(f'{f.fq}: table key is not tuple(<stored>.index(x) for x in <given>[:k]): {src(key)}')
    stored_var = gen.elt.func.value.id
    it = gen.generators[0].iter
    if not (isinstance(it, ast.Subscript) and isinstance(it.value, ast.Name) and isinstance(it.slice, ast.Slice)):
        raise AnalysisError(f'{f.fq}: table key does not iterate a slice of the given neighbours: {src(it)}')
    given_var = it.value.id
    sl = it.slice
    ck.decide(sl.lower is None and sl.step is None and isinstance(sl.upper, ast.Constant) and sl.upper.value == 3, R2, 'key-slice',
              src(it), f'table key is built from {src(it)}; the 3-tuples of the table need the first three given neighbours', **loc)
    ck.decide(src(gen.elt.args[0]) == src(gen.generators[0].target), R2, 'key-element', src(gen.elt),
              f'table key element {src(gen.elt)} does not index the iterated neighbour', **loc)
    params = f.params()
    ck.decide(given_var in params and stored_var not in params, R2, 'key-direction', f'{stored_var}.index(x) for x in {given_var}',
              f'table key must be positions of the *given* neighbours (parameter) in the *stored* order, found '
              f'{stored_var}.index(.) over {given_var}', **loc)
    # where the stored order comes from, and hydrogen goes last
    sdefs = [n for n in ast.walk(f.node) if isinstance(n, ast.Assign) and len(n.targets) == 1 and src(n.targets[0]) == stored_var]
    if not sdefs:
        raise AnalysisError(f'{f.fq}: stored-order variable {stored_var} is never assigned')
    ck.decide(any(src(d.value) == f'self.stereogenic_tetrahedrons[{params[1]}]' for d in sdefs), R2, 'stored-order', None,
              'stored order no longer read from stereogenic_tetrahedrons[n]', **loc)
    ext = [d for d in sdefs if isinstance(d.value, ast.Tuple)]
    if not ext:
        # the stored order (three heavy neighbours) is never completed by the hydrogen: a four-atom neighbour list is then cut down to three, which is an
        # odd permutation whenever the hydrogen stood first or third -- the sign must flip there and does not
        ck.bad(R2, 'hydrogen-last', f'{f.qualname} no longer appends the (explicit) hydrogen as the LAST element of the stored neighbour order before indexing the table: '
                                    f'dropping it from the given list instead changes the parity for two of its four positions', **loc)
        return
    if len(ext) != 1:
        raise AnalysisError(f'{f.fq}: expected one extension of the stored order by a hydrogen, found {len(ext)}')
    elts = ext[0].value.elts
    ck.decide(len(elts) == 2 and isinstance(elts[0], ast.Starred) and src(elts[0].value) == stored_var and not isinstance(elts[1], ast.Starred),
              R2, 'hydrogen-last', src(ext[0].value), f'hydrogen must be appended *after* the stored heavy neighbours: {src(ext[0].value)}', **loc)
    hsel = src(elts[-1]) if not isinstance(elts[-1], ast.Starred) else src(elts[0])
    ck.decide('== H' in hsel and f'in {given_var}' in hsel, R2, 'hydrogen-pick', hsel,
              f'the appended atom must be the hydrogen among the given neighbours: {hsel}', **loc)
    _flip_rule(ck, R2, f, str(src(subs[0])))
    _sign_source(ck, R2, f, 'self._atoms[n].stereo')


def _flip_rule(ck, R, f, table_expr):
    """last two statements: `if <table_expr>: return not s` ; `return s`"""
    body = strip_doc(f.node.body)
    ok = False
    if len(body) >= 2 and isinstance(body[-2], ast.If) and isinstance(body[-1], ast.Return):
        i = body[-2]
        if src(i.test) == table_expr and len(i.body) == 1 and isinstance(i.body[0], ast.Return) and not i.orelse:
            ok = src(i.body[0].value) == 'not s' and src(body[-1].value) == 's'
        elif src(i.test) == f'not {table_expr}' and len(i.body) == 1 and isinstance(i.body[0], ast.Return):
            ok = src(i.body[0].value) == 's' and src(body[-1].value) == 'not s'
    elif body and isinstance(body[-1], ast.Return) and isinstance(body[-1].value, ast.IfExp):
        e = body[-1].value
        ok = src(e.test) == table_expr and src(e.body) == 'not s' and src(e.orelse) == 's'
    elif body and isinstance(body[-1], ast.Return):
        ok = src(body[-1].value) in (f's != {table_expr}', f'{table_expr} != s', f's ^ {table_expr}')
    if not ok and not _flip_shape_known(body, table_expr):
        raise AnalysisError(f'{f.fq}: tail of the function is not a recognised "flip sign when table says True" form')
    ck.decide(ok, R, 'flip-when-true', table_expr,
              f'the function no longer returns `not s` exactly when {table_expr} is true (identity order must keep the sign)',
              file=f.file, line=body[-1].lineno if body else f.lineno, func=f.qualname)


def _flip_shape_known(body, table_expr):
    """the tail mentions the table lookup and returns s / not s in some arrangement"""
    tail = ' ; '.join(src(x) for x in body[-2:])
    return table_expr in tail and 'return' in tail and ' s' in tail


def _sign_source(ck, R, f, expr):
    """`if s is None: s = <expr>; if s is None: raise KeyError`"""
    ok = False
    for n in ast.walk(f.node):
        if isinstance(n, ast.If) and src(n.test) == 's is None':
            for st in n.body:
                if isinstance(st, ast.Assign) and src(st.targets[0]) == 's' and src(st.value) == expr:
                    ok = True
    seen = [n for n in ast.walk(f.node) if isinstance(n, ast.If) and src(n.test) == 's is None']
    if not seen:
        raise AnalysisError(f'{f.fq}: `if s is None:` default-sign block not found')
    ck.decide(ok, R, 'stored-sign', expr, f'default sign is no longer read from {expr}', file=f.file, line=f.lineno,
              func=f.qualname)


def rule_alkene_table(ck, repo):
    R = 'C12.D2-alkene-table'
    ck.rule(R, '_alkene_translate has the 8 keys (a,b) with a on one end {0,2} and b on the other {1,3} (both orders); '
               'value = side(a) xor side(b) with side(0)=side(1)=0, side(2)=side(3)=1; symmetric in (a,b)')
    t = module_literal(repo, ST, '_alkene_translate')
    m = repo.module(ST)
    line = m.assigns['_alkene_translate'].lineno
    side = {0: 0, 1: 0, 2: 1, 3: 1}
    want = {}
    for a in (0, 2):
        for b in (1, 3):
            want[(a, b)] = want[(b, a)] = bool(side[a] ^ side[b])
    for k in sorted(want):
        ck.decide(k in t and t[k] is want[k], R, str(k), want[k],
                  f'_alkene_translate[{k}] = {t.get(k, "missing")!r}, expected {want[k]} (exchange of one substituent flips)',
                  file=m.relpath, line=line)
    ck.decide(set(t) == set(want), R, 'keys', sorted(t), f'keys {sorted(t)} differ from the 8 opposite-end pairs',
              file=m.relpath, line=line)
    disp = m.assigns['_alkene_translate']
    if isinstance(disp, ast.Dict):
        ck.decide(len(disp.keys) == len(t), R, 'no-duplicate-keys', len(disp.keys), 'dict display repeats a key',
                  file=m.relpath, line=line)
    ck.floor(R, 9)
    return want


def parse_ladder(ck, f, R):
    """
    normalise the (t0, t1) decision ladder of _translate_cis_trans_sign/_translate_allene_sign into
    [(i_test, t0_assigned, h_fallback_index or None, [(j_test, t1_assigned, h_fallback_index or None)], raises_else)]
    """
    ladder = None
    for st in strip_doc(f.node.body):
        if isinstance(st, ast.If):
            ch = if_chain(st)
            if any(test is not None and src(test).startswith('nn == n') for test, _ in ch):
                ladder = ch
    if ladder is None:
        raise AnalysisError(f'{f.fq}: (t0, t1) decision ladder not found')

    def test_info(test, var):
        """`var == nK [or nK is None and self._atoms[var] == H]` -> (K, fallbackK|None)"""
        ds = disjuncts(test)
        k = fb = None
        for d in ds:
            s = src(d)
            pre = f'{var} == n'
            if s.startswith(pre) and s[len(pre):].isdigit():
                if k is not None:
                    raise AnalysisError(f'{f.fq}: two equality tests in one ladder guard: {src(test)}')
                k = int(s[len(pre):])
            else:
                cs = [src(c) for c in conjuncts(d)]
                if len(cs) == 2 and cs[0].endswith(' is None') and cs[0].startswith('n') and \
                        cs[1] == f'self._atoms[{var}] == H':
                    fb = int(cs[0][1:-len(' is None')])
                else:
                    raise AnalysisError(f'{f.fq}: ladder guard not recognised: {src(test)}')
        if k is None:
            raise AnalysisError(f'{f.fq}: ladder guard has no equality test: {src(test)}')
        return k, fb

    def assigned(body, name):
        for st in body:
            if isinstance(st, ast.Assign) and src(st.targets[0]) == name and isinstance(st.value, ast.Constant):
                return st.value.value
        return None

    out = []
    outer_else_raises = False
    for test, body in ladder:
        if test is None:
            outer_else_raises = len(body) == 1 and isinstance(body[0], ast.Raise) and src(body[0].exc) == 'KeyError'
            continue
        i, fb = test_info(test, 'nn')
        t0 = assigned(body, 't0')
        inner = None
        for st in body:
            if isinstance(st, ast.If):
                inner = if_chain(st)
        if inner is None:
            raise AnalysisError(f'{f.fq}: inner ladder missing under {src(test)}')
        ins = []
        inner_else = False
        for t2, b2 in inner:
            if t2 is None:
                inner_else = len(b2) == 1 and isinstance(b2[0], ast.Raise) and src(b2[0].exc) == 'KeyError'
                continue
            j, fb2 = test_info(t2, 'nm')
            ins.append((j, assigned(b2, 't1'), fb2))
        out.append((i, t0, fb, ins, inner_else))
    return out, outer_else_raises


def rule_ladders(ck, repo, table):
    R = 'C12.D3-ladders'
    ck.rule(R, 'in _translate_cis_trans_sign and _translate_allene_sign a branch guarded by nn == n_i assigns t0 = i, '
               'a branch guarded by nm == n_j assigns t1 = j, j ranges over the two positions of the opposite end, the '
               'hydrogen fallback exists only for the optional positions 2/3 with the matching index, unmatched '
               'neighbours raise KeyError, produced (t0,t1) pairs equal keys(_alkene_translate), both sibling ladders '
               'are identical')
    opposite = {0: {1, 3}, 2: {1, 3}, 1: {0, 2}, 3: {0, 2}}
    norm = {}
    for name, env_src, sign_src in (('_translate_cis_trans_sign', None, 'self._bonds[i][j].stereo'),
                                    ('_translate_allene_sign', 'self.stereogenic_allenes[c]', 'self._atoms[c].stereo')):
        f = repo.func(f'{ST}:MoleculeStereo.{name}')
        lad, outer_else = parse_ladder(ck, f, R)
        norm[name] = (lad, outer_else)
        loc = dict(file=f.file, line=f.lineno, func=f.qualname)
        pairs = set()
        ck.decide(sorted(i for i, *_ in lad) == [0, 1, 2, 3], R, f'{name}:outer-cover', [i for i, *_ in lad],
                  f'outer ladder tests positions {[i for i, *_ in lad]}, expected each of 0..3 once', **loc)
        ck.decide(outer_else, R, f'{name}:outer-else', None, 'a neighbour matching no position no longer raises KeyError', **loc)
        for i, t0, fb, ins, inner_else in lad:
            ck.decide(t0 == i, R, f'{name}:t0@{i}', t0, f'branch guarded by nn == n{i} assigns t0 = {t0}', **loc)
            ck.decide(fb == (i if i in (2, 3) else None), R, f'{name}:fallback@{i}', fb,
                      f'hydrogen fallback of position {i} tests n{fb} (only optional positions 2/3 may fall back, on their own index)', **loc)
            ck.decide({j for j, *_ in ins} == opposite[i] and len(ins) == 2, R, f'{name}:inner-cover@{i}', [j for j, *_ in ins],
                      f'under nn == n{i} the inner ladder tests {[j for j, *_ in ins]}, expected the opposite end {sorted(opposite[i])}', **loc)
            ck.decide(inner_else, R, f'{name}:inner-else@{i}', None, f'under nn == n{i}: unmatched nm no longer raises KeyError', **loc)
            for j, t1, fb2 in ins:
                ck.decide(t1 == j, R, f'{name}:t1@{i},{j}', t1, f'branch guarded by nm == n{j} (under nn == n{i}) assigns t1 = {t1}', **loc)
                ck.decide(fb2 == (j if j in (2, 3) else None), R, f'{name}:fallback@{i},{j}', fb2,
                          f'hydrogen fallback under nn == n{i}, nm == n{j} tests n{fb2}', **loc)
                pairs.add((t0, t1))
        ck.decide(pairs == set(table), R, f'{name}:pairs==keys', sorted(pairs),
                  f'ladder produces {sorted(pairs)}; table keys are {sorted(table)} (KeyError or wrong entry at run time)', **loc)
        _flip_rule(ck, R + ':' + name, f, '_alkene_translate[t0, t1]')
        ck.rules_text.setdefault(R + ':' + name, 'flip rule of the ladder function (see C12.D3-ladders)')
        # neighbour tuple unpacked in stored order
        unp = [n for n in ast.walk(f.node) if isinstance(n, ast.Assign) and src(n.targets[0]) == '(n0, n1, n2, n3)']
        ck.decide(bool(unp), R, f'{name}:unpack', None, 'stored neighbours no longer unpacked as (n0, n1, n2, n3)', **loc)
        if env_src:
            ck.decide(any(src(u.value) == env_src for u in unp), R, f'{name}:source', env_src,
                      f'stored neighbours no longer read from {env_src}', **loc)
        _sign_source(ck, R, f, sign_src)
    ck.decide(norm['_translate_cis_trans_sign'] == norm['_translate_allene_sign'], R, 'siblings-identical', None,
              'the cis/trans ladder and the allene ladder differ (they implement the same table lookup)',
              file=repo.module(ST).relpath)
    # cis-trans: reversed key handling swaps both the terminal pair and the neighbour pair
    f = repo.func(f'{ST}:MoleculeStereo._translate_cis_trans_sign')
    ok = False
    for n in ast.walk(f.node):
        if isinstance(n, ast.Try):
            first = [src(s) for s in n.body]
            for h in n.handlers:
                hb = [src(s) for s in h.body]
                if first == ['n0, n1, n2, n3 = self.stereogenic_cis_trans[n, m]'] and \
                        'n0, n1, n2, n3 = self.stereogenic_cis_trans[m, n]' in hb and 'nn, nm = (nm, nn)' in hb and \
                        'n, m = (m, n)' in hb and src(h.type) == 'KeyError':
                    ok = True
    if not any(isinstance(n, ast.Try) and any('self.stereogenic_cis_trans[n, m]' in src(x) for x in n.body) for n in ast.walk(f.node)):
        raise AnalysisError(f'{f.fq}: try/except KeyError around the forward-key lookup not found')
    ck.decide(ok, R, 'cis_trans:reversed-key', None,
              'lookup by the reversed terminal pair must swap (n, m) and (nn, nm) together', file=f.file, line=f.lineno, func=f.qualname)
    centre = any(isinstance(n, ast.Assign) and src(n.targets[0]) == '(i, j)' and src(n.value) == 'self._stereo_cis_trans_centers[n]'
                 for n in ast.walk(f.node))
    ck.decide(centre, R, 'cis_trans:centre-bond', None, 'sign no longer read from the central bond of the cumulene chain',
              file=f.file, line=f.lineno, func=f.qualname)
    ck.floor(R, 60)


def rule_stereo_cache_set(ck, repo):
    R = 'C12.D5-stereo-cache'
    ck.rule(R, 'flush_stereo_cache pops exactly the cached values that (a) read stereo labels and (b) are consulted by the stereo-assignment '
               'API (add_atom_stereo, add_cis_trans_stereo, add_wedge, calculate_cis_trans_from_2d, fix_stereo); computed from attribute read sets '
               'and the self-attribute call graph')
    from .effects import Protocol
    P = Protocol(repo)
    mc = P.container
    reg = repo.cache_registry(mc)
    by_func = {f: k for k, f in reg.items()}
    api = ['add_atom_stereo', 'add_cis_trans_stereo', 'add_wedge', 'calculate_cis_trans_from_2d', 'fix_stereo']

    def uses(f, seen):
        """cached values reachable through self.<attr> from f"""
        out = set()
        if f in seen:
            return out
        seen.add(f)
        for n in ast.walk(f.node):
            if isinstance(n, ast.Attribute) and isinstance(n.value, ast.Name) and n.value.id == 'self':
                name = n.attr
                g = repo.lookup(mc, name) or repo.lookup(mc, f.cls.mangle(name) if f.cls else name)
                if g is None and f.cls is not None and name.startswith('__'):
                    g = f.cls.method(name)
                if g is None:
                    continue
                if g in by_func:
                    out.add(by_func[g])
                out |= uses(g, seen)
        return out
    reach = set()
    for a in api:
        f = repo.lookup(mc, a)
        ck.require(f is not None, f'stereo API {a} vanished')
        reach |= uses(f, set())
    dep = {k for k in reach if 'STEREO' in P.reads(reg[k])}
    fl = repo.lookup(mc, 'flush_stereo_cache')
    popped = {n.args[0].value for n in ast.walk(fl.node) if isinstance(n, ast.Call) and isinstance(n.func, ast.Attribute) and n.func.attr == 'pop'
              and src(n.func.value) == 'self.__dict__' and n.args and isinstance(n.args[0], ast.Constant)}
    ck.require(len(reach) >= 8, f'stereo API reaches only {len(reach)} cached values; call graph broken')
    for k in sorted(dep | popped):
        ck.decide(k in dep and k in popped, R, k, 'stereo dependent and popped' if k in dep and k in popped else None,
                  (f'cached value {k} reads stereo labels and is consulted by the stereo-assignment API but flush_stereo_cache does not drop it: '
                   f'a second assignment in the same round sees stale chirality classes') if k in dep else
                  f'flush_stereo_cache pops {k}, which is not a stereo-dependent cached value of the assignment API (misspelt key?)',
                  file=fl.file, line=fl.lineno, func=fl.qualname)
    ck.floor(R, 2)
    # fix_stereo re-validates with the same set: every restore round ends with flush_stereo_cache
    fs = repo.lookup(mc, 'fix_stereo')
    calls = [n for n in ast.walk(fs.node) if isinstance(n, ast.Call) and src(n.func) == 'self.flush_stereo_cache']
    ck.decide(len(calls) >= 2, R, 'fix_stereo:flushes', len(calls), 'fix_stereo no longer drops the stereo caches after clearing the labels and after every restore round',
              file=fs.file, line=fs.lineno, func=fs.qualname)


# ---- definitional distinctness predicates of __chiral_centers -------------------------------------------------------------------------------
def _neq_pairs(test):
    """conjunction of `morgan[a] != morgan[b]` (b possibly morgan.get(b, 0)) -> list of frozenset({a, b}); None when not such a conjunction"""
    out = []
    for c in conjuncts(test):
        if not (isinstance(c, ast.Compare) and len(c.ops) == 1 and isinstance(c.ops[0], ast.NotEq)):
            return None
        ops = []
        for side in (c.left, c.comparators[0]):
            if isinstance(side, ast.Subscript) and isinstance(side.value, ast.Name) and isinstance(side.slice, ast.Name):
                ops.append(side.slice.id)
            elif isinstance(side, ast.Call) and isinstance(side.func, ast.Attribute) and side.func.attr == 'get' and side.args and isinstance(side.args[0], ast.Name):
                ops.append(side.args[0].id)
            else:
                return None
        out.append(frozenset(ops))
    return out


def rule_distinctness_predicates(ck, repo, R):
    ck.rule(R, 'the predicates that decide whether a unit is a stereocentre demand distinguishable substituents at BOTH ends: a ring-linker (spiro) tetrahedron '
               'needs distinct neighbours in each of its two rings, a cumulene needs distinct substituents on each terminal, a plain tetrahedron needs all '
               'neighbours distinct. A disjunction keeps labels on centres with one symmetric side (two spellings of one molecule compare unequal)')
    ms = repo.cls('chython.algorithms.stereo:MoleculeStereo')
    f = None
    for name, fs in ms.methods.items():
        if name.endswith('__chiral_centers'):
            f = fs[0]
    ck.require(f is not None, '__chiral_centers not found')
    # spiro: generator over self.rings_linker_tetrahedrons.items() with a 4-tuple target
    gens = [g for n in ast.walk(f.node) if isinstance(n, (ast.GeneratorExp, ast.SetComp, ast.ListComp)) for g in n.generators
            if 'rings_linker_tetrahedrons' in src(g.iter)]
    ck.require(len(gens) == 1 and len(gens[0].ifs) >= 1, '__chiral_centers: comprehension over rings_linker_tetrahedrons not found')
    g = gens[0]
    tg = [e.id for e in ast.walk(g.target) if isinstance(e, ast.Name)]
    ck.require(len(tg) == 5, f'rings_linker_tetrahedrons target has {len(tg)} names, expected centre + 4 neighbours')
    want = [frozenset(tg[1:3]), frozenset(tg[3:5])]
    test = g.ifs[0] if len(g.ifs) == 1 else ast.BoolOp(op=ast.And(), values=list(g.ifs))
    got = _neq_pairs(test)
    ck.decide(got is not None and sorted(map(sorted, got)) == sorted(map(sorted, want)), R, 'ring-linker', [sorted(x) for x in want],
              f'ring-linker tetrahedron is taken as chiral under `{src(test)}`; required: both ring pairs distinct ({" and ".join("!=".join(sorted(x)) for x in want)})',
              file=f.file, line=test.lineno if hasattr(test, 'lineno') else f.lineno, func='MoleculeStereo.__chiral_centers', construct=src(test))
    # cumulenes: for path, (n1, m1, n2, m2) in self.stereogenic_cumulenes.items(): if <test>:
    loops = [n for n in ast.walk(f.node) if isinstance(n, ast.For) and 'stereogenic_cumulenes' in src(n.iter)]
    ck.require(len(loops) == 1 and isinstance(loops[0].body[0], ast.If), '__chiral_centers: loop over stereogenic_cumulenes not found')
    lp = loops[0]
    tg = [e.id for e in ast.walk(lp.target) if isinstance(e, ast.Name)]
    ck.require(len(tg) == 5, 'stereogenic_cumulenes target: expected path + 4 neighbours')
    # env order is (n1, m1, n2, m2): n* belong to one terminal, m* to the other
    want = [frozenset((tg[1], tg[3])), frozenset((tg[2], tg[4]))]
    test = lp.body[0].test
    got = _neq_pairs(test)
    ck.decide(got is not None and sorted(map(sorted, got)) == sorted(map(sorted, want)), R, 'cumulene', [sorted(x) for x in want],
              f'cumulene is taken as chiral under `{src(test)}`; required: both terminals have distinct substituents', file=f.file, line=test.lineno,
              func='MoleculeStereo.__chiral_centers', construct=src(test))
    # sibling sites: the same both-terminals predicate guards the pseudo-centre logic of _chiral_morgan (cis/trans and allene groups)
    sib = 0
    for name, fs in ms.methods.items():
        for g_ in fs:
            for n in ast.walk(g_.node):
                if not isinstance(n, ast.If) or n is lp.body[0]:
                    continue
                t_ = n.test
                leaves = t_.values if isinstance(t_, ast.BoolOp) else [t_]
                if len(leaves) != 2 or not all(isinstance(c, ast.Compare) and len(c.ops) == 1 and isinstance(c.ops[0], ast.NotEq) and
                                               isinstance(c.comparators[0], ast.Call) and isinstance(c.comparators[0].func, ast.Attribute) and
                                               c.comparators[0].func.attr == 'get' and src(c.comparators[0].func.value) == 'morgan' for c in leaves):
                    continue
                sib += 1
                got_ = _neq_pairs(t_)
                ck.decide(got_ is not None and sorted(map(sorted, got_)) == [['n1', 'n2'], ['m1', 'm2']] or
                          got_ is not None and sorted(map(sorted, got_)) == sorted([['n1', 'n2'], ['m1', 'm2']]), R, f'sibling:{g_.qualname}:{sib}', src(t_),
                          f'{g_.qualname}: the both-terminals predicate is written `{src(t_)}` here but as a conjunction over (n1, n2) and (m1, m2) in __chiral_centers',
                          file=g_.file, line=t_.lineno, func=g_.qualname, construct=src(t_))
    ck.count(f'{R}: sibling predicate sites', sib)
    # plain tetrahedron
    comps = [n for n in ast.walk(f.node) if isinstance(n, ast.SetComp) and 'tetrahedrons.items()' in src(n.generators[0].iter)]
    ck.require(len(comps) == 1 and len(comps[0].generators[0].ifs) == 1, '__chiral_centers: tetrahedron comprehension not found')
    t = comps[0].generators[0].ifs[0]
    env = [e.id for e in ast.walk(comps[0].generators[0].target) if isinstance(e, ast.Name)][-1]
    norm = src(t).replace(' ', '')
    ok = norm in (f'len({{morgan[x]forxin{env}}})==len({env})', f'len({env})==len({{morgan[x]forxin{env}}})', f'len(set(morgan[x]forxin{env}))==len({env})')
    ck.decide(ok, R, 'tetrahedron', src(t), f'tetrahedron is taken as chiral under `{src(t)}`; required: all neighbours have distinct ranks (len of the rank set == len of the environment)',
              file=f.file, line=t.lineno, func='MoleculeStereo.__chiral_centers', construct=src(t))
    ck.floor(R, 5)


def rule_pair_key_symmetry(ck, repo, R):
    ck.rule(R, 'equivalent cis/trans bonds are grouped under a key that does not depend on the stored direction of the terminal pair (n, m): the key is the '
               'smaller of the two terminal ranks (both ranks consulted and compared). The direction of the stored pair follows atom insertion order, so a key '
               'taken from the first terminal alone splits equivalent bonds by numbering')
    ms = repo.cls('chython.algorithms.stereo:MoleculeStereo')
    f = None
    for name, fs in ms.methods.items():
        if name.endswith('__differentiation'):
            f = fs[0]
    ck.require(f is not None, '__differentiation not found')
    loops = [n for n in ast.walk(f.node) if isinstance(n, ast.For) and src(n.iter) == 'cis_trans_stereo']
    ck.require(len(loops) == 1, '__differentiation: loop over cis_trans_stereo not found')
    lp = loops[0]
    unp = [s for s in lp.body if isinstance(s, ast.Assign) and isinstance(s.targets[0], ast.Tuple) and src(s.value) == src(lp.target)]
    ck.require(len(unp) == 1 and len(unp[0].targets[0].elts) == 2, '__differentiation: `n, m = nm` not found')
    a, b = [e.id for e in unp[0].targets[0].elts]
    walrus = {n.target.id: n.value for n in ast.walk(lp) if isinstance(n, ast.NamedExpr)}
    local = {s.targets[0].id: s.value for s in ast.walk(lp) if isinstance(s, ast.Assign) and isinstance(s.targets[0], ast.Name)}

    def ends(e, depth=0):
        out = set()
        for n in ast.walk(e):
            if isinstance(n, ast.Subscript) and src(n.value) == 'morgan' and isinstance(n.slice, ast.Name) and n.slice.id in (a, b):
                out.add(n.slice.id)
            elif isinstance(n, ast.Name) and depth < 3:
                if n.id in walrus:
                    out |= ends(walrus[n.id], depth + 1)
                elif n.id in local and n.id not in (a, b):
                    out |= ends(local[n.id], depth + 1)
        return out
    keys = [n.func.value.slice for n in ast.walk(lp) if isinstance(n, ast.Call) and isinstance(n.func, ast.Attribute) and n.func.attr == 'append' and
            isinstance(n.func.value, ast.Subscript) and src(n.func.value.value) == 'grouped_stereo']
    ck.require(keys, '__differentiation: grouped_stereo[...].append not found in the cis/trans loop')
    used = set()
    for k in keys:
        used |= ends(k)
    compared = any(isinstance(n, ast.Compare) and ends(n) == {a, b} for n in ast.walk(lp)) or \
        any(isinstance(n, ast.Call) and isinstance(n.func, ast.Name) and n.func.id in ('min', 'max', 'sorted') and ends(n) == {a, b} for n in ast.walk(lp))
    ck.decide(used == {a, b} and compared, R, 'cis-trans-group-key', sorted(used),
              f'cis/trans groups are keyed by the rank of {sorted(used)} only (of the stored pair ({a}, {b})){"" if compared else " without comparing the two ranks"}: '
              f'two equivalent bonds stored in opposite directions land in different groups and the pseudo-centre refinement is skipped for them',
              file=f.file, line=keys[0].lineno, func=f.qualname, construct=src(keys[0]))
    ck.floor(R, 1)
