# -*- coding: utf-8 -*-
"""
Alias rules around the instance cache and copies:
  A1  no in-place mutation of an object obtained from a cached value (the next cached read would see the mutation)
  A2  no use of a local alias of a cached value after a call that drops that value, in particular across loop iterations
  A3  containers merged into another one are fresh copies on every path (Graph.union)
  A4  copy constructors fill the adjacency row of an atom only while walking the source row of that atom (neighbour order, which
      stereo signs are relative to, is preserved)
"""
import ast
from .core import AnalysisError
from .astutil import src, strip_doc

MOL = 'chython.containers.molecule:MoleculeContainer'
MUTATORS = {'append', 'add', 'update', 'pop', 'popitem', 'remove', 'discard', 'clear', 'extend', 'insert', 'sort', 'reverse', 'setdefault',
            'difference_update', 'intersection_update', 'symmetric_difference_update', 'appendleft', 'popleft'}
COPYING = {'copy', 'dict', 'list', 'set', 'tuple', 'sorted', 'frozenset', 'deepcopy'}


def cached_names(repo, cls):
    """attribute name (as written after `self.`) -> cache key, for cached values and for plain properties that return (part of) one"""
    reg = repo.cache_registry(cls)
    by_attr = {}
    for key, f in reg.items():
        if f.cache_kind in ('cached_property', 'class_cached_property'):
            by_attr[f.name] = {key}
    # plain properties that just forward a cached value: `return self.__chiral_centers[0]`
    for c in repo.mro(cls):
        for name, fs in c.methods.items():
            for f in fs:
                if 'property' in f.decorators and f.cache_kind is None:
                    deps = set()
                    for n in ast.walk(f.node):
                        if isinstance(n, ast.Attribute) and isinstance(n.value, ast.Name) and n.value.id == 'self':
                            a = n.attr
                            for k, g in reg.items():
                                if g.name == a and g.cache_kind == 'cached_property':
                                    deps.add(k)
                    if deps and name not in by_attr:
                        by_attr[name] = deps
    return by_attr


def _direct_alias(value, names):
    """value is `self.X` (or `self.X or ...`) with X a cached attribute -> X"""
    if isinstance(value, ast.Attribute) and isinstance(value.value, ast.Name) and value.value.id == 'self' and value.attr in names:
        return value.attr
    return None


def rule_no_mutation_of_cached(ck, repo, R):
    ck.rule(R, 'a local name bound directly to a cached value (v = self.atoms_order) is never mutated in place (subscript store / del, '
               'augmented assignment, mutating method call): the mutation would be visible to every later cached read. Copies (.copy(), dict(), '
               '{**v}, comprehensions) are fine')
    mc = repo.cls(MOL)
    names = cached_names(repo, mc)
    n_alias = 0
    for c in repo.mro(mc):
        for fs in c.methods.values():
            for f in fs:
                aliases = {}
                for a in ast.walk(f.node):
                    if isinstance(a, ast.Assign) and len(a.targets) == 1 and isinstance(a.targets[0], ast.Name):
                        x = _direct_alias(a.value, names)
                        if x:
                            aliases.setdefault(a.targets[0].id, set()).add(x)
                if not aliases:
                    continue
                # names that are ALSO assigned from something else are ambiguous: only flag when every binding is a cached alias or a copy of it
                other = {}
                for a in ast.walk(f.node):
                    if isinstance(a, ast.Assign):
                        for t in a.targets:
                            if isinstance(t, ast.Name) and t.id in aliases and _direct_alias(a.value, names) is None:
                                other.setdefault(t.id, []).append(a.value)
                for v, xs in aliases.items():
                    n_alias += 1
                    muts = []
                    for n in ast.walk(f.node):
                        if isinstance(n, ast.Subscript) and isinstance(n.ctx, (ast.Store, ast.Del)) and isinstance(n.value, ast.Name) and n.value.id == v:
                            muts.append(n)
                        elif isinstance(n, ast.AugAssign) and isinstance(n.target, ast.Subscript) and isinstance(n.target.value, ast.Name) and n.target.value.id == v:
                            muts.append(n)
                        elif isinstance(n, ast.Call) and isinstance(n.func, ast.Attribute) and n.func.attr in MUTATORS and isinstance(n.func.value, ast.Name) and n.func.value.id == v:
                            muts.append(n)
                    if muts and v in other:
                        # re-bound to a private object somewhere: only a flow-sensitive check could tell; accept if the re-binding precedes every mutation
                        first_other = min(getattr(o, 'lineno', 0) for o in other[v])
                        alias_lines = [a.lineno for a in ast.walk(f.node) if isinstance(a, ast.Assign) and len(a.targets) == 1 and isinstance(a.targets[0], ast.Name)
                                       and a.targets[0].id == v and _direct_alias(a.value, names)]
                        muts = [m for m in muts if any(al < m.lineno for al in alias_lines) and not any(al < getattr(o, 'lineno', 0) < m.lineno for o in other[v] for al in alias_lines)]
                    ck.decide(not muts, R, f'{f.qualname}:{v}<-{",".join(sorted(xs))}', None,
                              f'{f.qualname}: `{v}` is the cached value self.{"/".join(sorted(xs))} itself and is mutated in place ({src(muts[0])[:60] if muts else ""}): '
                              f'later reads of the cached value, and copies of the molecule, see different data than the first call', file=f.file,
                              line=muts[0].lineno if muts else f.lineno, func=f.qualname, construct=src(muts[0])[:100] if muts else None)
    ck.count('locals aliasing a cached value', n_alias)
    ck.require(n_alias >= 30, f'only {n_alias} cached-value aliases found in the container MRO (38 on the pinned tree)')


def _flush_drops(call, names_all):
    """set of cache keys a call drops: ('ALL', kept) for flush_cache, explicit keys for flush_stereo_cache / __dict__.pop"""
    f = call.func
    if isinstance(f, ast.Attribute) and isinstance(f.value, ast.Name) and f.value.id == 'self':
        if f.attr == 'flush_cache':
            kept = {k.arg for k in call.keywords if k.arg and k.arg.startswith('keep_') and not (isinstance(k.value, ast.Constant) and k.value.value is False)}
            return 'ALL', kept
        if f.attr == 'flush_stereo_cache':
            return 'STEREO', set()
    if isinstance(f, ast.Attribute) and f.attr == 'pop' and src(f.value) == 'self.__dict__' and call.args and isinstance(call.args[0], ast.Constant):
        return 'KEY', {call.args[0].value}
    return None


def rule_no_stale_alias(ck, repo, R):
    ck.rule(R, 'a local alias of a cached value is not read after a call that drops that value: in particular an alias taken before a loop is not '
               'used inside the loop when the loop body flushes the value (second iteration would read the dropped object)')
    from .effects import Protocol
    P = Protocol(repo)
    mc = P.container
    names = cached_names(repo, mc)
    stereo_keys = set()
    fl = repo.lookup(mc, 'flush_stereo_cache')
    for n in ast.walk(fl.node):
        if isinstance(n, ast.Call) and isinstance(n.func, ast.Attribute) and n.func.attr == 'pop' and n.args and isinstance(n.args[0], ast.Constant):
            stereo_keys.add(n.args[0].value)
    kept_keys = {flag: set(keys) for flag, keys in P.kept.items()}
    n_checked = 0
    for c in repo.mro(mc):
        for fs in c.methods.values():
            for f in fs:
                for loop in [n for n in ast.walk(f.node) if isinstance(n, (ast.While, ast.For))]:
                    flushes = []
                    for n in ast.walk(loop):
                        if isinstance(n, ast.Call):
                            d = _flush_drops(n, names)
                            if d:
                                flushes.append((n, d))
                    if not flushes:
                        continue
                    # aliases assigned outside this loop (before it), read inside it
                    inside = set(ast.walk(loop))
                    for a in ast.walk(f.node):
                        if a in inside or not (isinstance(a, ast.Assign) and len(a.targets) == 1 and isinstance(a.targets[0], ast.Name)):
                            continue
                        x = _direct_alias(a.value, names)
                        if not x or a.lineno > loop.lineno:
                            continue
                        v = a.targets[0].id
                        reads = [n for n in ast.walk(loop) if isinstance(n, ast.Name) and n.id == v and isinstance(n.ctx, ast.Load)]
                        if not reads:
                            continue
                        # re-assigned inside the loop before use? then the alias is refreshed
                        reassigned = any(isinstance(n, ast.Assign) and any(isinstance(t, ast.Name) and t.id == v for t in n.targets) for n in ast.walk(loop))
                        if reassigned:
                            continue
                        keys = names[x]
                        dropped = False
                        for call, (kind, arg) in flushes:
                            if kind == 'ALL':
                                kept = set()
                                for flag in arg:
                                    kept |= kept_keys.get(flag, set())
                                if not keys <= kept:
                                    dropped = True
                            elif kind == 'STEREO':
                                if keys & stereo_keys:
                                    dropped = True
                            elif kind == 'KEY':
                                if keys & arg:
                                    dropped = True
                        n_checked += 1
                        ck.decide(not dropped, R, f'{f.qualname}:{v}<-{x}', None,
                                  f'{f.qualname}: `{v} = self.{x}` is taken before the loop at line {loop.lineno} but the loop body drops that cached value '
                                  f'and keeps reading `{v}`: from the second iteration on the stale object is used', file=f.file, line=a.lineno, func=f.qualname,
                                  construct=src(a))
    ck.count('aliases read inside flushing loops', n_checked)
    # positive control: the rule must see the loop of fix_stereo with its flush
    fs = repo.lookup(mc, 'fix_stereo')
    ck.require(any(isinstance(n, ast.While) and any(isinstance(c, ast.Call) and src(c.func) == 'self.flush_stereo_cache' for c in ast.walk(n)) for n in ast.walk(fs.node)),
               'fix_stereo: restore loop with flush_stereo_cache not found')
    lp = next(n for n in ast.walk(fs.node) if isinstance(n, ast.While))
    inner = [src(a.value) for a in ast.walk(lp) if isinstance(a, ast.Assign) and _direct_alias(a.value, names)]
    ck.decide({'self.chiral_tetrahedrons', 'self.chiral_allenes', 'self.chiral_cis_trans'} <= set(inner), R, 'fix_stereo:re-reads-chiral-sets', sorted(inner),
              f'fix_stereo no longer re-reads the chiral sets inside its restore loop (reads there: {sorted(inner)})', file=fs.file, line=lp.lineno, func=fs.qualname)


def rule_fix_stereo_exit(ck, repo, R):
    ck.rule(R, 'fix_stereo: the restore loop can only be left (a) through its `while` test after a flush_stereo_cache at the end of the body, or (b) by a '
               'break taken exactly when the number of unresolved labels did not change in this pass (nothing was restored since the last flush)')
    mc = repo.cls(MOL)
    fs = repo.lookup(mc, 'fix_stereo')
    loops = [n for n in fs.node.body if isinstance(n, ast.While)]
    ck.require(len(loops) == 1, 'fix_stereo: restore loop not found')
    lp = loops[0]
    last = lp.body[-1]
    ck.decide(isinstance(last, ast.Expr) and src(last.value) == 'self.flush_stereo_cache()', R, 'loop-ends-with-flush', src(last)[:60],
              'the restore loop no longer ends with flush_stereo_cache(): the next pass (or the caller) reads chirality classes computed before the restore',
              file=fs.file, line=last.lineno, func=fs.qualname)
    breaks = []
    for n in ast.walk(lp):
        if isinstance(n, ast.If) and any(isinstance(x, ast.Break) for x in n.body):
            breaks.append(n)
    ck.require(len(breaks) == 1, f'fix_stereo: expected one guarded break, found {len(breaks)}')
    t = breaks[0].test
    ok = isinstance(t, ast.Compare) and len(t.ops) == 1 and isinstance(t.ops[0], ast.Eq) and {src(t.left), src(t.comparators[0])} == {'fail_stereo', 'old_stereo'}
    ck.decide(ok, R, 'break-only-when-unchanged', src(t),
              f'the restore loop breaks under `{src(t)}`: leaving after labels were restored skips flush_stereo_cache and the label-less chirality '
              f'classes stay cached (canonical SMILES then depends on atom numbering for meso-like molecules)', file=fs.file, line=breaks[0].lineno, func=fs.qualname)
    # the counters are what they claim to be
    s = src(fs.node)
    ck.decide('old_stereo = len(atoms_stereo) + len(allenes_stereo) + len(cis_trans_stereo)' in s and 'fail_stereo = len(atoms_stereo) + len(allenes_stereo) + len(cis_trans_stereo)' in s
              and 'old_stereo = fail_stereo' in s, R, 'counters', None, 'old_stereo / fail_stereo are no longer the numbers of unresolved labels before / after the pass',
              file=fs.file, line=fs.lineno)
    pre = [x for x in fs.node.body[:fs.node.body.index(lp)] if isinstance(x, ast.Expr) and src(x.value) == 'self.flush_stereo_cache()']
    ck.decide(len(pre) == 1, R, 'flush-after-clearing', None, 'fix_stereo no longer drops the stereo caches after clearing all labels', file=fs.file, line=fs.lineno)


def rule_merge_fresh(ck, repo, R):
    ck.rule(R, 'Graph.union merges only a fresh copy of the other graph: on every path `other` is re-bound to other.copy() before its _atoms / _bonds are '
               'merged in (otherwise the union shares atom and bond objects with its source)')
    f = repo.func('chython.containers.graph:Graph.union')
    merged = [n for n in ast.walk(f.node) if isinstance(n, ast.Call) and isinstance(n.func, ast.Attribute) and n.func.attr == 'update' and n.args and
              isinstance(n.args[0], ast.Attribute) and n.args[0].attr in ('_atoms', '_bonds') and isinstance(n.args[0].value, ast.Name)]
    ck.require(len(merged) == 2, 'Graph.union: the two .update(other._atoms/_bonds) merges not found')
    donor = {m.args[0].value.id for m in merged}
    ck.require(len(donor) == 1, 'Graph.union merges from several objects')
    donor = donor.pop()

    def fresh_after(body, fresh):
        """must-analysis: is `donor` definitely a copy at the end of body"""
        for st in body:
            if isinstance(st, ast.Assign) and any(isinstance(t, ast.Name) and t.id == donor for t in st.targets):
                fresh = isinstance(st.value, ast.Call) and isinstance(st.value.func, ast.Attribute) and st.value.func.attr == 'copy' and src(st.value.func.value) == donor
            elif isinstance(st, ast.If):
                a = fresh_after(st.body, fresh)
                b = fresh_after(st.orelse, fresh)
                from .astutil import terminates
                if terminates(st.body):
                    fresh = b
                elif st.orelse and terminates(st.orelse):
                    fresh = a
                else:
                    fresh = a and b
            elif any(m in ast.walk(st) for m in merged):
                results.append(fresh)
        return fresh
    results = []
    fresh_after(strip_doc(f.node.body), False)
    ck.decide(len(results) == 2 and all(results), R, 'union:other-is-copy', results,
              f'Graph.union can merge `{donor}._atoms` / `{donor}._bonds` without having copied `{donor}` on that path: editing the union then edits the source molecule',
              file=f.file, line=merged[0].lineno, func=f.qualname)
    u = [n for n in ast.walk(f.node) if isinstance(n, ast.Assign) and src(n.targets[0]) == 'u']
    ok_u = len(u) == 1 and src(u[0].value) == 'self.copy() if copy else self'
    if not ok_u and len(u) == 2:
        # statement spelling: if copy: u = self.copy() else: u = self  (either way round)
        for n_ in ast.walk(f.node):
            if isinstance(n_, ast.If) and len(n_.body) == 1 and len(n_.orelse) == 1 and {id(n_.body[0]), id(n_.orelse[0])} == {id(x) for x in u}:
                pos, neg = (n_.body[0], n_.orelse[0]) if src(n_.test) == 'copy' else (n_.orelse[0], n_.body[0]) if src(n_.test) == 'not copy' else (None, None)
                ok_u = pos is not None and src(pos.value) == 'self.copy()' and src(neg.value) == 'self'
    ck.decide(ok_u, R, 'union:receiver-copy', src(u[0].value) if u else None,
              'Graph.union no longer copies the receiver when copy=True', file=f.file, line=f.lineno)


def rule_row_order(ck, repo, R):
    ck.rule(R, 'copy constructors (Graph.copy, MoleculeContainer.substructure, CGRContainer.substructure) fill the adjacency row of an atom only while walking '
               'the source row of that atom: every store goes to the row of the outer-loop atom, back-references are read from the other row, never written into it; '
               'stereo signs are relative to neighbour order, so rows must keep the source order')
    for fq in ('chython.containers.graph:Graph.copy', 'chython.containers.molecule:MoleculeContainer.substructure', 'chython.containers.cgr:CGRContainer.substructure'):
        f = repo.func(fq)
        # the fresh adjacency table: `<new>._bonds = T = ...`
        tabs = [a for a in ast.walk(f.node) if isinstance(a, ast.Assign) and any(isinstance(t, ast.Attribute) and t.attr == '_bonds' for t in a.targets)
                and any(isinstance(t, ast.Name) for t in a.targets)]
        if len(tabs) == 1:
            table = next(t.id for t in tabs[0].targets if isinstance(t, ast.Name))
        else:
            # split form: `T = {}` ... `<new>._bonds = T`
            plain = [a for a in ast.walk(f.node) if isinstance(a, ast.Assign) and len(a.targets) == 1 and isinstance(a.targets[0], ast.Attribute) and
                     a.targets[0].attr == '_bonds' and isinstance(a.value, ast.Name) and not (isinstance(a.targets[0].value, ast.Name) and a.targets[0].value.id == 'self')]
            ck.require(len(plain) == 1, f'{fq}: `<new>._bonds = T = ...` not found')
            table = plain[0].value.id
        # row aliases: `T[k] = row = {}` or `row = T[k]`
        rows = {}
        for a in ast.walk(f.node):
            if isinstance(a, ast.Assign):
                subs = [t for t in a.targets if isinstance(t, ast.Subscript) and src(t.value) == table]
                nms = [t for t in a.targets if isinstance(t, ast.Name)]
                if subs and nms:
                    rows[nms[0].id] = src(subs[0].slice)
                elif subs and len(a.targets) == 1 and isinstance(a.value, ast.Name):
                    rows[a.value.id] = src(subs[0].slice)  # `row = {}` ... `T[k] = row`
                elif len(a.targets) == 1 and isinstance(a.targets[0], ast.Name) and isinstance(a.value, ast.Subscript) and src(a.value.value) == table:
                    rows[a.targets[0].id] = src(a.value.slice)
        # bond stores: row[x] = ...  or  T[k][x] = ...
        stores = []
        for n in ast.walk(f.node):
            if isinstance(n, ast.Subscript) and isinstance(n.ctx, ast.Store):
                if isinstance(n.value, ast.Name) and n.value.id in rows:
                    stores.append((rows[n.value.id], n))
                elif isinstance(n.value, ast.Subscript) and src(n.value.value) == table:
                    stores.append((src(n.value.slice), n))
        ck.require(stores, f'{fq}: no bond stores into the new adjacency found')
        loops = [l for l in ast.walk(f.node) if isinstance(l, ast.For) and any(s[1] in ast.walk(l) for s in stores)]
        ck.require(loops, f'{fq}: loop around the bond stores not found')
        outer = loops[0]
        ovar = src(outer.target.elts[0]) if isinstance(outer.target, ast.Tuple) else src(outer.target)
        for k, n in stores:
            ck.decide(k == ovar, R, f'{f.qualname}:store:{src(n)}', f'row of {k}',
                      f'{f.qualname}: `{src(n)}` writes into the row of atom `{k}` while the outer loop walks atom `{ovar}`: the neighbour order of `{k}` no longer follows '
                      f'the source order, and stereo marks that are copied verbatim change their meaning', file=f.file, line=n.lineno, func=f.qualname, construct=src(n))
        inner = loops[-1]
        it = src(inner.iter)
        ck.decide(it == 'm_bond.items()' or it.endswith(f'[{ovar}].items()'), R, f'{f.qualname}:walks-source-row', it,
                  f'{f.qualname}: the new row of atom {ovar} is filled while iterating `{it}`, not the source row of that atom', file=f.file, line=inner.lineno, func=f.qualname)
        back = [a for a in ast.walk(f.node) if isinstance(a, ast.Assign) and isinstance(a.value, ast.Subscript) and isinstance(a.value.value, ast.Subscript) and
                src(a.value.value.value) == table]
        ck.decide(len(back) == 1 and src(back[0].value.slice) == ovar, R, f'{f.qualname}:back-reference', [src(b) for b in back],
                  f'{f.qualname}: the second direction of a bond is no longer a reference to the object stored under the first direction', file=f.file, line=f.lineno, func=f.qualname)


def rule_retry_flush(ck, repo, R, modules, floor):
    """retry loops that add stereo labels with clean_cache=False must drop the stereo cache before every further pass"""
    ck.rule(R, 'a loop that applies stereo marks with clean_cache=False and retries the ones that failed (NotChiral) calls flush_stereo_cache() (or '
               'flush_cache()) inside the loop before every further pass: the retried marks are exactly those that become stereogenic through the '
               'labels just added, which only a recomputed chiral set can see. A single flush after the loop makes every retry fail again and the '
               'marks are dropped silently')
    n_loops = 0
    for f in repo.all_functions():
        if f.module.name not in modules:
            continue
        for loop in ast.walk(f.node):
            if not isinstance(loop, ast.While):
                continue
            deferred = [c for c in ast.walk(loop) if isinstance(c, ast.Call) and any(k.arg == 'clean_cache' and isinstance(k.value, ast.Constant) and k.value.value is False
                                                                                     for k in c.keywords)]
            if not deferred:
                continue
            n_loops += 1
            key = f'{f.fq}:while@{src(loop.test)[:30]}'
            # every way back to the loop head: explicit `continue` statements of this loop + falling off the end of the body
            backs = []

            def collect(body, inner_loop=False):
                for i, s in enumerate(body):
                    if isinstance(s, ast.Continue) and not inner_loop:
                        backs.append((body, i, s))
                    for fld in ('body', 'orelse', 'finalbody'):
                        sub = getattr(s, fld, None)
                        if isinstance(sub, list) and sub and isinstance(sub[0], ast.stmt):
                            # the else-branch of an inner for belongs to the outer loop for `continue`
                            collect(sub, inner_loop or (isinstance(s, (ast.For, ast.While)) and fld == 'body'))
                    if isinstance(s, ast.Try):
                        for h in s.handlers:
                            collect(h.body, inner_loop)
            collect(loop.body)
            last = loop.body[-1]
            falls = not isinstance(last, (ast.Break, ast.Continue, ast.Return, ast.Raise))

            def is_flush(s):
                return any(isinstance(c, ast.Call) and isinstance(c.func, ast.Attribute) and c.func.attr in ('flush_stereo_cache', 'flush_cache') for c in ast.walk(s))
            bad = []
            for body, i, s in backs:
                if not any(is_flush(x) for x in body[:i]):
                    bad.append(s)
            if falls and not any(is_flush(x) for x in loop.body):
                bad.append(last)
            if not backs and not falls:
                raise AnalysisError(f'{f.fq}: retry loop without a way back to its head; shape not recognised')
            ck.decide(not bad, R, key, f'{len(backs) + int(falls)} way(s) back to the loop head, each after a flush',
                      f'{f.qualname}: the retry loop re-enters a pass (line {bad[0].lineno if bad else 0}) without flush_stereo_cache() since the marks were applied with '
                      f'clean_cache=False: the next pass still sees the chiral set computed before the new labels, every retried mark fails again and is dropped',
                      file=f.file, line=bad[0].lineno if bad else loop.lineno, func=f.qualname, construct=src(loop.test))
    ck.count(f'{R}: retry loops', n_loops)
    ck.floor(R, floor)
