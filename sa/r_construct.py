# -*- coding: utf-8 -*-
"""
Rules B2 (keep lists, literal cache keys), B4 (construction typestate, transaction restore), B5 (ownership in
copies), B6 (adjacency symmetry), B7 (pending-change set). All syntax-directed over the ast.
"""
import ast
from .core import AnalysisError
from .model import ClassInfo
from .astutil import single_defs, reach_conditions, enclosing_map, src, strip_doc, if_chain, terminates
from .effects import Protocol

MOL = 'chython.containers.molecule:MoleculeContainer'
LABEL_SLOTS = {'_explicit_hydrogens', '_neighbors', '_heteroatoms', '_hybridization', '_ring_sizes', '_in_ring'}
# (class name, slot): reason -- slots that need not be assigned at construction
OPTIONAL_SLOTS = {
    ('MoleculeContainer', '_conformers'): 'every reader is hasattr-guarded or an explicit user request (write3d)',
    ('Element', '_parsed_mapping'): 'never read back (checked on every run: no load of ._parsed_mapping in the package)',
    ('ListElement', '__dict__'): 'instance dict',
}


# ------------------------------------------------------------------------------------------------------------------
# B2
# ------------------------------------------------------------------------------------------------------------------
def rule_keep_lists(ck, repo):
    R = 'B2a-keep-lists'
    ck.rule(R, 'MoleculeContainer.flush_cache(keep_*) and copy(keep_*) name the same cache keys, every key is a cached '
               'value of the class (a misspelt key is a silently dead keep)')
    P = Protocol(repo)
    mc = P.container
    reg = repo.cache_registry(mc)
    flush = repo.lookup(mc, 'flush_cache')
    cp = repo.lookup(mc, 'copy')
    kf, kc = P._keep_tuples(flush), P._keep_tuples(cp)
    ck.require(set(kf) == {'keep_sssr', 'keep_components'}, 'keep flags of flush_cache not recognised')
    for flag in sorted(kf):
        ck.decide(kf[flag] == kc.get(flag), R, f'{flag}:flush==copy', list(kf[flag]),
                  f'flush_cache keeps {kf[flag]} under {flag}, copy transfers {kc.get(flag)}',
                  file=cp.file, line=cp.lineno, func=cp.qualname)
        for k in kf[flag]:
            ck.decide(k in reg, R, f'{flag}:{k}', reg[k].fq if k in reg else None,
                      f'kept key {k!r} is not a cached value of MoleculeContainer', file=flush.file, line=flush.lineno,
                      func=flush.qualname)
    # keeping is opt-in: every keep_* parameter of every method of the container MRO defaults to False. Callers that change the structure
    # (Graph.union writes into `self.copy()`, every mutator calls flush_cache()) rely on the default dropping / not transferring the ring and
    # component caches
    n_def = 0
    for c in repo.mro(mc):
        for fs_ in c.methods.values():
            for f in fs_:
                a = f.node.args
                pos = a.posonlyargs + a.args
                pairs = list(zip(pos[len(pos) - len(a.defaults):], a.defaults)) + [(x, d) for x, d in zip(a.kwonlyargs, a.kw_defaults) if d is not None]
                for arg, d in pairs:
                    if arg.arg.startswith('keep_') and arg.arg in ('keep_sssr', 'keep_components'):
                        n_def += 1
                        ck.decide(isinstance(d, ast.Constant) and d.value is False, R, f'{f.qualname}:{arg.arg}:default', src(d),
                                  f'{f.qualname}({arg.arg}={src(d)}): keeping cached ring / component data is opt-in; with this default every caller that relies on '
                                  f'a plain call to drop (or not to copy) them serves stale rings after its own structural writes',
                                  file=f.file, line=f.lineno, func=f.qualname, construct=f'{arg.arg}={src(d)}')
    ck.count('keep_* defaults', n_def)
    # what the kept keys read must not include anything a "structure unchanged" flush is used after
    ck.note(f'kept keys read: keep_sssr -> {sorted(P.kept_reads["keep_sssr"])}, keep_components -> {sorted(P.kept_reads["keep_components"])}')
    ck.decide(P.kept_reads['keep_sssr'] <= {'ATOMS', 'TOPO', 'IS8'} and P.kept_reads['keep_components'] <= {'ATOMS', 'TOPO'},
              R, 'kept-read-sets', {k: sorted(v) for k, v in P.kept_reads.items()},
              f'a kept cached value now reads more than connectivity: {P.kept_reads} (every keep_* flush after an order/charge/'
              f'hydrogen write would serve it stale)', file=flush.file, line=flush.lineno)
    ck.floor(R, 8)
    return P


def container_classes(repo):
    out = []
    for fq in ('chython.containers.molecule:MoleculeContainer', 'chython.containers.cgr:CGRContainer',
               'chython.containers.query:QueryContainer', 'chython.containers.reaction:ReactionContainer'):
        out.append(repo.cls(fq))
    return out


def rule_literal_keys(ck, repo):
    R = 'B2c-literal-keys'
    ck.rule(R, 'every literal key used with self.__dict__[...] / .pop / del / in names a cached value of every container '
               'class whose MRO contains the method; manual stores into __str__/smiles_atoms_order use the canonical '
               '_smiles(...) call of the owning function')
    conts = container_classes(repo)
    n = 0
    for f in repo.all_functions():
        if f.cls is None:
            continue
        users = [c for c in conts if f.cls in repo.mro(c)]
        if not users:
            continue
        for node in ast.walk(f.node):
            key = None
            how = None
            if isinstance(node, ast.Subscript) and src(node.value) == 'self.__dict__' and isinstance(node.slice, ast.Constant):
                key, how = node.slice.value, 'store' if isinstance(node.ctx, ast.Store) else 'del' if isinstance(node.ctx, ast.Del) else 'load'
            elif isinstance(node, ast.Call) and isinstance(node.func, ast.Attribute) and node.func.attr in ('pop', 'get') and \
                    src(node.func.value) == 'self.__dict__' and node.args and isinstance(node.args[0], ast.Constant):
                key, how = node.args[0].value, node.func.attr
            elif isinstance(node, ast.Compare) and len(node.ops) == 1 and isinstance(node.ops[0], (ast.In, ast.NotIn)) and \
                    src(node.comparators[0]) == 'self.__dict__' and isinstance(node.left, ast.Constant):
                key, how = node.left.value, 'in'
            if key is None:
                continue
            n += 1
            missing = [c.name for c in users if key not in repo.cache_registry(c)]
            # a mixin shared by several containers may address a key only some of them have, if guarded by that container
            concrete = [c for c in users if key in repo.cache_registry(c)]
            ck.decide(bool(concrete) and (not missing or f.cls.name in ('Standardize', 'MoleculeStereo', 'Calculate2DMolecule', 'MoleculeContainer') or len(concrete) >= 1 and how != 'store'),
                      R, f'{f.qualname}:{how}:{key}', [c.name for c in concrete],
                      f'{f.qualname}: {how} of cache key {key!r} which is not a cached value of {missing}',
                      file=f.file, line=node.lineno, func=f.qualname, construct=src(node))
    ck.count('literal cache-key uses', n)
    ck.floor(R, 12)
    # canonical call agreement for the pre-seeded caches
    sm = repo.cls('chython.algorithms.smiles:Smiles')
    owner = sm.method('__str__')
    ck.require(owner is not None, 'Smiles.__str__ vanished')
    canon = [src(c) for c in ast.walk(owner.node) if isinstance(c, ast.Call) and isinstance(c.func, ast.Attribute) and c.func.attr == '_smiles']
    ck.require(len(canon) == 1, 'Smiles.__str__ no longer makes exactly one _smiles call')
    canon = canon[0]
    for f in [x for fs in sm.methods.values() for x in fs]:
        for blk in _blocks(f.node):
            stores = [s for s in blk if isinstance(s, ast.Assign) and any(
                isinstance(t, ast.Subscript) and src(t.value) == 'self.__dict__' and isinstance(t.slice, ast.Constant) and
                t.slice.value in ('__cached_method___str__', 'smiles_atoms_order') for t in s.targets)]
            if not stores and not any(isinstance(s, ast.If) and _stores_in(s) for s in blk):
                continue
            if not stores:
                continue
            calls = [src(c) for s in blk for c in ast.walk(s) if isinstance(c, ast.Call) and isinstance(c.func, ast.Attribute) and c.func.attr == '_smiles'
                     and s.lineno <= stores[0].lineno]
            if not calls:
                # stores nested in an if of this block: look at calls of the enclosing block before it
                continue
            for st in stores:
                ck.decide(calls[-1] == canon, R, f'seed:{f.qualname}:{src(st.targets[0])}', calls[-1],
                          f'{f.qualname} pre-seeds {src(st.targets[0])} from `{calls[-1]}` but the owning function computes `{canon}`: '
                          f'first call and cached call would differ', file=f.file, line=st.lineno, func=f.qualname, construct=src(st))
    # stores nested one level (if cx: ... else: ...) inherit the call of the enclosing block
    for f in [x for fs in sm.methods.values() for x in fs]:
        for blk in _blocks(f.node):
            calls = []
            for s in blk:
                for c in ast.walk(s):
                    if isinstance(c, ast.Call) and isinstance(c.func, ast.Attribute) and c.func.attr == '_smiles' and not isinstance(s, (ast.If, ast.For, ast.While)):
                        calls.append(src(c))
                if isinstance(s, ast.If) and calls:
                    for sub in ast.walk(s):
                        if isinstance(sub, ast.Assign) and any(isinstance(t, ast.Subscript) and src(t.value) == 'self.__dict__' and
                                                               isinstance(t.slice, ast.Constant) and t.slice.value == '__cached_method___str__'
                                                               for t in sub.targets):
                            ck.decide(calls[-1] == canon, R, f'seed:{f.qualname}:nested:{src(sub.targets[0])}', calls[-1],
                                      f'{f.qualname} pre-seeds the cached string from `{calls[-1]}`, owner computes `{canon}`',
                                      file=f.file, line=sub.lineno, func=f.qualname, construct=src(sub))


def _call_deps(fnode, expr, at):
    """self-method names the value of `expr` (evaluated at statement `at`) depends on: through local assignments, in-place extensions
    (x.append(y)), walrus bindings, and the tests of the if-statements enclosing those statements (control dependence). Flow-insensitive."""
    parents = {}
    for p_ in ast.walk(fnode):
        for ch in ast.iter_child_nodes(p_):
            parents[ch] = p_

    def guards(node):
        out = []
        p_ = parents.get(node)
        while p_ is not None and p_ is not fnode:
            if isinstance(p_, (ast.If, ast.While)):
                out.append(p_.test)
            p_ = parents.get(p_)
        return out

    defs = {}
    for n in ast.walk(fnode):
        if isinstance(n, ast.Assign):
            for t in n.targets:
                for tt in ast.walk(t):
                    if isinstance(tt, ast.Name):
                        defs.setdefault(tt.id, []).append((n.value, n))
        elif isinstance(n, ast.NamedExpr):
            defs.setdefault(n.target.id, []).append((n.value, n))
        elif isinstance(n, ast.Call) and isinstance(n.func, ast.Attribute) and n.func.attr in ('append', 'extend', 'insert') and isinstance(n.func.value, ast.Name):
            for a in n.args:
                defs.setdefault(n.func.value.id, []).append((a, n))
    def branches(node):
        out = {}
        ch, p_ = node, parents.get(node)
        while p_ is not None:
            if isinstance(p_, ast.If):
                if any(ch is x for x in p_.body):
                    out[id(p_)] = 'body'
                elif any(ch is x for x in p_.orelse):
                    out[id(p_)] = 'orelse'
            ch, p_ = p_, parents.get(p_)
        return out

    here = branches(at)

    def exclusive(stmt):
        b = branches(stmt)
        return any(k in here and here[k] != v for k, v in b.items())

    calls, seen, todo = set(), set(), [expr] + guards(at)
    while todo:
        e = todo.pop()
        for n in ast.walk(e):
            if isinstance(n, ast.Call) and isinstance(n.func, ast.Attribute) and src(n.func.value) == 'self':
                calls.add(n.func.attr)
            if isinstance(n, ast.Name) and n.id not in seen:
                seen.add(n.id)
                for v, stmt in defs.get(n.id, ()):
                    if exclusive(stmt):
                        continue  # a definition in the other arm of an if cannot reach this statement
                    todo.append(v)
                    todo.extend(guards(stmt))
    return calls


def rule_seeded_string_complete(ck, repo, R):
    """every place that pre-seeds the cached canonical string builds it from everything the owner (__str__) builds it from"""
    ck.rule(R, 'Smiles.__str__ composes its value from _smiles(...) and the CXSMILES block _format_cxsmiles(order) (radicals live only there); every '
               'other method that stores into the __str__ cache slot composes the stored value from the same calls (data or control dependence), '
               'so the string served from the cache equals the string a first call would compute')
    sm = repo.cls('chython.algorithms.smiles:Smiles')
    owner = sm.method('__str__')
    ck.require(owner is not None, 'Smiles.__str__ vanished')
    rets = [n for n in ast.walk(owner.node) if isinstance(n, ast.Return) and n.value is not None]
    ck.require(len(rets) == 1, 'Smiles.__str__: expected one return')
    need = _call_deps(owner.node, rets[0].value, rets[0]) & {'_smiles', '_format_cxsmiles', '_smiles_order'}
    if not {'_smiles', '_format_cxsmiles'} <= need:
        ck.defer(f'Smiles.__str__ no longer composes _smiles and _format_cxsmiles ({sorted(need)}); rule {R} cannot compare the seeding sites')
        return
    n_st = 0
    for f in [x for fs in sm.methods.values() for x in fs]:
        for st in ast.walk(f.node):
            if isinstance(st, ast.Assign) and any(isinstance(t, ast.Subscript) and src(t.value) == 'self.__dict__' and isinstance(t.slice, ast.Constant) and
                                                    t.slice.value == '__cached_method___str__' for t in st.targets):
                n_st += 1
                got = _call_deps(f.node, st.value, st)
                ck.decide(need <= got, R, f'{f.qualname}:{src(st.value)[:40]}', sorted(got & need),
                          f'{f.qualname} stores `{src(st.value)[:60]}` into the __str__ cache; it is composed from {sorted(got & need)} but __str__ itself composes '
                          f'{sorted(need)}: after this method ran first, str()/hash()/== serve a string without {sorted(need - got)}',
                          file=f.file, line=st.lineno, func=f.qualname, construct=src(st)[:120])
    ck.count(f'{R}: seeding stores', n_st)
    ck.floor(R, 2)


def _stores_in(node):
    return any(isinstance(n, ast.Subscript) and src(n.value) == 'self.__dict__' and isinstance(n.ctx, ast.Store) for n in ast.walk(node))


def _blocks(fnode):
    """every statement list of a function"""
    for n in ast.walk(fnode):
        for field in ('body', 'orelse', 'finalbody'):
            b = getattr(n, field, None)
            if isinstance(b, list) and b and isinstance(b[0], ast.stmt):
                yield b
        if isinstance(n, ast.Try):
            for h in n.handlers:
                yield h.body


# ------------------------------------------------------------------------------------------------------------------
# B4 construction
# ------------------------------------------------------------------------------------------------------------------
class MustAssign:
    """attributes definitely assigned on a variable at each `return <var>` of a function"""

    def __init__(self, repo, func, cls, bind=None):
        self.repo = repo
        self.func = func
        self.cls = cls
        self.bind = bind or {}
        self.returns = []  # (line, var, frozenset attrs)
        self.created = set()

    def run(self):
        self.walk(strip_doc(self.func.node.body), {})
        return self.returns

    def static(self, test):
        if isinstance(test, ast.Name) and test.id in self.bind:
            return bool(self.bind[test.id])
        if isinstance(test, ast.UnaryOp) and isinstance(test.op, ast.Not):
            v = self.static(test.operand)
            return None if v is None else not v
        return None

    def creation(self, value):
        """empty set for object.__new__(..)/Class(); inherited set for super().m(...)"""
        if isinstance(value, ast.Call):
            f = value.func
            if src(f) == 'object.__new__':
                return frozenset()
            if isinstance(f, ast.Attribute) and isinstance(f.value, ast.Call) and src(f.value.func) == 'super':
                g = self.repo.lookup(self.cls, f.attr, after=self.func.cls)
                if g is not None:
                    bind = {}
                    for k in value.keywords:
                        if k.arg and isinstance(k.value, ast.Constant):
                            bind[k.arg] = k.value.value
                        elif k.arg and isinstance(k.value, ast.Name) and k.value.id in self.bind:
                            bind[k.arg] = self.bind[k.value.id]
                    rets = MustAssign(self.repo, g, self.cls, bind).run()
                    if rets:
                        out = None
                        for _, _, a in rets:
                            out = a if out is None else out & a
                        return out
        return None

    def walk(self, body, state):
        """state: var -> frozenset(attrs); returns state at fall-through or None if the block always leaves"""
        for st in body:
            if state is None:
                return None
            if isinstance(st, ast.Assign):
                c = self.creation(st.value)
                for t in st.targets:
                    if isinstance(t, ast.Name) and c is not None:
                        state = dict(state)
                        state[t.id] = c
                        self.created.add(t.id)
                    else:
                        for a in self._attr_targets(t):
                            if a[0] in state:
                                state = dict(state)
                                state[a[0]] = state[a[0]] | {a[1]}
            elif isinstance(st, ast.AugAssign):
                pass
            elif isinstance(st, ast.If):
                v = self.static(st.test)
                if v is True:
                    state = self.walk(st.body, state)
                elif v is False:
                    state = self.walk(st.orelse, state)
                else:
                    a = self.walk(st.body, dict(state))
                    b = self.walk(st.orelse, dict(state))
                    state = self.join(a, b)
            elif isinstance(st, (ast.For, ast.While)):
                self.walk(st.body, dict(state))  # body may not run: nothing definite is gained
                if st.orelse:
                    state = self.walk(st.orelse, state)
            elif isinstance(st, ast.Try):
                a = self.walk(st.body, dict(state))
                outs = [a]
                for h in st.handlers:
                    outs.append(self.walk(h.body, dict(state)))
                s = None
                first = True
                for o in outs:
                    if o is None:
                        continue
                    s = o if first else self.join(s, o)
                    first = False
                state = s
                if st.finalbody and state is not None:
                    state = self.walk(st.finalbody, state)
            elif isinstance(st, ast.With):
                state = self.walk(st.body, state)
            elif isinstance(st, ast.Return):
                if isinstance(st.value, ast.Name) and st.value.id in state:
                    self.returns.append((st.lineno, st.value.id, state[st.value.id]))
                return None
            elif isinstance(st, ast.Expr) and isinstance(st.value, (ast.Yield,)) and isinstance(st.value.value, ast.Name) and \
                    st.value.value.id in state:
                self.returns.append((st.lineno, st.value.value.id, state[st.value.value.id]))
            elif isinstance(st, ast.Raise):
                return None
        return state

    @staticmethod
    def join(a, b):
        if a is None:
            return b
        if b is None:
            return a
        return {k: a[k] & b[k] for k in a if k in b}

    def _attr_targets(self, t):
        if isinstance(t, ast.Attribute) and isinstance(t.value, ast.Name):
            yield t.value.id, t.attr
        elif isinstance(t, (ast.Tuple, ast.List)):
            for e in t.elts:
                yield from self._attr_targets(e)


def rule_construction(ck, repo):
    R = 'B4-construction'
    ck.rule(R, 'an object allocated with object.__new__ (directly or through a super().copy() chain) has every slot of '
               'its class definitely assigned on every path before it is returned; label slots are required only for '
               'full copies; optional slots are a frozen table')
    # functions that allocate
    creators = []
    for f in repo.all_functions():
        if f.cls is None:
            continue
        for n in ast.walk(f.node):
            if isinstance(n, ast.Call) and src(n.func) == 'object.__new__' and n.args and \
                    src(n.args[0]) in ('self.__class__', 'cls'):
                creators.append(f)
                break
    names = sorted({f.name for f in creators})
    ck.require(len(creators) >= 10, f'only {len(creators)} object.__new__(self.__class__) constructors found')
    # optional-slot table re-validated
    loads = sum(1 for m in repo.modules.values() for n in ast.walk(m.tree)
                if isinstance(n, ast.Attribute) and n.attr == '_parsed_mapping' and isinstance(n.ctx, ast.Load))
    ck.decide(loads == 0, R, 'optional:_parsed_mapping-never-read', loads,
              'Element._parsed_mapping is now read somewhere: it can no longer be treated as optional at construction')
    seen = set()
    n_checked = 0
    for c in repo.all_classes():
        slots = repo.slots(c)
        if slots is None:
            continue
        for name in names:
            g = repo.lookup(c, name)
            if g is None:
                continue
            # does g (through super chains) end in an allocation?
            variants = [{}]
            params = g.params()
            if 'full' in params:
                variants = [{'full': True}, {'full': False}]
            for bind in variants:
                rets = MustAssign(repo, g, c, bind).run()
                if not rets:
                    continue
                required = set(slots) - {'__dict__'}
                required = {s for s in required if not any((k.name, s) in OPTIONAL_SLOTS for k in repo.mro(c))}
                if bind.get('full') is not True:
                    # non-full copies and sub-structures get their labels from calc_labels (rule B3/LABELS)
                    required -= LABEL_SLOTS
                key_sig = (g.fq, tuple(sorted(required)), tuple(sorted(bind.items())))
                if key_sig in seen:
                    continue
                seen.add(key_sig)
                for line, var, attrs in rets:
                    missing = sorted(required - attrs)
                    n_checked += 1
                    tag = f'{c.name}.{name}' + (f'[full={bind["full"]}]' if 'full' in bind else '')
                    ck.decide(not missing, R, f'{tag}:return@{g.qualname}', sorted(attrs),
                              f'{tag}: object returned by {g.qualname} (line {line}) leaves slots {missing} unassigned '
                              f'(AttributeError at first use)', file=g.file, line=line, func=g.qualname)
    ck.count('constructor returns checked', n_checked)
    ck.floor(R, 14)


def rule_transaction(ck, repo):
    R = 'B4-transaction'
    ck.rule(R, '__exit__ restores or resets every slot of MoleculeContainer on the failure branch (optional slots '
               'excepted), and on the success branch flushes, relabels, recomputes hydrogens and re-validates stereo; '
               '__enter__ snapshots through copy()')
    mc = repo.cls(MOL)
    ex = repo.lookup(mc, '__exit__')
    en = repo.lookup(mc, '__enter__')
    ck.require(ex is not None and en is not None, 'MoleculeContainer.__enter__/__exit__ vanished')
    body = strip_doc(ex.node.body)
    top_if = [s for s in body if isinstance(s, ast.If) and 'exc_type' in src(s.test)]
    ck.require(len(top_if) == 1, '__exit__: `if exc_type:` split not found')
    br = top_if[0]
    fail, ok = (br.body, br.orelse) if src(br.test) == 'exc_type' else (br.orelse, br.body) if src(br.test) == 'not exc_type' else (None, None)
    ck.require(fail is not None, f'__exit__: test {src(br.test)} not recognised')
    after = [s for s in body if s is not br]

    def assigned(stmts):
        out = set()
        for s in stmts:
            for n in ast.walk(s):
                if isinstance(n, ast.Attribute) and isinstance(n.ctx, ast.Store) and isinstance(n.value, ast.Name) and n.value.id == 'self':
                    out.add(n.attr)
        return out
    slots = set(repo.slots(mc))
    required = {s for s in slots if ('MoleculeContainer', s) not in OPTIONAL_SLOTS}
    got = assigned(fail) | assigned(after)
    for s in sorted(required):
        ck.decide(s in got, R, f'restore:{s}', None,
                  f'__exit__ failure branch neither restores nor resets {s}: the molecule is not the prior molecule / not usable '
                  f'after a failed `with mol:` block', file=ex.file, line=br.lineno, func=ex.qualname)
    # restored values come from the backup
    for s in fail:
        if isinstance(s, ast.Assign) and isinstance(s.targets[0], ast.Attribute) and src(s.targets[0].value) == 'self' and \
                s.targets[0].attr in ('_atoms', '_bonds', '_meta', '_name', '__dict__'):
            a = s.targets[0].attr
            ck.decide(src(s.value) == f'backup.{a}' or src(s.value) == f'self._backup.{a}', R, f'restore-source:{a}', src(s.value),
                      f'__exit__ restores {a} from `{src(s.value)}` instead of the same field of the backup', file=ex.file,
                      line=s.lineno, func=ex.qualname)
    okcalls = {n.func.attr for s in ok for n in ast.walk(s) if isinstance(n, ast.Call) and isinstance(n.func, ast.Attribute) and src(n.func.value) == 'self'}
    for need, why in (('flush_cache', 'attribute edits made inside the block (atom.charge = ..) cannot flush by themselves'),
                      ('fix_structure', 'labels and hydrogens deferred by the mutators (self._backup is not None) are recalculated here'),
                      ('fix_stereo', 'stereo re-validation deferred by the mutators happens here')):
        ck.decide(need in okcalls, R, f'success:{need}', None, f'__exit__ success branch does not call {need}(): {why}',
                  file=ex.file, line=br.lineno, func=ex.qualname)
    ck.decide(any(src(s) == 'self._backup = None' for s in after) or ('_backup' in assigned(fail) and '_backup' in assigned(ok)),
              R, 'drop-backup', None, '__exit__ does not clear _backup on every path (mutators would keep deferring work)',
              file=ex.file, line=ex.lineno, func=ex.qualname)
    snap = [n for n in ast.walk(en.node) if isinstance(n, ast.Assign) and src(n.targets[0]) == 'self._backup']
    ck.decide(len(snap) == 1 and isinstance(snap[0].value, ast.Call) and src(snap[0].value.func) == 'self.copy', R, 'enter:snapshot',
              src(snap[0].value) if snap else None, '__enter__ no longer snapshots with self.copy(...)', file=en.file, line=en.lineno)
    ck.floor(R, 10)


# ------------------------------------------------------------------------------------------------------------------
# B5 ownership
# ------------------------------------------------------------------------------------------------------------------
def _mutable_rhs(v, vec_like):
    if isinstance(v, (ast.Dict, ast.List, ast.Set, ast.DictComp, ast.ListComp, ast.SetComp)):
        return type(v).__name__
    if isinstance(v, ast.Call) and isinstance(v.func, ast.Name) and v.func.id in {'dict', 'list', 'set', 'defaultdict'} | vec_like:
        return f'{v.func.id}()'
    if isinstance(v, ast.BoolOp) and any(isinstance(x, ast.Call) and isinstance(x.func, ast.Name) and x.func.id == 'set' for x in v.values):
        return 'set()'
    return None


def mutable_fields(repo):
    """
    (class name | '*', field) -> reason. Evidence = assignments `<x>.<field> = <mutable expr>`:
    inside methods of a class the evidence belongs to that class; evidence found elsewhere counts for a field only
    if exactly one class declares that slot (otherwise the owner of <x> is ambiguous).
    """
    vec_like = {'Vector'}
    declared = {}
    for c in repo.all_classes():
        for sl in (c.own_slots or ()):
            declared.setdefault(sl, set()).add(c.name)
    out = {}
    for m in repo.modules.values():
        spans = []
        for c in m.classes.values():
            spans.append((c.node.lineno, c.node.end_lineno, c.name))
        for n in ast.walk(m.tree):
            if not isinstance(n, ast.Assign):
                continue
            why = _mutable_rhs(n.value, vec_like)
            if why is None:
                continue
            for t in n.targets:
                for tt in (t.elts if isinstance(t, ast.Tuple) else [t]):
                    if isinstance(tt, ast.Attribute) and tt.attr.startswith('_'):
                        owner = next((nm for lo, hi, nm in spans if lo <= n.lineno <= hi), None)
                        decl = declared.get(tt.attr, set())
                        if owner is not None and (owner in decl or any(owner in [k.name for k in repo.mro(x)] for x in repo.all_classes() if x.name in decl)):
                            out.setdefault((owner, tt.attr), f'{m.relpath}:{n.lineno} {why}')
                        elif len(decl) == 1:
                            out.setdefault((next(iter(decl)), tt.attr), f'{m.relpath}:{n.lineno} {why}')
    # a property `def f(self) -> Set[..] / Dict[..] / List[..]: return self._f` declares the field mutable
    for c in repo.all_classes():
        for name, fs in c.methods.items():
            for f in fs:
                if 'property' in f.decorators and f.node.returns is not None:
                    b = strip_doc(f.node.body)
                    if len(b) == 1 and isinstance(b[0], ast.Return) and isinstance(b[0].value, ast.Attribute) and \
                            src(b[0].value.value) == 'self':
                        ann = src(f.node.returns)
                        if ann.split('[')[0] in ('Set', 'Dict', 'List', 'set', 'dict', 'list'):
                            out.setdefault((c.name, b[0].value.attr), f'{c.file}:{f.lineno} annotated {ann}')
    return out


def field_mutable(repo, mut, cls, field):
    for k in repo.mro(cls):
        if (k.name, field) in mut:
            return mut[(k.name, field)]
    for sub in repo.subclasses(cls):
        if (sub.name, field) in mut and field in (repo.slots(cls) or ()):
            return mut[(sub.name, field)]
    return None


def rule_ownership(ck, repo):
    R = 'B5-ownership'
    ck.rule(R, 'in copy/substructure constructors an attribute of the new object is never assigned an expression that '
               'aliases a mutable field of the source (mutability inferred from every assignment to that field in the '
               'package); accepted right-hand sides: .copy(...) calls, comprehensions over copies, back-links into the '
               'new object, constructors, immutables')
    mut = mutable_fields(repo)
    el = repo.cls('chython.periodictable.base.element:Element')
    mcls = repo.cls(MOL)
    for c, need in ((el, '_xy'), (mcls, '_meta'), (mcls, '_atoms'), (mcls, '_bonds')):
        ck.require(field_mutable(repo, mut, c, need) is not None, f'mutability of field {c.name}.{need} no longer inferable')
    n = 0
    prop_to_field = {}
    for c in repo.all_classes():
        for name, fs in c.methods.items():
            for f in fs:
                if 'property' in f.decorators:
                    b = strip_doc(f.node.body)
                    if len(b) == 1 and isinstance(b[0], ast.Return) and isinstance(b[0].value, ast.Attribute) and \
                            src(b[0].value.value) == 'self':
                        prop_to_field.setdefault(name, set()).add(b[0].value.attr)
    for f in repo.all_functions():
        if f.cls is None or f.name not in ('copy', 'substructure', '__enter__', 'union'):
            continue
        fresh = set()
        for a in ast.walk(f.node):
            if isinstance(a, ast.Assign) and isinstance(a.targets[0], ast.Name) and isinstance(a.value, ast.Call):
                s = src(a.value.func)
                if s == 'object.__new__' or s.startswith('super().'):
                    fresh.add(a.targets[0].id)
        if not fresh:
            continue
        for a in ast.walk(f.node):
            if not isinstance(a, ast.Assign):
                continue
            for t in a.targets:
                for tt in (t.elts if isinstance(t, ast.Tuple) else [t]):
                    if not (isinstance(tt, ast.Attribute) and isinstance(tt.value, ast.Name) and tt.value.id in fresh):
                        continue
                    field = tt.attr
                    v = a.value
                    n += 1
                    fm = {x: field_mutable(repo, mut, f.cls, x) for x in {field} | set(prop_to_field.get(getattr(v, 'attr', ''), ())) | {getattr(v, 'attr', '')}}
                    fm = {k: w for k, w in fm.items() if w}
                    verdict, why = _rhs_owned(v, field, fm, prop_to_field, fresh)
                    ck.decide(verdict, R, f'{f.qualname}:{field}', why,
                              f'{f.qualname}: `{src(a)}` shares the mutable {field} ({fm.get(field, "?")}) between the source and the copy: {why}',
                              file=f.file, line=a.lineno, func=f.qualname, construct=src(a))
    ck.count('copy-field assignments', n)
    ck.floor(R, 30)


def _rhs_owned(v, field, mut, prop_to_field, fresh):
    """(ok, explanation)"""
    if isinstance(v, ast.Constant):
        return True, 'constant'
    if isinstance(v, ast.Call):
        f = v.func
        if isinstance(f, ast.Attribute) and f.attr == 'copy':
            return True, '.copy() call'
        if isinstance(f, ast.Name) and f.id in ('tuple', 'list', 'set', 'dict', 'frozenset'):
            if v.args and isinstance(v.args[0], (ast.GeneratorExp, ast.ListComp)):
                return _elt_owned(v.args[0].elt, mut, prop_to_field, fresh)
            return True, 'new container'
        if isinstance(f, ast.Name):
            return True, 'constructor'
        return True, 'call result'
    if isinstance(v, (ast.DictComp,)):
        return _elt_owned(v.value, mut, prop_to_field, fresh)
    if isinstance(v, (ast.ListComp, ast.SetComp)):
        return _elt_owned(v.elt, mut, prop_to_field, fresh)
    if isinstance(v, (ast.Dict, ast.List, ast.Set, ast.Tuple)):
        return True, 'display'
    if isinstance(v, ast.Attribute) and isinstance(v.value, ast.Name) and v.value.id == 'self':
        src_fields = {v.attr} if v.attr.startswith('_') else prop_to_field.get(v.attr, {v.attr})
        shared = [x for x in src_fields if x in mut]
        if field in mut and shared:
            return False, f'right-hand side is self.{v.attr}, the very object held by the source'
        return True, 'immutable field'
    if isinstance(v, ast.Name):
        if v.id in fresh:
            return True, 'new object'
        return True, 'local'
    if isinstance(v, ast.IfExp):
        a = _rhs_owned(v.body, field, mut, prop_to_field, fresh)
        b = _rhs_owned(v.orelse, field, mut, prop_to_field, fresh)
        return (a[0] and b[0]), (a[1] if not a[0] else b[1])
    return True, 'other'


def _elt_owned(elt, mut, prop_to_field, fresh):
    if isinstance(elt, ast.Call) and isinstance(elt.func, ast.Attribute) and elt.func.attr == 'copy':
        return True, 'elements are copies'
    if isinstance(elt, ast.Constant):
        return True, 'constant elements'
    if isinstance(elt, ast.Name):
        return False, f'comprehension re-uses the source element `{elt.id}` without copying it'
    if isinstance(elt, (ast.DictComp, ast.ListComp, ast.SetComp)):
        return _elt_owned(elt.value if isinstance(elt, ast.DictComp) else elt.elt, mut, prop_to_field, fresh)
    return True, 'derived elements'


# ------------------------------------------------------------------------------------------------------------------
# B6 adjacency symmetry, B7 pending-change set
# ------------------------------------------------------------------------------------------------------------------
SYM_EXEMPT = {
    'Salts.remove_metals': 'removes atoms that have no bonds (guarded by `not bonds[n]`)',
    'Salts.remove_acids': 'removes whole connected components: every neighbour is removed as well',
}


def rule_symmetry(ck, repo):
    R = 'B6-adjacency-symmetry'
    ck.rule(R, 'every store or deletion at self._bonds[a][b] is mirrored at [b][a] in the same function (chained '
               'assignment, {a: bond} display for a new atom, del/pop pair, or the pop-row-then-delete-back-references loop)')
    P = Protocol(repo)
    mc = P.container
    from .effects import Ctx
    n = 0
    for c in repo.mro(mc):
        for fs in c.methods.values():
            for f in fs:
                ctx = Ctx(f, mc, 'SELF', {}, 0, (f.fq,))
                ctx.aliases = P.build_aliases(f)
                stores, dels, rows_new, rows_del = [], [], [], []
                _sd = single_defs(f.node)
                for node in ast.walk(f.node):
                    if isinstance(node, ast.Subscript) and isinstance(node.ctx, (ast.Store, ast.Del)):
                        o = P.owner_of(ctx, node.value)
                        if o[0] != 'R' or o[-1] != '_bonds':
                            continue
                        row = node.value
                        if isinstance(row, ast.Name) and isinstance(_sd.get(row.id), ast.Subscript):
                            row = _sd[row.id]  # env = bonds[n]; del env[m]: the row was given a name
                        depth2 = isinstance(row, ast.Subscript) and P.owner_of(ctx, row.value)[-1] == '_bonds' and \
                            _is_bonds_root(ctx, P, row.value)
                        if depth2:
                            pair = (src(row.slice), src(node.slice))
                            (stores if isinstance(node.ctx, ast.Store) else dels).append((pair, node))
                        elif _is_bonds_root(ctx, P, node.value):
                            (rows_new if isinstance(node.ctx, ast.Store) else rows_del).append((src(node.slice), node))
                    elif isinstance(node, ast.Call) and isinstance(node.func, ast.Attribute) and node.func.attr == 'pop' and node.args:
                        v = node.func.value
                        o = P.owner_of(ctx, v)
                        if o[0] == 'R' and o[-1] == '_bonds':
                            if isinstance(v, ast.Subscript) and _is_bonds_root(ctx, P, v.value):
                                dels.append(((src(v.slice), src(node.args[0])), node))
                            elif _is_bonds_root(ctx, P, v):
                                rows_del.append((src(node.args[0]), node))
                if not (stores or dels):
                    continue
                spairs = {p for p, _ in stores}
                dpairs = {p for p, _ in dels}
                for (a, b), node in stores:
                    n += 1
                    mirrored = (b, a) in spairs or any(r == b and isinstance(nd, ast.Subscript) and _row_display_has(f, nd, a) for r, nd in rows_new)
                    ck.decide(mirrored, R, f'{f.qualname}:store[{a}][{b}]', None,
                              f'{f.qualname}: bond stored at [{a}][{b}] but not at [{b}][{a}]: adjacency becomes asymmetric',
                              file=f.file, line=node.lineno, func=f.qualname, construct=src(node))
                _pm = None
                for (a, b), node in dels:
                    n += 1
                    mirrored = (b, a) in dpairs or any(r == b for r, _ in rows_del)
                    why = SYM_EXEMPT.get(f.qualname)
                    # ... and the two halves are removed under the same conditions: a back-reference deleted only on some paths of the loop that
                    # walks the popped row (`if bond == 8: continue` placed before it) leaves a dangling neighbour on the other paths
                    partner = next((nd for p_, nd in dels if p_ == (b, a)), None) or next((nd for r, nd in rows_del if r == b), None)
                    if mirrored and partner is not None and why is None:
                        if _pm is None:
                            _pm = enclosing_map(f.node)
                        c1 = {src(c) for c in reach_conditions(node, f.node, _pm)}
                        c2 = {src(c) for c in reach_conditions(partner, f.node, _pm)}
                        extra = sorted(c1 - c2)
                        n += 1
                        ck.decide(not extra, R, f'{f.qualname}:del[{a}][{b}]:same-conditions', None,
                                  f'{f.qualname}: the back-reference `{src(node)}` is removed only when {extra} holds, while its counterpart `{src(partner)[:60]}` is removed always: '
                                  f'on the other paths the adjacency stays asymmetric (a neighbour row keeps a bond to a deleted / disconnected atom)',
                                  file=f.file, line=node.lineno, func=f.qualname, construct=src(node))
                    ck.decide(mirrored or why is not None, R, f'{f.qualname}:del[{a}][{b}]', why,
                              f'{f.qualname}: bond removed at [{a}][{b}] but not at [{b}][{a}]', file=f.file, line=node.lineno,
                              func=f.qualname, construct=src(node))
    ck.count('adjacency writes', n)
    ck.floor(R, 8)


def _is_bonds_root(ctx, P, node):
    """node denotes the whole _bonds mapping of the receiver (self._bonds or an alias)"""
    if isinstance(node, ast.Attribute) and node.attr == '_bonds' and src(node.value) == 'self':
        return True
    if isinstance(node, ast.Name):
        for b in ctx.aliases.get(node.id, ()):
            if b[0] == 'expr' and isinstance(b[1], ast.Attribute) and b[1].attr == '_bonds' and src(b[1].value) == 'self':
                return True
    return False


def _row_display_has(f, node, key):
    """the statement storing the row `bonds[m] = {n: b}` mentions key n in its dict display"""
    for a in ast.walk(f.node):
        if isinstance(a, ast.Assign) and node in a.targets and isinstance(a.value, ast.Dict):
            return any(src(k) == key for k in a.value.keys)
    return False


def rule_changed_set(ck, repo):
    R = 'B7-pending-change-set'
    ck.rule(R, 'add_atom / add_bond / delete_atom / delete_bond put every atom whose environment changed into _changed '
               '(the set that limits hydrogen recalculation), the create-branch and the add-branch name the same atoms, '
               'and fix_structure consumes (self._changed or all atoms) and resets it')
    mc = repo.cls(MOL)
    # accumulator discipline: the pending set is only ever extended; a plain assignment of a non-None value is allowed only where the
    # field is known to be None (several deferred edits inside one `with mol:` block accumulate into the same set)
    n_acc = 0
    for c in repo.mro(mc):
        for fs_ in c.methods.values():
            for f in fs_:
                parents = {}
                for p_ in ast.walk(f.node):
                    for ch in ast.iter_child_nodes(p_):
                        parents[ch] = p_
                for a in ast.walk(f.node):
                    if not (isinstance(a, ast.Assign) and any(src(t) == 'self._changed' for t in a.targets)):
                        continue
                    if isinstance(a.value, ast.Constant) and a.value.value is None:
                        continue
                    n_acc += 1
                    merged = any(src(x) == 'self._changed' for x in ast.walk(a.value))
                    guarded = False
                    node, p_ = a, parents.get(a)
                    while p_ is not None:
                        if isinstance(p_, ast.If):
                            t = src(p_.test)
                            in_body = any(node is x or node in list(ast.walk(x)) for x in p_.body)
                            if (t in ('self._changed is None', 'not self._changed') and in_body) or \
                                    (t in ('self._changed is not None', 'self._changed') and not in_body):
                                guarded = True
                        node, p_ = p_, parents.get(p_)
                    ck.decide(merged or guarded, 'B7-pending-change-set', f'{f.qualname}:assign:{src(a)[:50]}', 'assignment only where the set is None / merges the old value',
                              f'{f.qualname} assigns `{src(a)[:70]}` without testing that the pending set is empty: atoms recorded by earlier deferred edits '
                              f'(inside `with mol:` or _skip_calculation) are dropped and keep stale hydrogen counts',
                              file=f.file, line=a.lineno, func=f.qualname, construct=src(a)[:100])
    ck.count('B7: non-None assignments to _changed', n_acc)
    expect = {'add_atom': None, 'add_bond': {'n', 'm'}, 'delete_bond': {'n', 'm'}, 'delete_atom': None}
    for name, want in expect.items():
        f = repo.lookup(mc, name)
        ck.require(f is not None and f.cls is mc, f'MoleculeContainer.{name} vanished')
        ifs = [n for n in ast.walk(f.node) if isinstance(n, ast.If) and src(n.test) in ('self._changed is None', 'self._changed is not None')]
        site = None      # node of f that stands for the bookkeeping (the if itself, or the call of an extracted private method)
        rename = {}      # parameter of the extracted method -> argument at the call site
        if len(ifs) != 1:
            # "extract method": the bookkeeping may live in a private method called as self._x(...)
            for c in ast.walk(f.node):
                if isinstance(c, ast.Call) and isinstance(c.func, ast.Attribute) and src(c.func.value) == 'self' and c.func.attr.startswith('_'):
                    g = repo.lookup(mc, c.func.attr)
                    if g is None:
                        continue
                    gi = [n for n in ast.walk(g.node) if isinstance(n, ast.If) and src(n.test) in ('self._changed is None', 'self._changed is not None')]
                    ps = [p_ for p_ in g.params() if p_ != 'self']
                    if len(gi) == 1 and len(ps) == len(c.args) and not c.keywords:
                        ifs, site, rename = gi, c, {p_: src(a) for p_, a in zip(ps, c.args)}
                        break
        if len(ifs) != 1:
            ck.defer(f'{name}: `if self._changed is None` bookkeeping not found')
            continue
        i = ifs[0]
        if site is None:
            site = i
        create, add = (i.body, i.orelse) if src(i.test) == 'self._changed is None' else (i.orelse, i.body)
        created = set()

        def _elements(v):
            """the members of a set display / set(<display>) / tuple or list display"""
            if isinstance(v, ast.Call) and src(v.func) in ('set', 'frozenset') and len(v.args) == 1:
                v = v.args[0]
            if isinstance(v, (ast.Set, ast.Tuple, ast.List)):
                return {rename.get(src(e), src(e)) for e in v.elts}
            return None
        for s in create:
            if isinstance(s, ast.Assign) and src(s.targets[0]) == 'self._changed' and _elements(s.value) is not None:
                created = _elements(s.value)
        added = {rename.get(src(c.args[0]), src(c.args[0])) for s in add for c in ast.walk(s) if isinstance(c, ast.Call) and src(c.func) == 'self._changed.add' and c.args}
        for s in add:
            for c in ast.walk(s):
                if isinstance(c, ast.Call) and src(c.func) == 'self._changed.update' and len(c.args) == 1 and _elements(c.args[0]) is not None:
                    added |= _elements(c.args[0])
        ck.decide(created == added and created, R, f'{name}:branches-agree', sorted(created),
                  f'{name}: create-branch records {sorted(created)}, add-branch records {sorted(added)}', file=f.file, line=i.lineno, func=f.qualname)
        if want is not None:
            ck.decide(created == want, R, f'{name}:endpoints', sorted(created),
                      f'{name}: records {sorted(created)} but both bond endpoints {sorted(want)} change their environment',
                      file=f.file, line=i.lineno, func=f.qualname)
        elif name == 'add_atom':
            tgt = [src(a.targets[0]) for a in ast.walk(f.node) if isinstance(a, ast.Assign) and isinstance(a.value, ast.Call) and 'super().add_atom' in src(a.value.func)]
            ck.decide(tgt and created == {tgt[0]}, R, 'add_atom:new-number', sorted(created),
                      f'add_atom records {sorted(created)} instead of the number returned by Graph.add_atom', file=f.file, line=i.lineno)
        else:  # delete_atom: the neighbours of the removed atom
            loops = [l for l in ast.walk(f.node) if isinstance(l, ast.For) and site in list(ast.walk(l))]
            ok = False
            if loops:
                l = loops[-1]
                tv = [src(e) for e in (l.target.elts if isinstance(l.target, ast.Tuple) else [l.target])]
                ok = 'self._bonds.pop(n)' in src(l.iter) and created == {tv[0]}
            ck.decide(ok, R, 'delete_atom:neighbours', sorted(created),
                      f'delete_atom records {sorted(created)}; expected every neighbour of the removed atom', file=f.file, line=i.lineno)
        # the only bonds that may skip the bookkeeping are coordinate bonds
        guards = []
        parents = {}
        for p in ast.walk(f.node):
            for ch in ast.iter_child_nodes(p):
                parents[ch] = p
        p = parents.get(site)
        while p is not None and p is not f.node:
            if isinstance(p, ast.If):
                guards.append(src(p.test))
            p = parents.get(p)
        for g in guards:
            ck.decide(g.endswith('!= 8') or g.endswith('== 8') or g == 'not _skip_calculation and self._backup is None', R, f'{name}:guard:{g}', g,
                      f'{name}: bookkeeping is skipped under `{g}`; only the coordinate order 8 may skip it', file=f.file, line=i.lineno)
    fs = repo.lookup(mc, 'fix_structure')
    s = src(fs.node)
    ck.decide('self._changed or self._atoms' in s, R, 'fix_structure:consumes', None,
              'fix_structure no longer iterates (self._changed or self._atoms)', file=fs.file, line=fs.lineno)
    body = strip_doc(fs.node.body)
    ck.decide(any(src(x) == 'self._changed = None' for x in body), R, 'fix_structure:resets', None,
              'fix_structure does not reset _changed at top level: stale numbers (possibly of deleted atoms) are recalculated later',
              file=fs.file, line=fs.lineno)
    ck.floor(R, 10)


def rule_protocol_dunders(ck, repo, R, containers):
    """every use of the container itself as a sized / iterable / indexable object inside its own mixins resolves in its MRO"""
    ck.rule(R, 'the mixins a container is assembled from use the container through python protocols (len(self), iteration over self, `x in self`, self[k]); '
               'every such use has the corresponding special method (__len__, __iter__, __contains__ or __iter__, __getitem__) in the MRO of every concrete '
               'container that inherits the mixin. A missing one is a TypeError at the first call (e.g. the canonical string of a condensed reaction graph)')
    need = {}
    for cfq in containers:
        cls = repo.cls(cfq)
        ck.require(cls is not None, f'{cfq} not found')
        have = set()
        for c in repo.mro(cls):
            have |= set(c.methods)
        uses = {}
        for c in repo.mro(cls):
            for name, fs in c.methods.items():
                f = repo.lookup(cls, name)
                for g in fs:
                    if g is not f and 'setter' not in ''.join(g.decorators):
                        continue  # overridden in this MRO
                    for n in ast.walk(g.node):
                        if isinstance(n, ast.Call) and isinstance(n.func, ast.Name) and n.func.id == 'len' and len(n.args) == 1 and isinstance(n.args[0], ast.Name) and n.args[0].id == 'self':
                            uses.setdefault('__len__', []).append((g, n))
                        elif isinstance(n, (ast.For, ast.comprehension)) and isinstance(n.iter, ast.Name) and n.iter.id == 'self':
                            uses.setdefault('__iter__', []).append((g, n if isinstance(n, ast.For) else n.iter))
                        elif isinstance(n, ast.Compare) and any(isinstance(o, (ast.In, ast.NotIn)) for o in n.ops) and any(isinstance(x, ast.Name) and x.id == 'self' for x in n.comparators):
                            uses.setdefault('__contains__', []).append((g, n))
                        elif isinstance(n, ast.Subscript) and isinstance(n.value, ast.Name) and n.value.id == 'self' and isinstance(n.ctx, ast.Load):
                            uses.setdefault('__getitem__', []).append((g, n))
        for dunder, sites in uses.items():
            ok = dunder in have or (dunder == '__contains__' and '__iter__' in have)
            g, n = sites[0]
            ck.decide(ok, R, f'{cls.name}:{dunder}', f'{len(sites)} use(s), defined',
                      f'{cls.name} inherits {len(sites)} use(s) of `{dunder[2:-2]}` on itself (first: {g.qualname} line {getattr(n, "lineno", g.lineno)}) but no class in its MRO defines {dunder}: '
                      f'TypeError at run time', file=g.file, line=getattr(n, 'lineno', g.lineno), func=g.qualname, construct=src(n)[:100] if isinstance(n, ast.AST) else None)
        need[cls.name] = sorted(uses)
    ck.count(f'{R}: protocol uses', sum(len(v) for v in need.values()))
    ck.floor(R, 1)
