# -*- coding: utf-8 -*-
"""C07: admission guards of the reference matcher (and the .pyx matcher), automorphism filter, comparison operators."""
import ast
import re
from .core import AnalysisError
from .astutil import src, conjuncts, strip_doc, reach_conditions, expand_locals, single_defs
from .tables import pyx_source, strip_comments

ISO = 'chython.algorithms.isomorphism'
PYX = 'chython/algorithms/_isomorphism.pyx'


def classify_guard(c, expand=None):
    s = src(expand(c)) if expand else src(c)
    if isinstance(c, ast.Compare) and len(c.ops) == 1:
        l, r, op = src(c.left), src(c.comparators[0]), c.ops[0]
        if isinstance(op, ast.In) and r == 'scope':
            return 'SCOPE'
        if isinstance(op, ast.NotIn) and r == 'reversed_mapping':
            return 'INJECTIVE'
        if isinstance(op, ast.Eq) and {l, r} == {'s_bond', 'o_bond'}:
            return 'BOND'
        if isinstance(op, ast.Eq) and 's_atom' in (l, r) and (l.startswith('o_atom') or r.startswith('o_atom')):
            return 'ATOM'
        if isinstance(op, ast.Eq) and 'o_closures' in (l, r):
            return 'CLOSURE-SET'
    if isinstance(c, ast.Call) and src(c.func) == 'all' and 'query_closures' in s and '==' in s:
        return 'CLOSURE-BONDS'
    return None


def rule_admission_guards(ck, repo, R):
    ck.rule(R, 'every statement of the reference matcher that admits a target atom (stack.append) is control dependent on the conjunction the '
               'property enumerates: inside the search scope, atom predicate holds; at extension sites additionally not already used (injective), '
               'bond predicate holds, the set of already-mapped neighbours equals the pattern\'s ring-closure set, and every closure bond matches; '
               'the two admission sites of _isomorphism.pyx carry the corresponding tests')
    m = repo.module(ISO)
    f = m.functions.get('_get_mapping')
    ck.require(f is not None, 'isomorphism._get_mapping vanished')
    parents = {}
    for p in ast.walk(f.node):
        for c in ast.iter_child_nodes(p):
            parents[c] = p
    sites = [n for n in ast.walk(f.node) if isinstance(n, ast.Call) and src(n.func) == 'stack.append']
    ck.require(len(sites) == 2, f'_get_mapping: expected 2 admission sites, found {len(sites)}')
    aliases = {k for k, v in single_defs(f.node).items() if isinstance(v, ast.Subscript)}  # obon = o_bonds[o_n], s_closures = query_closures[s_n]
    for site in sites:
        guards = {}
        for c in reach_conditions(site, f.node, parents):
            k = classify_guard(c, lambda e: expand_locals(e, f.node, only=aliases))
            if k:
                guards[k] = src(c)
        in_while = False
        p = parents.get(site)
        while p is not None and p is not f.node:
            if isinstance(p, ast.While):
                in_while = True
            p = parents.get(p)
        kind = 'extension' if in_while else 'initial'
        need = ['SCOPE', 'ATOM'] if kind == 'initial' else ['SCOPE', 'INJECTIVE', 'BOND', 'ATOM', 'CLOSURE-SET', 'CLOSURE-BONDS']
        for g in need:
            ck.decide(g in guards, R, f'{kind}:{g}', guards.get(g),
                      f'_get_mapping: the {kind} admission `{src(site)}` is no longer guarded by the {g} test: spurious mappings become possible '
                      f'(present guards: {sorted(guards)})', file=m.relpath, line=site.lineno, func='_get_mapping', construct=src(site))
    # the closure set is "mapped neighbours of the candidate except the atom we came from"
    s = src(f.node)
    cdefs = [src(expand_locals(n.value, f.node, only=aliases)) for n in ast.walk(f.node) if isinstance(n, ast.Assign) and src(n.targets[0]) == 'o_closures']
    ck.decide(cdefs == ['o_bonds[o_n].keys() & reversed_mapping.keys()'] and 'o_closures.discard(n)' in s, R, 'closure-set:definition', cdefs,
              'o_closures is no longer (neighbours of the candidate that are already mapped) minus the parent atom', file=m.relpath, line=f.lineno, func='_get_mapping')
    pats = [src(expand_locals(c, f.node, only=aliases)) for n in ast.walk(f.node) if isinstance(n, ast.Compare) and len(n.ops) == 1 and isinstance(n.ops[0], ast.Eq)
            for c in (n.left, n.comparators[0]) if 'o_closures' in (src(n.left), src(n.comparators[0])) and src(c) != 'o_closures']
    ck.decide(pats == ['{mapping[m] for m, _ in query_closures[s_n]}'], R, 'closure-set:pattern-side', pats,
              'the pattern side of the closure test is no longer the images of the ring-closure partners of the pattern atom', file=m.relpath, line=f.lineno)
    # bookkeeping that makes INJECTIVE meaningful
    ck.decide('reversed_mapping[n] = current' in s and 'del mapping[reversed_mapping.pop(x)]' in s, R, 'injective:bookkeeping', None,
              'reversed_mapping is no longer maintained together with mapping on push / backtrack', file=m.relpath, line=f.lineno)
    # .pyx
    p = strip_comments(pyx_source(repo.root, PYX))
    conds = re.findall(r'if \((.*?)\):\s*\n', p, re.S)
    first = [c for c in conds if 'n_atom.bits1' in c]
    ext = [c for c in conds if 'i_bond.bond' in c and 'mask1' in c]
    ck.require(len(first) == 1 and len(ext) == 1, '.pyx admission conditions not recognised')
    first, ext = ' '.join(first[0].split()), ' '.join(ext[0].split())
    ck.decide('scope[n]' in first, R, 'pyx:initial:SCOPE', None, '.pyx first-atom admission does not test the scope', file=PYX)
    ck.decide('scope[m]' in ext, R, 'pyx:extension:SCOPE', None, '.pyx extension admission does not test the scope', file=PYX)
    ck.decide('not matched[m]' in ext, R, 'pyx:extension:INJECTIVE', None, '.pyx extension admission does not test that the candidate is unused', file=PYX)
    for i in (1, 2, 3, 4):
        ck.decide(f'q_atom.mask{i} &' in first, R, f'pyx:initial:word{i}', None, f'.pyx first-atom admission does not test word {i}', file=PYX)
        ck.decide(f'q_atom.mask{i} &' in ext, R, f'pyx:extension:word{i}', None, f'.pyx extension admission does not test word {i}', file=PYX)
    ck.decide('closures_counter == q_atom.closure' in p and 'j_bond.bond & c_bond != c_bond' in p and 'not c_bond' in p, R, 'pyx:closures', None,
              '.pyx no longer requires the same number of closures and a matching bond for each', file=PYX)
    ck.decide(re.search(r'else:  *\n?\s*for j in range\(m_atom\.from_, m_atom\.to_\):\s*\n\s*j_bond = molecule\.bonds\[j\]\s*\n\s*if j_bond\.index != n and matched\[j_bond\.index\]:\s*\n\s*break', p) is not None,
              R, 'pyx:no-extra-closures', None, '.pyx no longer rejects candidates that have closures when the pattern atom has none', file=PYX)
    ck.decide('matched[n] = True' in p and 'matched[path[i]] = False' in p, R, 'pyx:injective-bookkeeping', None, '.pyx no longer maintains the matched[] marks on push / backtrack', file=PYX)
    # the scratch map `closures[]` is written for EVERY candidate before the count is compared: it must be cleared for every candidate too (same indentation
    # as the comparison), not only for the ones whose count matched
    raw = pyx_source(repo.root, PYX)
    lines = raw.splitlines()

    def indent(l):
        return len(l) - len(l.lstrip(' '))
    cmp_i = next((i for i, l in enumerate(lines) if 'closures_counter == q_atom.closure' in l and l.strip().startswith('if')), None)
    fill_i = [i for i, l in enumerate(lines) if re.match(r'\s*closures\[j_bond\.index\] = j_bond\.bond', l)]
    clear_i = [i for i, l in enumerate(lines) if re.match(r'\s*closures\[j_bond\.index\] = 0\s*$', l)]
    ck.require(cmp_i is not None and fill_i and clear_i, '.pyx: closure scratch map fill / compare / clear statements not found')
    # the `for` statement that encloses the clearing assignment
    c = clear_i[0]
    k = c
    while k > 0 and not (lines[k].strip().startswith('for ') and indent(lines[k]) < indent(lines[c])):
        k -= 1
    ck.decide(c > cmp_i and indent(lines[k]) == indent(lines[cmp_i]), R, 'pyx:scratch-cleared-for-every-candidate', indent(lines[k]),
              f'.pyx: the loop that clears closures[] (line {k + 1}) is nested under the `closures_counter == q_atom.closure` test (line {cmp_i + 1}): a candidate rejected for its closure '
              f'count leaves its entries behind and a later candidate reads them -- closure bonds are matched onto atoms that are not bonded', file=PYX, line=k + 1)
    ck.floor(R, 18)


def rule_filter_and_operators(ck, repo, R):
    ck.rule(R, 'the automorphism filter keys on the order-free set of image atoms in both the single- and the multi-component branch; '
               'comparison operators and is_equal are wired to is_substructure with the length tests their meaning implies; different pattern '
               'components go to different target components')
    d = repo.func(f'{ISO}:Isomorphism._get_mapping')
    seen_adds = [n for n in ast.walk(d.node) if isinstance(n, ast.Call) and src(n.func) == 'seen.add']
    key_names = {a.args[0].id for a in seen_adds if a.args and isinstance(a.args[0], ast.Name)}
    keys = [n for n in ast.walk(d.node) if isinstance(n, ast.Assign) and isinstance(n.targets[0], ast.Name) and n.targets[0].id in key_names]
    keys += [a for a in seen_adds if a.args and not isinstance(a.args[0], ast.Name)]  # key built in place

    def key_ok(v):
        # frozenset(<yielded mapping>.values()): order-free set of image atoms
        return isinstance(v, ast.Call) and src(v.func) == 'frozenset' and len(v.args) == 1 and isinstance(v.args[0], ast.Call) and \
            isinstance(v.args[0].func, ast.Attribute) and v.args[0].func.attr == 'values' and isinstance(v.args[0].func.value, ast.Name)
    vals = [k.value if isinstance(k, ast.Assign) else k.args[0] for k in keys]
    ck.decide(len(vals) == 2 and all(key_ok(v) for v in vals), R, 'filter:key', [src(v) for v in vals],
              f'automorphism filter keys are {[src(v) for v in vals]}; both branches must use frozenset(mapping.values())', file=d.file, line=d.lineno, func=d.qualname)
    ck.decide(len(seen_adds) == 2, R, 'filter:remember', len(seen_adds), 'the filter no longer records every yielded atom set', file=d.file, line=d.lineno)
    # the memory of the filter spans all assignments of pattern components to target components: no re-initialisation inside the permutations loop
    perm_loops = [n for n in ast.walk(d.node) if isinstance(n, ast.For) and 'permutations(' in src(n.iter)]
    inits_inside = [a for l in perm_loops for a in ast.walk(l) if isinstance(a, ast.Assign) and any(src(t) == 'seen' for t in a.targets)]
    inits = [a for a in ast.walk(d.node) if isinstance(a, ast.Assign) and any(src(t) == 'seen' for t in a.targets)]
    ck.decide(len(perm_loops) == 1 and inits and not inits_inside, R, 'filter:memory-spans-assignments', len(inits),
              'the set of already reported image-atom sets is (re)created inside the loop over component assignments: interchangeable pattern components mapped onto the same '
              'target components in another order give the same image set again, and the filter no longer recognises it', file=d.file,
              line=inits_inside[0].lineno if inits_inside else d.lineno, func=d.qualname, construct='seen = set()')
    s = src(d.node)
    ck.decide('permutations(other.connected_components, len(components))' in s, R, 'components:distinct', None,
              'multi-component patterns are no longer assigned to distinct target components (permutations)', file=d.file, line=d.lineno)
    ck.decide('searching_scope.intersection(candidate)' in s, R, 'scope:restriction', None, 'search scope is no longer intersected with each candidate component', file=d.file, line=d.lineno)
    # polarity of the flag: symmetric images are re-expanded only when the filter is OFF, and skipped only when it is ON
    from .r_query import _ev, _Unknown
    n_sites = 0
    for fn in repo.module(ISO).tree.body:
        for g in ast.walk(fn):
            if not (isinstance(g, ast.FunctionDef) and 'automorphism_filter' in {a.arg for a in g.args.args + g.args.kwonlyargs}):
                continue
            pm = None
            for site in ast.walk(g):
                kind = None
                if isinstance(site, ast.For) and any(isinstance(c_, ast.Call) and isinstance(c_.func, ast.Attribute) and c_.func.attr == 'get_automorphism_mapping'
                                                     for c_ in ast.walk(site.iter)) and any(isinstance(y, (ast.Yield, ast.YieldFrom)) for y in ast.walk(site)):
                    kind = 'expand'
                elif isinstance(site, ast.Continue):
                    kind = 'skip'
                if kind is None:
                    continue
                if pm is None:
                    from .astutil import enclosing_map
                    pm = enclosing_map(g)
                conds = reach_conditions(site, g, pm)
                if kind == 'skip':
                    if not any(' in seen' in src(c_) for c_ in conds):
                        continue  # some other continue
                flag = [c_ for c_ in conds if {x.id for x in ast.walk(c_) if isinstance(x, ast.Name)} == {'automorphism_filter'}]
                try:
                    on = all(_ev(c_, {'automorphism_filter': True}) for c_ in flag)
                    off = all(_ev(c_, {'automorphism_filter': False}) for c_ in flag)
                except _Unknown:
                    raise AnalysisError(f'{g.name}: guard over automorphism_filter not understood')
                n_sites += 1
                want_ = (False, True) if kind == 'expand' else (True, False)
                ck.decide(bool(flag) and (on, off) == want_, R, f'{g.name}:flag-polarity:{kind}', [src(c_) for c_ in flag],
                          f'{g.name}: ' + ('the loop that re-expands a match over the automorphisms of the matched part runs when automorphism_filter is '
                                           f'{"on" if on else "off"}{" and " if on and off else ""}{"off" if on and off else ""}; it must run exactly when the filter is off '
                                           '(with the filter on, matches to the same atoms must be reported once)' if kind == 'expand' else
                                           'matches to an already reported atom set are skipped under a condition that is not "automorphism_filter is on"'),
                          file=d.file, line=site.lineno, func=g.name, construct=' and '.join(src(c_) for c_ in flag))
    ck.require(n_sites >= 1, 'no site whose execution depends on automorphism_filter was recognised (3 on the confirmed tree: 2 skips, 1 expansion)')
    c = repo.cls(f'{ISO}:Isomorphism')
    want = {
        '__lt__': ('len(self) >= len(other)', 'self.is_substructure(other)'),
        '__le__': (None, 'self.is_substructure(other)'),
        '__gt__': ('len(self) <= len(other)', 'other.is_substructure(self)'),
        '__ge__': (None, 'other.is_substructure(self)'),
    }
    for name, (guard, ret) in want.items():
        f = c.method(name)
        ck.require(f is not None, f'Isomorphism.{name} vanished')
        body = strip_doc(f.node.body)
        g = [src(x.test) for x in body if isinstance(x, ast.If) and any(isinstance(y, ast.Return) and src(y.value) == 'False' for y in x.body)]
        r = [src(x.value) for x in body if isinstance(x, ast.Return)]
        ck.decide(g == ([guard] if guard else []) and r == [ret], R, f'operator:{name}', (g, r),
                  f'{name} is `if {g}: return False; return {r}`; expected guard {guard} and result {ret}', file=f.file, line=f.lineno, func=f.qualname)
    eq = c.method('is_equal')
    s = src(eq.node)
    ck.decide('if len(self) != len(other)' in s and 'automorphism_filter=False' in s, R, 'is_equal', None, 'is_equal no longer requires equal size plus an embedding', file=eq.file, line=eq.lineno)
    sub = c.method('is_substructure')
    ck.decide('next(self.get_mapping(other, automorphism_filter=False))' in src(sub.node) and 'except StopIteration' in src(sub.node), R, 'is_substructure', None,
              'is_substructure is no longer "at least one mapping exists"', file=sub.file, line=sub.lineno)
