# -*- coding: utf-8 -*-
"""
Engine D (matcher part): bit-provenance abstract interpretation of the two mask encoders in
chython/algorithms/isomorphism.py. The abstract value of a mask variable is the set of contributions
(constant | 1 << affine(field)) together with the path condition under which each is OR-ed in. No path
is executed and no solver is involved.
"""
import ast
from .core import AnalysisError

ISO = 'chython.algorithms.isomorphism'
FIELD_ALIASES = {'atomic_numbers': 'atomic_number'}


class Site:
    __slots__ = ('kind', 'var', 'line', 'path', 'field', 'coef', 'off', 'ops', 'value', 'assign', 'coerced')

    def __init__(self, kind, var, line, path, assign, **kw):
        self.kind = kind
        self.var = var
        self.line = line
        self.path = tuple(path)
        self.assign = assign  # True: '=', False: '|='
        self.field = kw.get('field')
        self.coef = kw.get('coef')
        self.off = kw.get('off')
        self.ops = tuple(kw.get('ops', ()))
        self.value = kw.get('value')
        self.coerced = kw.get('coerced', False)

    def bits(self, domain):
        """{orig value: bit} over the domain after path restrictions / clamps"""
        out = {}
        for v in domain:
            cur = v
            alive = True
            for op in self.ops:
                if op[0] == 'restrict':
                    if not _cmp(cur, op[1], op[2]):
                        alive = False
                        break
                elif op[0] == 'clamp':
                    if _cmp(cur, op[1], op[2]):
                        cur = op[3]
            if alive:
                out[v] = self.coef * cur + self.off
        return out

    def __repr__(self):
        if self.kind == 'shift':
            return f'<{self.var}{"=" if self.assign else "|="}1<<({self.coef}*{self.field}{self.off:+d}) L{self.line}>'
        return f'<{self.var}{"=" if self.assign else "|="}{self.value:#x} L{self.line}>'


def _cmp(a, op, b):
    return {'>': a > b, '<=': a <= b, '<': a < b, '>=': a >= b, '==': a == b, '!=': a != b}[op]


NEG = {'>': '<=', '<=': '>', '<': '>=', '>=': '<', '==': '!=', '!=': '=='}
OPS = {ast.Gt: '>', ast.LtE: '<=', ast.Lt: '<', ast.GtE: '>=', ast.Eq: '==', ast.NotEq: '!='}


class EncoderWalker:
    """collect shift/constant contributions to mask variables inside the per-atom loop of an encoder"""

    def __init__(self, func, atom_var, mask_vars):
        self.func = func
        self.atom = atom_var
        self.mask_vars = set(mask_vars)
        self.sites = []

    def fail(self, node, msg):
        raise AnalysisError(f'{self.func.fq}:{getattr(node, "lineno", "?")}: bit-layout idiom not recognised: {msg}: '
                            f'{ast.unparse(node)[:100]}')

    # -- expressions ------------------------------------------------------------------------------------------------
    def field_of(self, node, env):
        """(field, ops, coerced) for an expression denoting one attribute value of the atom, else None"""
        if isinstance(node, ast.Attribute) and isinstance(node.value, ast.Name) and node.value.id == self.atom:
            return FIELD_ALIASES.get(node.attr, node.attr), (), False
        if isinstance(node, ast.Name) and node.id in env:
            f, ops = env[node.id]
            return f, ops, False
        if isinstance(node, ast.NamedExpr):
            return self.field_of(node.value, env)
        if isinstance(node, ast.BoolOp) and isinstance(node.op, ast.Or) and len(node.values) == 2 and \
                isinstance(node.values[1], ast.Constant) and node.values[1].value == 0:
            r = self.field_of(node.values[0], env)
            if r:
                return r[0], r[1], True
        return None

    def affine(self, node, env):
        """{symbol: coef, 1: const}, ops, coerced"""
        if isinstance(node, ast.Constant) and isinstance(node.value, int):
            return {1: node.value}, (), False
        r = self.field_of(node, env)
        if r:
            return {r[0]: 1, 1: 0}, r[1], r[2]
        if isinstance(node, ast.BinOp) and isinstance(node.op, (ast.Add, ast.Sub)):
            la, lo, lc = self.affine(node.left, env)
            ra, ro, rc = self.affine(node.right, env)
            sign = 1 if isinstance(node.op, ast.Add) else -1
            out = dict(la)
            for k, v in ra.items():
                out[k] = out.get(k, 0) + sign * v
            return out, lo + ro, lc or rc
        if isinstance(node, ast.UnaryOp) and isinstance(node.op, ast.USub):
            a, o, c = self.affine(node.operand, env)
            return {k: -v for k, v in a.items()}, o, c
        self.fail(node, 'non-affine shift amount')

    def contribution(self, node, env, var, line, path, assign):
        """record what `node` ORs into var"""
        if isinstance(node, ast.Constant) and isinstance(node.value, int):
            self.sites.append(Site('const', var, line, path, assign, value=node.value))
            return
        if isinstance(node, ast.BinOp) and isinstance(node.op, ast.LShift) and isinstance(node.left, ast.Constant) \
                and node.left.value == 1:
            aff, ops, coerced = self.affine(node.right, env)
            syms = {k: v for k, v in aff.items() if k != 1 and v}
            off = aff.get(1, 0)
            if set(syms) == {'isotope', 'mdl_isotope'} and syms['isotope'] == 1 and syms['mdl_isotope'] == -1:
                field, coef = 'isotope', 1
            elif len(syms) == 1:
                (field, coef), = syms.items()
            else:
                self.fail(node, f'shift amount over {sorted(syms)}')
            self.sites.append(Site('shift', var, line, path, assign, field=field, coef=coef, off=off, ops=ops,
                                   coerced=coerced))
            return
        if isinstance(node, ast.BinOp) and isinstance(node.op, ast.BitOr):
            self.contribution(node.left, env, var, line, path, assign)
            self.contribution(node.right, env, var, line, path, False)
            return
        if isinstance(node, ast.IfExp):
            t = ast.unparse(node.test)
            env_t, env_f = dict(env), dict(env)
            rs = self.window_restrictions(node.test, env)
            if rs:
                name = rs[0][0]
                f_, ops_ = env[name]
                env_t[name] = (f_, ops_ + tuple(('restrict', op, k) for _, op, k in rs))
                if len(rs) == 1:
                    env_f[name] = (f_, ops_ + (('restrict', NEG[rs[0][1]], rs[0][2]),))
            if isinstance(node.orelse, ast.Constant) and node.orelse.value == 0:
                # `<bits> if <test> else 0`: nothing is contributed on the other side
                self.contribution(node.body, env_t, var, line, path + [(t, True)], assign)
                return
            self.contribution(node.body, env_t, var, line, path + [(t, True)], assign)
            self.contribution(node.orelse, env_f, var, line, path + [(t, False)], assign)
            return
        if isinstance(node, ast.Name) and node.id in self.mask_vars:
            return  # v = bits1[x]-like carry handled by caller
        if isinstance(node, ast.Subscript):
            self.sites.append(Site('carry', var, line, path, assign, value=0, field=ast.unparse(node)))
            return
        self.fail(node, 'mask contribution')

    # -- statements -------------------------------------------------------------------------------------------------
    def test_restriction(self, test, env):
        """if test is `NAME > K` (possibly with a walrus binding NAME to a field) -> (name, field, op, K)"""
        if isinstance(test, ast.Compare) and len(test.ops) == 1 and type(test.ops[0]) in OPS:
            k = test.comparators[0]
            if isinstance(k, ast.Constant) and isinstance(k.value, int) and not isinstance(k.value, bool):
                left = test.left
                if isinstance(left, ast.NamedExpr):
                    r = self.field_of(left.value, env)
                    if r:
                        return left.target.id, r[0], OPS[type(test.ops[0])], k.value, True
                if isinstance(left, ast.Name) and left.id in env:
                    return left.id, env[left.id][0], OPS[type(test.ops[0])], k.value, False
        return None

    def window_restrictions(self, test, env):
        """[(name, op, K)] for `NAME op K`, `abs(NAME) < K` / `<= K`, `-K < NAME < K` over a field-bound local name"""
        if isinstance(test, ast.Compare) and len(test.ops) == 1 and type(test.ops[0]) in OPS and isinstance(test.comparators[0], ast.Constant) \
                and isinstance(test.comparators[0].value, int):
            k, op = test.comparators[0].value, OPS[type(test.ops[0])]
            l = test.left
            if isinstance(l, ast.Name) and l.id in env:
                return [(l.id, op, k)]
            if isinstance(l, ast.Call) and isinstance(l.func, ast.Name) and l.func.id == 'abs' and len(l.args) == 1 and isinstance(l.args[0], ast.Name) \
                    and l.args[0].id in env and op in ('<', '<='):
                return [(l.args[0].id, op, k), (l.args[0].id, '>' if op == '<' else '>=', -k)]
        if isinstance(test, ast.Compare) and len(test.ops) == 2 and isinstance(test.comparators[0], ast.Name) and test.comparators[0].id in env \
                and all(type(o) in OPS for o in test.ops):
            lo, hi = test.left, test.comparators[1]
            try:
                lo_v, hi_v = ast.literal_eval(lo), ast.literal_eval(hi)
            except Exception:
                return []
            nm = test.comparators[0].id
            flip = {'<': '>', '<=': '>=', '>': '<', '>=': '<='}
            o1, o2 = OPS[type(test.ops[0])], OPS[type(test.ops[1])]
            if o1 in flip and o2 in flip:
                return [(nm, flip[o1], lo_v), (nm, o2, hi_v)]
        return []

    def walk(self, body, env, path):
        for st in body:
            self.stmt(st, env, path)

    def stmt(self, st, env, path):
        if isinstance(st, ast.If):
            t = ast.unparse(st.test)
            r = self.test_restriction(st.test, env)
            env_t, env_f = dict(env), dict(env)
            if r:
                name, field, op, k, _ = r
                base = env.get(name, (field, ()))[1]
                env_t[name] = (field, base + (('restrict', op, k),))
                env_f[name] = (field, base + (('restrict', NEG[op], k),))
            else:
                # walrus inside an arbitrary test binds for both branches
                for n in ast.walk(st.test):
                    if isinstance(n, ast.NamedExpr):
                        rr = self.field_of(n.value, env)
                        if rr:
                            env_t[n.target.id] = env_f[n.target.id] = (rr[0], rr[1])
            # clamp idiom: `if NAME > K: NAME = V` (+ possibly more statements), no else
            self.walk(st.body, env_t, path + [(t, True)])
            self.walk(st.orelse, env_f, path + [(t, False)])
            if r and not st.orelse:
                name, field, op, k, _ = r
                new = env_t.get(name)
                if new is not None and new[1] and new[1][-1][0] == 'set':
                    base = env.get(name, (field, ()))[1]
                    env[name] = (field, base + (('clamp', op, k, new[1][-1][1]),))
                elif name not in env:
                    env[name] = (field, ())
            elif r:
                pass
            # names bound by walrus in the test stay visible afterwards (python scoping)
            for n in ast.walk(st.test):
                if isinstance(n, ast.NamedExpr) and n.target.id not in env:
                    rr = self.field_of(n.value, env)
                    if rr:
                        env[n.target.id] = (rr[0], rr[1])
            return
        if isinstance(st, ast.For):
            env2 = dict(env)
            r = self.field_of(st.iter, env)
            if r and isinstance(st.target, ast.Name):
                env2[st.target.id] = (r[0], r[1])
            self.walk(st.body, env2, path + [(f'for {ast.unparse(st.target)} in {ast.unparse(st.iter)}', True)])
            if st.orelse:
                self.walk(st.orelse, env, path)
            return
        if isinstance(st, ast.Assign):
            if len(st.targets) == 1 and isinstance(st.targets[0], ast.Name):
                name = st.targets[0].id
                if name in self.mask_vars:
                    self.contribution(st.value, env, name, st.lineno, path, True)
                    return
                r_ = self.field_of(st.value, env) if name not in env else None
                if r_ and not r_[2]:
                    env[name] = (r_[0], r_[1])  # local alias of an attribute: `ring_sizes = a.ring_sizes`
                    return
                if name not in env and isinstance(st.value, ast.BinOp):
                    try:
                        aff, ops_, _ = self.affine(st.value, env)
                    except AnalysisError:
                        aff = None
                    if aff is not None and {k: v for k, v in aff.items() if v} == {'isotope': 1, 'mdl_isotope': -1}:
                        env[name] = ('isotope', ops_)  # shift = a.isotope - a.mdl_isotope: the relative isotope the field is about
                        return
                if name in env:
                    if isinstance(st.value, ast.Constant) and isinstance(st.value.value, int):
                        f, ops = env[name]
                        env[name] = (f, ops + (('set', st.value.value),))
                        return
                    self.fail(st, f'assignment to field-bound name {name}')
                return
            # v1 = v2 = 0
            if all(isinstance(t, ast.Name) for t in st.targets):
                for t in st.targets:
                    if t.id in self.mask_vars:
                        self.contribution(st.value, env, t.id, st.lineno, path, True)
                return
            for t in st.targets:
                for n in ast.walk(t):
                    if isinstance(n, ast.Name) and n.id in self.mask_vars:
                        self.fail(st, 'mask variable assigned through an unrecognised target')
            return
        if isinstance(st, ast.AugAssign):
            if isinstance(st.target, ast.Name) and st.target.id in self.mask_vars:
                if not isinstance(st.op, ast.BitOr):
                    self.fail(st, 'mask updated with an operator other than |=')
                self.contribution(st.value, env, st.target.id, st.lineno, path, False)
            return
        if isinstance(st, (ast.Expr, ast.Continue, ast.Pass, ast.Break)):
            return
        if isinstance(st, (ast.With, ast.Try, ast.While)):
            self.fail(st, 'unexpected statement kind inside an encoder loop')


def find_loop(func, pred):
    for n in ast.walk(func.node):
        if isinstance(n, ast.For) and pred(n):
            return n
    raise AnalysisError(f'{func.fq}: per-atom loop not found')


def bits_of(x):
    return {i for i in range(64) if x >> i & 1}


def struct_formats(repo):
    m = repo.module(ISO)
    out = {}
    for name in ('header_struct', 'm_atom_struct', 'q_atom_struct', 'bond_struct'):
        e = m.assigns.get(name)
        if not (isinstance(e, ast.Call) and ast.unparse(e.func) == 'Struct' and e.args and isinstance(e.args[0], ast.Constant)):
            raise AnalysisError(f'{ISO}.{name} is not Struct(<literal>)')
        out[name] = e.args[0].value
    return out


def zip_pack_calls(func):
    """[(struct_name, [zip arg names])] for `for x in zip(...): buffer.write(S.pack(*x))`"""
    out = []
    for n in ast.walk(func.node):
        if isinstance(n, ast.For) and isinstance(n.iter, ast.Call) and ast.unparse(n.iter.func) == 'zip':
            names = [ast.unparse(a) for a in n.iter.args]
            for c in ast.walk(n):
                if isinstance(c, ast.Call) and isinstance(c.func, ast.Attribute) and c.func.attr == 'pack' and \
                        isinstance(c.func.value, ast.Name) and c.args and isinstance(c.args[0], ast.Starred) and \
                        ast.unparse(c.args[0].value) == ast.unparse(n.target):
                    out.append((c.func.value.id, names, n.lineno))
    return out


def append_map(func, mask_vars):
    """mask var -> list name it is appended to (bits1.append(v1))"""
    out = {}
    for n in ast.walk(func.node):
        if isinstance(n, ast.Call) and isinstance(n.func, ast.Attribute) and n.func.attr == 'append' and \
                isinstance(n.func.value, ast.Name) and len(n.args) == 1 and isinstance(n.args[0], ast.Name) and \
                n.args[0].id in mask_vars:
            out.setdefault(n.args[0].id, set()).add(n.func.value.id)
    return out


def merge_temp_accumulators(fn, mask_vars):
    """within one statement list: `t = 0; ... t |= e ...; v = t or C` -> `v = 0; ... v |= e ...; if not v: v = C`; `... ; v = t` -> `v = 0; ...`;
    `t = 0; ... t |= e ...; v |= t` -> `... v |= e ...` when t is not read in between: a temporary accumulator that is only copied / OR-ed into
    a mask word is that mask word. Works on a copy."""
    import copy as _copy
    fn = _copy.deepcopy(fn)

    def blocks(node):
        for n in ast.walk(node):
            for field in ('body', 'orelse', 'finalbody'):
                blk = getattr(n, field, None)
                if isinstance(blk, list) and blk and isinstance(blk[0], ast.stmt):
                    yield blk

    def use(st):
        """-> (target mask word, temporary, default or None, 'assign' | 'or') for the statement that consumes a temporary"""
        if isinstance(st, ast.Assign) and len(st.targets) == 1 and isinstance(st.targets[0], ast.Name) and st.targets[0].id in mask_vars:
            v = st.value
            if isinstance(v, ast.BoolOp) and isinstance(v.op, ast.Or) and len(v.values) == 2 and isinstance(v.values[0], ast.Name) \
                    and isinstance(v.values[1], ast.Constant) and isinstance(v.values[1].value, int):
                return st.targets[0].id, v.values[0].id, v.values[1], 'assign'
            if isinstance(v, ast.Name):
                return st.targets[0].id, v.id, None, 'assign'
        if isinstance(st, ast.AugAssign) and isinstance(st.op, ast.BitOr) and isinstance(st.target, ast.Name) and st.target.id in mask_vars \
                and isinstance(st.value, ast.Name):
            return st.target.id, st.value.id, None, 'or'
        return None

    # `t = 0; ... t |= e ...; X = C | t`  ->  `t = C; ... t |= e ...; X = t`   (| is commutative and associative, t only accumulates)
    for blk in blocks(fn):
        for j, st in enumerate(blk):
            if not (isinstance(st, ast.Assign) and len(st.targets) == 1 and not isinstance(st.targets[0], ast.Name) and isinstance(st.value, ast.BinOp)
                    and isinstance(st.value.op, ast.BitOr)):
                continue
            l, r = st.value.left, st.value.right
            if isinstance(r, ast.Constant):
                l, r = r, l
            if not (isinstance(l, ast.Constant) and isinstance(l.value, int) and isinstance(r, ast.Name) and r.id in mask_vars):
                continue
            tmp = r.id
            inits = [i for i in range(j) if isinstance(blk[i], ast.Assign) and len(blk[i].targets) == 1 and isinstance(blk[i].targets[0], ast.Name)
                     and blk[i].targets[0].id == tmp and isinstance(blk[i].value, ast.Constant) and blk[i].value.value == 0]
            if not inits:
                continue
            i = inits[-1]
            seg = blk[i + 1:j]
            loads = [n for x in seg for n in ast.walk(x) if isinstance(n, ast.Name) and n.id == tmp and isinstance(n.ctx, ast.Load)]
            plain = [n for x in seg for n in ast.walk(x) if isinstance(n, ast.Assign) and any(isinstance(t, ast.Name) and t.id == tmp for t in n.targets)]
            augs = [n for x in seg for n in ast.walk(x) if isinstance(n, ast.AugAssign) and isinstance(n.target, ast.Name) and n.target.id == tmp]
            if loads or plain or not all(isinstance(n.op, ast.BitOr) for n in augs):
                continue
            blk[i].value = ast.copy_location(ast.Constant(value=l.value), blk[i].value)
            st.value = ast.copy_location(ast.Name(id=tmp, ctx=ast.Load()), st.value)

    # `<statements that only assign t>; v = t` (t read nowhere else, v untouched in between)  ->  the same statements assigning v
    for blk in blocks(fn):
        for j, st in enumerate(blk):
            if not (isinstance(st, ast.Assign) and len(st.targets) == 1 and isinstance(st.targets[0], ast.Name) and st.targets[0].id in mask_vars
                    and isinstance(st.value, ast.Name) and st.value.id not in mask_vars):
                continue
            target, tmp = st.targets[0].id, st.value.id
            all_loads = [x for x in ast.walk(fn) if isinstance(x, ast.Name) and x.id == tmp and isinstance(x.ctx, ast.Load)]
            first = [i for i in range(j) if any(isinstance(x, ast.Name) and x.id == tmp for x in ast.walk(blk[i]))]
            if not first:
                continue
            seg = blk[first[0]:j]
            seg_loads = [x for s_ in seg for x in ast.walk(s_) if isinstance(x, ast.Name) and x.id == tmp and isinstance(x.ctx, ast.Load)]
            # `if not t:` tests of the accumulator are reads of the value being built: they travel with the rename
            if len(all_loads) != len(seg_loads) + 1:
                continue
            if any(isinstance(x, ast.Name) and x.id == target for s_ in seg for x in ast.walk(s_)):
                continue
            stores_elsewhere = [x for x in ast.walk(fn) if isinstance(x, ast.Name) and x.id == tmp and not isinstance(x.ctx, ast.Load)
                                and not any(x is y for s_ in seg for y in ast.walk(s_))]
            if stores_elsewhere:
                continue
            for s_ in seg:
                for x in ast.walk(s_):
                    if isinstance(x, ast.Name) and x.id == tmp:
                        x.id = target
            blk[j] = ast.copy_location(ast.Pass(), st)

    for _ in range(8):
        changed = False
        for blk in blocks(fn):
            for j, st in enumerate(blk):
                u = use(st)
                if u is None or u[0] == u[1]:
                    continue
                target, tmp, default, how = u
                inits = [i for i in range(j) if isinstance(blk[i], ast.Assign) and len(blk[i].targets) == 1 and isinstance(blk[i].targets[0], ast.Name)
                         and blk[i].targets[0].id == tmp and isinstance(blk[i].value, ast.Constant) and isinstance(blk[i].value.value, int)]
                if not inits:
                    continue
                i = inits[-1]
                seg = blk[i:j]
                ok = True
                for x in seg:
                    for n in ast.walk(x):
                        if isinstance(n, ast.Name) and n.id == tmp and isinstance(n.ctx, ast.Load):
                            ok = False
                        if isinstance(n, ast.Name) and n.id == target and how == 'assign':
                            ok = False  # the word itself is touched in between
                    for n in ast.walk(x):
                        if isinstance(n, (ast.Assign, ast.AugAssign)):
                            tg = n.targets if isinstance(n, ast.Assign) else [n.target]
                            if any(isinstance(t, ast.Name) and t.id == tmp for t in tg):
                                if isinstance(n, ast.Assign) and not (isinstance(n.value, ast.Constant) and isinstance(n.value.value, int)):
                                    ok = False
                                if isinstance(n, ast.AugAssign) and not isinstance(n.op, ast.BitOr):
                                    ok = False
                if not ok:
                    continue
                for x in seg:
                    for n in ast.walk(x):
                        if isinstance(n, ast.Name) and n.id == tmp:
                            n.id = target
                if how == 'or':
                    c = blk[i].value
                    blk[i] = ast.copy_location(ast.Pass(), blk[i]) if c.value == 0 else \
                        ast.fix_missing_locations(ast.copy_location(ast.AugAssign(target=ast.Name(id=target, ctx=ast.Store()), op=ast.BitOr(), value=c), blk[i]))
                    blk[j] = ast.copy_location(ast.Pass(), st)
                elif default is None:
                    blk[j] = ast.copy_location(ast.Pass(), st)
                else:
                    fix = ast.If(test=ast.UnaryOp(op=ast.Not(), operand=ast.Name(id=target, ctx=ast.Load())),
                                 body=[ast.Assign(targets=[ast.Name(id=target, ctx=ast.Store())], value=default, lineno=st.lineno)], orelse=[])
                    blk[j] = ast.fix_missing_locations(ast.copy_location(fix, st))
                changed = True
                break
            if changed:
                break
        if not changed:
            break
    return fn


def analyse_encoders(repo):
    import copy as _copy
    from .astutil import inline_accumulator_helpers
    mol = _copy.copy(repo.func(f'{ISO}:MoleculeIsomorphism._cython_compiled_structure'))
    qry = _copy.copy(repo.func(f'{ISO}:QueryIsomorphism._cython_compiled_query'))
    # undo "extract method" on mask arithmetic: helpers of the shape `v = 0; ...; return v` are expanded at their call sites
    mol.node = inline_accumulator_helpers(mol.node, mol.module.tree)
    qry.node = inline_accumulator_helpers(qry.node, qry.module.tree)
    mv = ('v1', 'v2', 'v3', 'v4', 'v')
    mol.node = merge_temp_accumulators(mol.node, mv)
    qry.node = merge_temp_accumulators(qry.node, mv)
    mloop = find_loop(mol, lambda n: 'self.atoms()' in ast.unparse(n.iter) and any(
        isinstance(x, ast.Name) and x.id == 'a' for x in ast.walk(n.target)))
    mw = EncoderWalker(mol, 'a', mv)
    mw.walk(mloop.body, {}, [])
    # molecule bond loop
    mbloop = find_loop(mol, lambda n: 'ms.items()' in ast.unparse(n.iter))
    mbw = EncoderWalker(mol, 'b', mv)
    mbw.walk(mbloop.body, {}, [])
    qloop = find_loop(qry, lambda n: isinstance(n.target, ast.Tuple) and [ast.unparse(x) for x in n.target.elts][-2:] == ['a', 'b'])
    qw = EncoderWalker(qry, 'a', mv)
    qw.walk(qloop.body, {}, [])
    qcloop = find_loop(qry, lambda n: isinstance(n.iter, ast.Call) and ast.unparse(n.iter.func) == 'enumerate' and 'ms' in ast.unparse(n.iter))
    qcw = EncoderWalker(qry, 'a', mv)
    qcw.walk(qcloop.body, {}, [])
    return dict(mol=mol, qry=qry, m_sites=mw.sites, mb_sites=mbw.sites, q_sites=qw.sites, qc_sites=qcw.sites,
                m_append=append_map(mol, mv), q_append=append_map(qry, mv),
                m_zip=zip_pack_calls(mol), q_zip=zip_pack_calls(qry), structs=struct_formats(repo))


def word_of(var, append, zips, struct_name):
    """index of the struct field a mask variable lands in"""
    lists = append.get(var)
    if not lists or len(lists) != 1:
        raise AnalysisError(f'mask variable {var} is not appended to exactly one list ({lists})')
    lst = next(iter(lists))
    for s, names, _ in zips:
        if s == struct_name and lst in names:
            return names.index(lst)
    raise AnalysisError(f'list {lst} is not packed by {struct_name}')


def charge_bounds(setter):
    """(lo, hi) of the integer charges the setter admits, decided by evaluating its raising guards over -12..12 (any spelling of the range test:
    `value > 4 or value < -4`, `not -4 <= value <= 4`, `value not in range(-4, 5)`); None if the admitted set is not one interval or a guard is not understood"""
    from .r_query import _ev, _Unknown
    par = setter.params()[-1]
    guards = []
    for n in ast.walk(setter.node):
        if isinstance(n, ast.If) and any(isinstance(x, ast.Raise) for s_ in n.body for x in ast.walk(s_)):
            guards.append(n.test)
    admitted = []
    for v in range(-12, 13):
        rejected = False
        for g in guards:
            try:
                env = {par: v, 'range': range}
                if _ev_range(g, env, _ev):
                    rejected = True
                    break
            except _Unknown:
                return None
        if not rejected:
            admitted.append(v)
    if not admitted or admitted != list(range(admitted[0], admitted[-1] + 1)) or admitted[0] == -12 or admitted[-1] == 12:
        return None
    return admitted[0], admitted[-1]


def _ev_range(g, env, _ev):
    """_ev with support for `x in range(a, b)` / `x not in range(a, b)` and isinstance guards that do not concern ints"""
    if isinstance(g, ast.BoolOp):
        vals = [_ev_range(v, env, _ev) for v in g.values]
        return all(vals) if isinstance(g.op, ast.And) else any(vals)
    if isinstance(g, ast.UnaryOp) and isinstance(g.op, ast.Not):
        return not _ev_range(g.operand, env, _ev)
    if isinstance(g, ast.Compare) and len(g.ops) == 1 and isinstance(g.ops[0], (ast.In, ast.NotIn)) and isinstance(g.comparators[0], ast.Call) and \
            isinstance(g.comparators[0].func, ast.Name) and g.comparators[0].func.id == 'range':
        args = [_ev(a, env) for a in g.comparators[0].args]
        r = _ev(g.left, env) in range(*args)
        return r if isinstance(g.ops[0], ast.In) else not r
    return _ev(g, env)


def matcher_layout(repo):
    """summary used by C18 and C09"""
    a = analyse_encoders(repo)
    m_sites = a['m_sites']
    q_sites = a['q_sites']

    def one(sites, field, **kw):
        c = [s for s in sites if s.kind == 'shift' and s.field == field]
        if not c:
            raise AnalysisError(f'no shift site for field {field} in encoder')
        return c

    # isotope: window = bits strictly between the radical bits and the "isotope unspecified" bit of word 3
    iso = one(m_sites, 'isotope')[0]
    consts3 = [s for s in m_sites if s.kind == 'const' and s.var == iso.var]
    rad_bits = set()
    unspec = set()
    allb = set()
    for s in consts3:
        allb |= bits_of(s.value)
    if len(allb) == 3:  # two radical bits below the window, one "isotope unspecified" bit above it; written combined or one by one
        unspec = {max(allb)}
        rad_bits = allb - unspec
    if len(rad_bits) != 2 or len(unspec) != 1:
        raise AnalysisError(f'radical/isotope-unspecified constants of the molecule encoder not recognised: '
                            f'{[hex(s.value) for s in consts3]}')
    hi_bit = min(unspec) - 1
    lo_bit = max(rad_bits) + 1
    iso_window = (lo_bit - iso.off, hi_bit - iso.off)
    charge = one(m_sites, 'charge')[0]
    hyd = one(m_sites, 'implicit_hydrogens')[0]
    ngb = one(m_sites, 'neighbors')[0]
    het = one(m_sites, 'heteroatoms')[0]
    # field regions in word 3, ordered by offset: heteroatoms < neighbors < hydrogens < charge < radical
    if not (het.off < ngb.off < hyd.off < charge.off < min(rad_bits)):
        raise AnalysisError('word-3 field order of the molecule encoder changed; layout summary not derivable')
    setter = repo.cls('chython.periodictable.base.element:Element').method('charge', setter=True)
    if setter is None:
        raise AnalysisError('Element.charge setter vanished')
    cb = charge_bounds(setter)
    if cb is None:
        raise AnalysisError('bounds of the Element.charge setter not recognised')
    # the H field ends where the lowest admissible charge starts
    h_max = charge.off + cb[0] - 1 - hyd.off
    charge_window = (hyd.off + h_max + 1 - charge.off, min(rad_bits) - 1 - charge.off)
    ngb_max = hyd.off - 1 - ngb.off
    het_max = ngb.off - 1 - het.off

    el_sites = one(m_sites, 'atomic_number')
    w_of = {v: word_of(v, a['m_append'], a['m_zip'], 'm_atom_struct') for v in ('v1', 'v2', 'v3', 'v4')}

    def element_bit(z):
        hits = []
        for s in el_sites:
            b = s.bits([z])
            if z in b:
                hits.append((w_of[s.var], b[z]))
        if len(hits) != 1 or not 0 <= hits[0][1] < 64:
            return None
        return hits[0]

    pos = {}
    for z in range(1, 119):
        p = element_bit(z)
        if p is not None:
            pos.setdefault(p, []).append(z)
    collisions = sorted(v for v in pos.values() if len(v) > 1)
    return dict(isotope_window=iso_window, h_max=h_max, charge_window=charge_window, neighbors_max=ngb_max,
                heteroatoms_max=het_max, element_bit=element_bit, element_collisions=collisions, analysis=a,
                words=w_of, rad_bits=sorted(rad_bits), unspecified_bit=min(unspec))
