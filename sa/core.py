# -*- coding: utf-8 -*-
"""
Plumbing shared by every check: exit protocol, evidence, known findings, replay files.

Exit protocol (DESIGN.md section 1):
  0  every rule instance held (KNOWN-FINDING lines printed for listed findings)
  1  VIOLATION property=<id> replay=<path>   (an instance failed that known_findings.json does not list)
  2  ANALYSIS-ERROR ...                      (the checker could not establish its own preconditions)
"""
import json
import os
import sys
import time
import traceback

VERIF = os.path.dirname(os.path.dirname(os.path.abspath(__file__)))
# VERIF_EVIDENCE_DIR redirects evidence/replays (used by ./selftest so that mutant runs never touch /verif/evidence)
EVIDENCE_DIR = os.environ.get('VERIF_EVIDENCE_DIR') or os.path.join(VERIF, 'evidence')
REPLAY_DIR = os.path.join(EVIDENCE_DIR, 'replays')
KNOWN_FILE = os.path.join(VERIF, 'known_findings.json')


class AnalysisError(Exception):
    """the checker cannot establish its own preconditions (vanished anchor, unknown idiom, floor not met)"""


class Finding:
    __slots__ = ('rule', 'key', 'message', 'file', 'line', 'func', 'construct', 'extra')

    def __init__(self, rule, key, message, file=None, line=None, func=None, construct=None, extra=None):
        self.rule = rule
        self.key = key
        self.message = message
        self.file = file
        self.line = line
        self.func = func
        self.construct = construct
        self.extra = extra

    def as_dict(self):
        d = {'rule': self.rule, 'key': self.key, 'message': self.message}
        for k in ('file', 'line', 'func', 'construct', 'extra'):
            v = getattr(self, k)
            if v is not None:
                d[k] = v
        return d


class Check:
    """
    Collector for one property run.

    ok(rule, key, detail)         an obligation that was evaluated and held
    bad(rule, key, msg, ...)      an obligation that failed
    note(text)                    cross-reference information, not armed
    floor(rule, n)                anti-vacuity: at least n obligations of this rule must have been evaluated
    """

    def __init__(self, pid, tier='quick', repo='/repo', level='other'):
        self.pid = pid
        self.tier = tier
        self.repo = repo
        self.level = level
        self.t0 = time.time()
        self.obligations = []  # (rule, key, detail, nontrivial)
        self.findings = []
        self.notes = []
        self.floors = {}
        self.rules_text = {}
        self.assumptions = []
        self.analysed = {}
        self.undecided = []
        self.only_key = None  # replay filter
        self.deferred = []  # analysis errors of one rule that must not hide violations found by other rules

    # -- recording ---------------------------------------------------------------------------------------------
    def rule(self, rule, text):
        self.rules_text[rule] = text

    def ok(self, rule, key, detail=None, nontrivial=True):
        self.obligations.append((rule, str(key), detail, nontrivial, True))

    def bad(self, rule, key, message, file=None, line=None, func=None, construct=None, extra=None):
        self.obligations.append((rule, str(key), message, True, False))
        self.findings.append(Finding(rule, str(key), message, file, line, func, construct, extra))

    def decide(self, cond, rule, key, detail_ok=None, message=None, **kw):
        if cond:
            self.ok(rule, key, detail_ok)
        else:
            self.bad(rule, key, message or detail_ok or 'obligation failed', **kw)
        return cond

    def note(self, text):
        self.notes.append(text)

    def floor(self, rule, n):
        self.floors[rule] = max(self.floors.get(rule, 0), n)

    def require(self, cond, msg):
        if not cond:
            raise AnalysisError(msg)

    def defer(self, msg):
        self.deferred.append(msg)

    def count(self, what, n):
        self.analysed[what] = self.analysed.get(what, 0) + n

    # -- finishing ---------------------------------------------------------------------------------------------
    def finish(self):
        per_rule = {}
        for rule, key, detail, nontrivial, held in self.obligations:
            per_rule.setdefault(rule, []).append((key, held))
        for rule, n in self.floors.items():
            got = len(per_rule.get(rule, ()))
            if got < n:
                raise AnalysisError(f'rule {rule}: only {got} instances evaluated, floor confirmed by hand is {n} '
                                    f'(anchor vanished or idiom no longer recognised)')

        known = load_known()
        known_keys = {(k['property'], k['rule'], k['key']): k for k in known.get('known', ())}
        os.makedirs(REPLAY_DIR, exist_ok=True)
        # remove stale replays of this property
        for fn in os.listdir(REPLAY_DIR):
            if fn.startswith(self.pid + '-'):
                try:
                    os.unlink(os.path.join(REPLAY_DIR, fn))
                except OSError:
                    pass

        new = []
        seen = set()
        for f in self.findings:
            if (f.rule, f.key) in seen:
                continue
            seen.add((f.rule, f.key))
            if self.only_key is not None and (f.rule, f.key) != self.only_key:
                continue
            k = known_keys.get((self.pid, f.rule, f.key))
            if k is not None:
                print(f'KNOWN-FINDING: property={self.pid} rule={f.rule} {f.key} :: {k.get("what", f.message)}')
            else:
                new.append(f)

        lines = []
        for i, f in enumerate(new):
            path = os.path.join(REPLAY_DIR, f'{self.pid}-{i}.json')
            rec = f.as_dict()
            rec['property'] = self.pid
            rec['repo'] = self.repo
            rec['rule_text'] = self.rules_text.get(f.rule)
            with open(path, 'w') as fh:
                json.dump(rec, fh, indent=1, sort_keys=True)
            loc = f'{f.file}:{f.line}' if f.file else '-'
            print(f'  [{f.rule}] {loc} {f.func or ""}: {f.message}')
            if f.construct:
                print(f'      construct: {f.construct}')
            lines.append(f'VIOLATION property={self.pid} replay={path}')

        if self.deferred and not lines:
            raise AnalysisError(self.deferred[0] + (f' (+{len(self.deferred) - 1} more)' if len(self.deferred) > 1 else ''))
        for d in self.deferred:
            print(f'ANALYSIS-NOTE (a rule could not be established, reported violations stand): {d}')
        self.write_evidence(len(new))
        for ln in lines:
            print(ln)
        n_ob = len(self.obligations)
        if not lines:
            print(f'OK property={self.pid} tier={self.tier} obligations={n_ob} rules={len(per_rule)} '
                  f'notes={len(self.notes)} wall={time.time() - self.t0:.2f}s')
        return 1 if lines else 0

    def write_evidence(self, n_viol):
        per_rule = {}
        distinct = set()
        for rule, key, detail, nontrivial, held in self.obligations:
            c = per_rule.setdefault(rule, {'evaluated': 0, 'held': 0})
            c['evaluated'] += 1
            c['held'] += int(held)
            if nontrivial:
                distinct.add((rule, key))
        samples = []
        per_rule_samples = {}
        for rule, key, detail, nontrivial, held in self.obligations:
            lst = per_rule_samples.setdefault(rule, [])
            if len(lst) < 4 or not held:
                rec = {'rule': rule, 'instance': key, 'verdict': 'held' if held else 'FAILED'}
                if detail is not None:
                    rec['detail'] = detail if isinstance(detail, (str, int, float, list, dict)) else str(detail)
                lst.append(rec)
        for lst in per_rule_samples.values():
            samples.extend(lst)
        n_ob = len(self.obligations)
        n_held = sum(1 for o in self.obligations if o[4])
        cov = {
            'evaluations': n_ob,
            'distinct_nontrivial': len(distinct),
            'rule': 'one evaluation = one rule instance (function / call site / table row / path obligation) decided '
                    'from the source text of /repo; distinct_nontrivial counts distinct (rule, instance-key) pairs '
                    'that carried an obligation (instances the rule inspected but that imposed nothing are excluded)',
            'samples': samples[:120],
            'obligations': n_ob,
            'discharged': n_held,
            'checker_cmd': f'./check {self.pid} --tier {self.tier}',
            'trusted_base': ['CPython ast parser', 'sa/model.py (C3 MRO, import resolution)',
                             'semantics of __slots__, name mangling, functools.cached_property, CachedMethods'],
            'explanation': ' | '.join(f'{r}: {t}' for r, t in self.rules_text.items()),
            'per_rule': per_rule,
            'analysed': self.analysed,
            'notes': self.notes[:200],
            'undecided_clauses': self.undecided,
            'exhaustive': False,
        }
        ev = {
            'property_id': self.pid,
            'tier': self.tier,
            'seed': int(os.environ.get('VERIF_SEED', '0') or 0),
            'level': self.level,
            'coverage': cov,
            'assumptions': self.assumptions,
            'wall_s': round(time.time() - self.t0, 3),
            'violations': n_viol,
        }
        os.makedirs(EVIDENCE_DIR, exist_ok=True)
        if self.only_key is None:
            with open(os.path.join(EVIDENCE_DIR, f'{self.pid}.json'), 'w') as fh:
                json.dump(ev, fh, indent=1, sort_keys=True, default=str)


def load_known():
    try:
        with open(KNOWN_FILE) as fh:
            return json.load(fh)
    except FileNotFoundError:
        return {'known': [], 'fixed': []}


def run_guarded(fn):
    """run fn() -> exit code; any exception becomes ANALYSIS-ERROR exit 2"""
    try:
        code = fn()
    except AnalysisError as e:
        print(f'ANALYSIS-ERROR {e}')
        sys.stdout.flush()
        os._exit(2)
    except SystemExit:
        raise
    except BaseException:
        traceback.print_exc()
        print('ANALYSIS-ERROR internal error in the checker (traceback above); this is not a claim about chython')
        sys.stdout.flush()
        os._exit(2)
    sys.stdout.flush()
    sys.exit(code)
