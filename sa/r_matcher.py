# -*- coding: utf-8 -*-
"""
C09-D1/D2/D3: agreement of the bit-mask encoders (molecule / query), the struct layouts, the .pyx matcher and the
pure-python __eq__ ladders. Everything is derived by bit-provenance interpretation (sa/bits.py) and literal tables.
"""
import ast
import re
from .core import AnalysisError
from .astutil import src, attrs_read_of, strip_doc as strip_doc_
from .bits import analyse_encoders, bits_of, word_of, charge_bounds, ISO
from .tables import ElementTable, compile_valence_rules, pyx_source, strip_comments

PYX = 'chython/algorithms/_isomorphism.pyx'
ALL64 = (1 << 64) - 1


def field_domains(repo):
    t = ElementTable(repo)
    rows = t.rows
    numbers = {s: r['atomic_number'] for s, r in rows.items()}
    offs = [i - r['mdl_isotope'] for r in rows.values() for i in r['isotopes_distribution'] if isinstance(r['mdl_isotope'], int)]
    maxh = 0
    for r in rows.values():
        rules, _ = compile_valence_rules(r, numbers)
        for v in rules.values():
            for _, _, h in v:
                maxh = max(maxh, h)
    setter = repo.cls('chython.periodictable.base.element:Element').method('charge', setter=True)
    cb = charge_bounds(setter)
    if cb is None:
        raise AnalysisError('Element.charge setter bounds not recognised')
    # hybridisation values assigned by calc_labels
    cl = repo.func('chython.containers.molecule:MoleculeContainer.calc_labels')
    hyb = {n.value.value for n in ast.walk(cl.node) if isinstance(n, ast.Assign) and src(n.targets[0]) == 'hybridization'
           and isinstance(n.value, ast.Constant)}
    # query-side validation bounds for neighbors / heteroatoms / hydrogens
    val = repo.module('chython.periodictable.base.query').functions.get('_validate')
    if val is None:
        raise AnalysisError('query._validate vanished')
    # the largest scalar the validator admits: evaluate the conditions under which its first range error is raised (any spelling of the test)
    from .r_query import _ev, _Unknown
    from .astutil import reach_conditions
    hi = None
    par = val.params()[0]
    for n in ast.walk(val.node):
        if isinstance(n, ast.Raise) and n.exc is not None and src(n.exc).startswith('ValueError') and 'range' in src(n.exc):
            conds = reach_conditions(n, val.node)
            try:
                ok = [v for v in range(0, 64) if not all(_ev(c, {par: v}) for c in conds)]
            except _Unknown:
                break
            if ok and len(ok) < 64:
                hi = max(ok)
            break
    if hi is None:
        raise AnalysisError('upper bound of query._validate not recognised')
    return {
        'atomic_number': list(range(1, 119)),
        'hybridization': sorted(hyb),
        'isotope': list(range(min(offs), max(offs) + 1)),
        'charge': list(range(cb[0], cb[1] + 1)),
        'implicit_hydrogens': list(range(0, maxh + 1)),
        'neighbors': list(range(0, hi + 1)),
        'heteroatoms': list(range(0, hi + 1)),
        'ring_sizes': list(range(3, 66)),
    }, t, hi


def pyx_structs(repo):
    s = strip_comments(pyx_source(repo.root, PYX))
    out = {}
    for m in re.finditer(r'cdef packed struct (\w+):\n((?:    .+\n)+)', s):
        fields = []
        for line in m.group(2).strip('\n').split('\n'):
            parts = line.split()
            fields.append((' '.join(parts[:-1]), parts[-1]))
        out[m.group(1)] = fields
    return out, s


CTYPE = {'Q': 'unsigned long long', 'I': 'unsigned int'}
# python list variable -> role in the packed struct (the buffer contract between isomorphism.py and _isomorphism.pyx)
ROLE = {'bits1': 'bits1', 'bits2': 'bits2', 'bits3': 'bits3', 'bits4': 'bits4', 'o_from': 'from_', 'o_to': 'to_',
        'numbers': 'mapping', 'masks1': 'mask1', 'masks2': 'mask2', 'masks3': 'mask3', 'masks4': 'mask4', 'back': 'back',
        'closures': 'closure', 'q_from': 'from_', 'q_to': 'to_', 'bonds': 'bond', 'indices': 'index'}


def run_matcher_rules(ck, repo, thorough=False):
    a = analyse_encoders(repo)
    dom, table, nmax = field_domains(repo)
    mol, qry = a['mol'], a['qry']
    mloc = dict(file=mol.file, func=mol.qualname)
    qloc = dict(file=qry.file, func=qry.qualname)
    mw = {v: word_of(v, a['m_append'], a['m_zip'], 'm_atom_struct') for v in ('v1', 'v2', 'v3', 'v4')}
    qw = {v: word_of(v, a['q_append'], a['q_zip'], 'q_atom_struct') for v in ('v1', 'v2', 'v3', 'v4')}
    msh = [s for s in a['m_sites'] if s.kind == 'shift']
    qsh = [s for s in a['q_sites'] if s.kind == 'shift']
    ck.count('encoder shift sites', len(msh) + len(qsh))
    ck.count('encoder constant sites', len([s for s in a['m_sites'] + a['q_sites'] + a['mb_sites'] + a['qc_sites'] if s.kind == 'const']))

    # (0) a contribution made once per element of a multi-valued field accumulates ------------------------------------------
    R0 = 'C09.D1-accumulate-in-loops'
    ck.rule(R0, 'inside a loop over the values of a list-valued query field (element lists, neighbour / hybridisation / ring-size lists, bond order lists) every mask '
                'contribution is OR-ed in (`|=`): a plain assignment keeps only the last value of the list')
    n_loop = 0
    for which, sites, loc_ in (('molecule', a['m_sites'], mloc), ('molecule-bond', a['mb_sites'], mloc), ('query', a['q_sites'], qloc), ('closure', a['qc_sites'], qloc)):
        for s_ in sites:
            loops_ = [t for t, _ in s_.path if t.startswith('for ')]
            if not loops_ or s_.kind == 'carry':
                continue
            n_loop += 1
            ck.decide(not s_.assign, R0, f'{which}:{s_.var}@{loops_[-1][:40]}:{s_.kind}:{s_.value if s_.kind == "const" else s_.field}', None,
                      f'{which} encoder: `{s_.var} = ...` (plain assignment) inside `{loops_[-1]}`: every value of the list overwrites the bits of the previous one, '
                      f'only the last survives; the reference matcher accepts any value of the list', line=s_.line, **loc_)
    ck.count(f'{R0}: contributions inside loops', n_loop)
    ck.floor(R0, 6)

    # (i) same position for every value of every field ---------------------------------------------------------------
    R = 'C09.D1-i-positions'
    ck.rule(R, 'for every attribute value the molecule encoder and every query-encoder site put the bit in the same word '
               'at the same position (shift expressions interpreted as affine forms with their path restrictions/clamps)')
    mpos = {}
    # both encoders (and the __eq__ ladders, rule D2) must speak about the same attributes: a field encoded from another attribute of the atom
    # (total_hydrogens for implicit_hydrogens, ...) makes the compiled matcher compare a different quantity than the reference matcher
    mfields = {s.field for s in msh if s.field}
    missing = sorted(f for f in dom if f not in mfields)
    foreign = sorted(f for f in mfields if f not in dom and f not in ('mdl_isotope',))
    if missing:
        ck.bad(R, f'mol:fields:{",".join(missing)}', f'molecule encoder has no bits for {missing}' + (f' but encodes {foreign}' if foreign else '') +
               ': the compiled matcher no longer compares the attribute the query masks and the reference matcher (Element == QueryElement) compare',
               line=next((s.line for s in msh if s.field in foreign), None), **mloc)
        return a
    for f, d in dom.items():
        sites = [s for s in msh if s.field == f]
        ck.require(sites, f'molecule encoder has no shift site for {f}')
        for v in d:
            hits = {(mw[s.var], s.bits([v])[v]) for s in sites if v in s.bits([v])}
            if len(hits) != 1:
                ck.bad(R, f'mol:{f}={v}', f'molecule encoder maps {f}={v} to {sorted(hits) or "no bit"}; exactly one position expected',
                       line=sites[0].line, **mloc)
                continue
            w, b = next(iter(hits))
            if not 0 <= b < 64:
                ck.bad(R, f'mol:{f}={v}:range', f'molecule encoder shifts {f}={v} to bit {b}, outside the 64-bit word', line=sites[0].line, **mloc)
                continue
            mpos[(f, v)] = (w, b)
    if any((f, v) not in mpos for f, d in dom.items() for v in d):
        return a  # the molecule layout itself is broken (reported above): the comparisons below have nothing to compare against
    for f, d in dom.items():
        sites = [s for s in qsh if s.field == f]
        ck.require(sites, f'query encoder has no shift site for {f}')
        covered = set()
        for s in sites:
            bs = s.bits(d)
            for v, b in bs.items():
                covered.add(v)
                want = mpos.get((f, v))
                ck.decide(want == (qw[s.var], b), R, f'{f}={v}@q{s.line}', want,
                          f'query encoder (line {s.line}) puts {f}={v} at word {qw[s.var] + 1} bit {b}; molecule encoder at '
                          f'{("word %d bit %d" % (want[0] + 1, want[1])) if want else "nowhere"}', line=s.line, **qloc)
        ck.decide(covered >= set(d), R, f'{f}:query-covers-domain', len(covered),
                  f'query encoder has no bit for {f} values {sorted(set(d) - covered)[:8]}', line=sites[0].line, **qloc)
    # list-element and single-element variants both cover all elements
    for label, pred in (('ListElement', lambda s: any('a.atomic_numbers' in t for t, _ in s.path)),
                        ('QueryElement', lambda s: not any('a.atomic_numbers' in t for t, _ in s.path))):
        cov = set()
        for s in qsh:
            if s.field == 'atomic_number' and pred(s):
                cov |= set(s.bits(dom['atomic_number']))
        ck.decide(cov >= set(dom['atomic_number']), R, f'atomic_number:{label}-covers', len(cov),
                  f'{label} branch of the query encoder has no bit for Z in {sorted(set(dom["atomic_number"]) - cov)[:8]}', **qloc)
    ck.floor(R, 350)

    # (ii) disjointness inside a word ------------------------------------------------------------------------------------
    R = 'C09.D1-ii-disjoint'
    ck.rule(R, 'inside one 64-bit word the bit ranges of different attributes (over their domains) and the flag constants '
               'are pairwise disjoint; the only shared bit is the documented Lv/Ts/Og fold')
    by_word = {}
    for (f, v), (w, b) in mpos.items():
        by_word.setdefault(w, {}).setdefault(f, set()).add(b)
    # molecule-side constants: radical yes/no, isotope-unspecified, not-in-ring, transfer
    for s in a['m_sites']:
        if s.kind == 'const' and s.var in mw:
            for b in bits_of(s.value):
                by_word.setdefault(mw[s.var], {}).setdefault(f'const@{s.var}', set()).add(b)
    # bond-level constants are OR-ed onto word 1
    for s in a['mb_sites']:
        if s.kind == 'const':
            for b in bits_of(s.value):
                by_word.setdefault(mw['v1'], {}).setdefault('bond-flags', set()).add(b)
    for w, fields in sorted(by_word.items()):
        names = sorted(fields)
        for i, x in enumerate(names):
            for y in names[i + 1:]:
                if x.startswith('const@') and y.startswith('const@'):
                    continue
                inter = fields[x] & fields[y]
                # constants of word 3 legitimately include the radical flags + "isotope unspecified": they are their own fields
                ck.decide(not inter, R, f'word{w + 1}:{x}/{y}', None,
                          f'word {w + 1}: bits {sorted(inter)} are used by both {x} and {y}', **mloc)
    el = {}
    for v in dom['atomic_number']:
        if ('atomic_number', v) in mpos:
            el.setdefault(mpos[('atomic_number', v)], []).append(v)
    coll = sorted(v for v in el.values() if len(v) > 1)
    ck.decide(coll == [[116, 117, 118]], R, 'element-fold', coll, f'elements sharing one bit: {coll}; only Lv/Ts/Og is documented', **mloc)

    # (iii) wildcards ------------------------------------------------------------------------------------------------------
    R = 'C09.D1-iii-wildcards'
    ck.rule(R, 'each "attribute unspecified" constant of the query encoder equals the OR of that attribute\'s bits over its '
               'whole domain (plus the flag it is combined with); AnyElement/AnyMetal element masks equal the element sets '
               'their __eq__ admits, computed from the element tables')
    qconst = [s for s in a['q_sites'] if s.kind == 'const']

    def field_mask(f, extra=()):
        m = 0
        for v in dom[f]:
            m |= 1 << mpos[(f, v)][1]
        return m
    rad_t = rad_f = None
    iso_var = {s.var for s in a['m_sites'] if s.kind == 'shift' and s.field == 'isotope'}
    w3 = [s for s in a['m_sites'] if s.kind == 'const' and s.var in iso_var and len(bits_of(s.value)) in (1, 2)]
    for s in w3:  # the radical flag is the low bit of a constant written under a test of a.is_radical (alone or combined with the isotope flag)
        if ('a.is_radical', True) in s.path:
            rad_t = 1 << min(bits_of(s.value))
        elif ('a.is_radical', False) in s.path:
            rad_f = 1 << min(bits_of(s.value))
    rest = set()
    for s in w3:
        rest |= {1 << b for b in bits_of(s.value)} - {rad_t, rad_f}
    unspec = rest.pop() if len(rest) == 1 else None
    ck.require(rad_t and rad_f and unspec and unspec > 0, 'radical / isotope-unspecified constants of the molecule encoder not recognised')
    iso_lo = min(bits_of(rad_t) | bits_of(rad_f))
    iso_region = sum(1 << b for b in range(max(bits_of(rad_t) | bits_of(rad_f)) + 1, max(bits_of(unspec))))
    ck.decide(field_mask('isotope') & ~iso_region == 0, R, 'isotope-window', hex(iso_region),
              'tabulated isotope offsets fall outside the isotope bit window of word 3', **mloc)
    wild = {  # field -> expected wildcard
        'implicit_hydrogens': field_mask('implicit_hydrogens'),
        'heteroatoms': field_mask('heteroatoms'),
        'neighbors': field_mask('neighbors'),
        'hybridization': field_mask('hybridization'),
    }
    for f, want in wild.items():
        test = f'not a.{f}'
        cands = [s for s in qconst if (test, True) in s.path or (f'a.{f}', False) in s.path]
        ck.require(cands, f'query encoder: wildcard constant for {f} not found')
        for s in cands:
            ck.decide(s.value == want, R, f'{f}:wildcard', hex(s.value),
                      f'query encoder ORs {s.value:#x} when {f} is unspecified; the bits of {f} over its domain {dom[f][0]}..{dom[f][-1]} are {want:#x}',
                      line=s.line, **qloc)
    # ring sizes: any rings = all 64 bits; not in ring = top bit
    ring_any = [s for s in qconst if s.var == 'v4' and ('a.ring_sizes', False) in s.path]
    notring_q = [s for s in qconst if s.var == 'v4' and ('a.ring_sizes', True) in s.path and s.value]
    notring_m = [s for s in a['m_sites'] if s.kind == 'const' and s.var == 'v4' and s.value]
    ck.require(ring_any and notring_q and notring_m, 'ring-size constants of the encoders not recognised')
    ring_bits = field_mask('ring_sizes')
    nr = {s.value for s in notring_m}
    ck.decide(len(nr) == 1 and len(bits_of(next(iter(nr)))) == 1 and not next(iter(nr)) & ring_bits, R, 'not-in-ring:molecule', [hex(x) for x in nr],
              f'molecule encoder marks "not in ring" with {[hex(x) for x in nr]}; one bit outside the ring-size bits expected', **mloc)
    for s in notring_q:
        ck.decide({s.value} == nr, R, f'not-in-ring:query@{s.line}', hex(s.value),
                  f'query encoder marks "not in ring" with {s.value:#x}, molecule encoder with {[hex(x) for x in nr]}', line=s.line, **qloc)
    for s in ring_any:
        ck.decide(s.value == ring_bits | next(iter(nr)), R, 'ring-any', hex(s.value),
                  f'"any ring state" mask {s.value:#x} != ring-size bits | not-in-ring bit = {ring_bits | next(iter(nr)):#x}', line=s.line, **qloc)
    # isotope wildcard combined with radical flag
    iso_test = [t for s in qsh if s.field == 'isotope' for t, p in s.path if p and 'isotope' in t]
    ck.require(iso_test, 'query encoder: isotope branch test not found')
    iso_any = iso_region | unspec
    for s in qconst:
        if s.var == 'v3' and (iso_test[0], False) in s.path:
            want = iso_any | (rad_t if ('a.is_radical', True) in s.path else rad_f)
            ck.decide(s.value == want, R, f'isotope-any@{s.line}', hex(s.value),
                      f'"any isotope" constant {s.value:#x} != isotope window | unspecified | radical flag = {want:#x}', line=s.line, **qloc)
        elif s.var == 'v3' and (iso_test[0], True) in s.path and len(bits_of(s.value)) == 1:
            want = rad_t if ('a.is_radical', True) in s.path else rad_f
            ck.decide(s.value == want, R, f'radical-flag@{s.line}', hex(s.value),
                      f'query radical flag {s.value:#x} differs from the molecule encoder flag {want:#x}', line=s.line, **qloc)
    # element wildcards
    rows = table.rows
    z_of = {r['atomic_number']: s for s, r in rows.items()}

    def element_masks(zs):
        m = {0: 0, 1: 0}
        for z in zs:
            w, b = mpos[('atomic_number', z)]
            m[w] |= 1 << b
        return m
    transfer = [s for s in a['m_sites'] if s.kind == 'const' and s.var == 'v1']
    ck.require(transfer and all(s.value == transfer[0].value for s in transfer), 'transfer-bit constant of the molecule encoder not recognised')
    tbit = transfer[0].value
    any_el = [s for s in qconst if ('isinstance(a, AnyElement)', True) in s.path and ('isinstance(a, AnyMetal)', False) in s.path]
    em = element_masks(dom['atomic_number'])
    for s in any_el:
        w = qw[s.var]
        want = em[w] | (tbit if w == mw['v1'] else 0)
        ck.decide(s.value == want, R, f'AnyElement:{s.var}', hex(s.value),
                  f'AnyElement {s.var} = {s.value:#x}; all element bits of that word (+ transfer bit) are {want:#x}', line=s.line, **qloc)
    ck.decide(len(any_el) == 2, R, 'AnyElement:two-words', len(any_el), 'AnyElement element mask is not given for exactly two words', **qloc)
    metals = [z for z in dom['atomic_number'] if not rows[z_of[z]]['is_forming_single_bonds'] and 'GroupXVIII' not in rows[z_of[z]]['bases']]
    mm = element_masks(metals)
    any_m = {s.var: s for s in qconst if ('isinstance(a, AnyMetal)', True) in s.path}
    ck.require(set(any_m) >= {'v1', 'v2', 'v3', 'v4'}, 'AnyMetal constants of the query encoder not recognised')
    hyb_mask = wild['hybridization']
    ngb_mask = wild['neighbors']
    for var, region in (('v1', em[0]), ('v2', em[1])):
        s = any_m[var]
        w = qw[var]
        got = s.value & em[w]
        want = mm[w]
        extra = [z for z in dom['atomic_number'] if mpos[('atomic_number', z)][0] == w and got >> mpos[('atomic_number', z)][1] & 1 and z not in metals]
        missing = [z for z in metals if mpos[('atomic_number', z)][0] == w and not got >> mpos[('atomic_number', z)][1] & 1]
        # the Lv/Ts/Og fold: Ts/Og cannot be told from Lv
        fold = [z for z in extra if any(len(v) > 1 and z in v for v in el.values())]
        extra_real = [z for z in extra if z not in fold]
        for z in extra_real:
            ck.bad(R, f'AnyMetal:{var}:admits:{z_of[z]}', f'AnyMetal mask admits {z_of[z]} (Z={z}) but AnyMetal.__eq__ rejects it '
                   f'(is_forming_single_bonds or noble gas): the compiled matcher and the reference matcher disagree', line=s.line, **qloc)
        for z in fold:
            ck.bad(R, f'AnyMetal:{var}:fold:{z_of[z]}', f'AnyMetal mask admits {z_of[z]} (Z={z}) through the shared Lv/Ts/Og bit while '
                   f'AnyMetal.__eq__ rejects it', line=s.line, **qloc)
        for z in missing:
            ck.bad(R, f'AnyMetal:{var}:misses:{z_of[z]}', f'AnyMetal mask rejects {z_of[z]} (Z={z}) but AnyMetal.__eq__ accepts it', line=s.line, **qloc)
        if not extra and not missing:
            ck.ok(R, f'AnyMetal:{var}:elements', hex(got))
        other = s.value & ~em[w]
        want_other = (tbit if w == mw['v1'] else 0)
        ck.decide(other & ~hyb_mask == want_other & ~hyb_mask if w != mw['v1'] else other == want_other, R, f'AnyMetal:{var}:non-element-bits', hex(other),
                  f'AnyMetal {var} carries unexpected non-element bits {other:#x}', line=s.line, **qloc)
    ck.decide(any_m['v3'].value == ALL64 & ~ngb_mask, R, 'AnyMetal:v3', hex(any_m['v3'].value),
              f'AnyMetal v3 = {any_m["v3"].value:#x}; expected every bit except the neighbors field ({ALL64 & ~ngb_mask:#x})', line=any_m['v3'].line, **qloc)
    ck.decide(any_m['v4'].value == ALL64, R, 'AnyMetal:v4', hex(any_m['v4'].value), 'AnyMetal v4 must ignore ring state', line=any_m['v4'].line, **qloc)
    ck.floor(R, 14)

    # bond code books ---------------------------------------------------------------------------------------------------
    R = 'C09.D1-bonds'
    ck.rule(R, 'bond-order and ring-flag bits are the same in the molecule bond encoder, the query bond mask and the query '
               'closure mask; "ring unspecified" = in-ring | not-in-ring')
    def order_book(sites, var_name):
        book = {}
        for s in sites:
            if s.kind != 'const':
                continue
            for t, p in s.path:
                m = re.fullmatch(rf'{var_name} == (\d)', t)
                if m and p:
                    book[int(m.group(1))] = s.value
            eqs = [(t, p) for t, p in s.path if re.fullmatch(rf'{var_name} == \d', t)]
            if eqs and all(not p for _, p in eqs) and len(eqs) >= 4:
                book['else'] = s.value
        return book
    mb = order_book(a['mb_sites'], 'b')
    qb = order_book([s for s in a['q_sites'] if s.var == 'v1'], 'o')
    qc = order_book(a['qc_sites'], 'o')
    ck.require(len(mb) == 5 and len(qb) == 5 and len(qc) == 5, f'bond order ladders not recognised: {mb} {qb} {qc}')
    for k in sorted(mb, key=str):
        ck.decide(mb[k] == qb.get(k) == qc.get(k), R, f'order:{k}', hex(mb[k]),
                  f'order {k}: molecule {mb[k]:#x}, query {qb.get(k, 0):#x}, closure {qc.get(k, 0):#x}', **qloc)
    ck.decide(set(mb) == {1, 2, 3, 4, 'else'} and len(set(mb.values())) == 5 and all(len(bits_of(v)) == 1 for v in mb.values()), R, 'order:one-hot', None,
              f'bond order bits are not five distinct single bits: {mb}', **mloc)

    def ring_book(sites, name):
        book = {}
        for s in sites:
            if s.kind != 'const':
                continue
            for t, p in s.path:
                if t == f'{name}.in_ring is None' and p:
                    book[None] = s.value
                elif t == f'{name}.in_ring' and (f'{name}.in_ring is None', True) not in s.path:
                    book[p] = s.value
        return book
    mr = ring_book(a['mb_sites'], 'b')
    qr = ring_book([s for s in a['q_sites'] if s.var == 'v1'], 'b')
    cr = ring_book(a['qc_sites'], 'b')
    ck.require(set(mr) == {True, False} and set(qr) == {True, False, None} and set(cr) == {True, False, None}, f'ring flag ladders not recognised: {mr} {qr} {cr}')
    for k in (True, False):
        ck.decide(mr[k] == qr[k] == cr[k], R, f'ring:{k}', hex(mr[k]), f'in_ring={k}: molecule {mr[k]:#x}, query {qr[k]:#x}, closure {cr[k]:#x}', **qloc)
    ck.decide(qr[None] == cr[None] == mr[True] | mr[False], R, 'ring:None', hex(qr[None]), f'ring-unspecified mask {qr[None]:#x}/{cr[None]:#x} != {mr[True] | mr[False]:#x}', **qloc)
    clos_atom = [s for s in a['qc_sites'] if s.kind == 'const' and s.assign]
    ck.decide(len(clos_atom) == 1 and clos_atom[0].value == em[0] | tbit, R, 'closure:atom-wildcard', hex(clos_atom[0].value) if clos_atom else None,
              f'closure mask must admit every atom bit of word 1 ({em[0] | tbit:#x})', **qloc)

    # (iv) struct layout ---------------------------------------------------------------------------------------------------
    R = 'C09.D1-iv-structs'
    ck.rule(R, 'Struct format strings, zip(...) argument order and the packed structs of _isomorphism.pyx correspond field by field')
    structs, pyx = pyx_structs(repo)
    fmt = a['structs']
    for sname, zips, cstruct in (('m_atom_struct', a['m_zip'], 'atom_t'), ('q_atom_struct', a['q_zip'], 'q_atom_t'),
                                 ('bond_struct', a['m_zip'], 'bond_t'), ('bond_struct', a['q_zip'], 'bond_t')):
        calls = [z for z in zips if z[0] == sname]
        ck.require(len(calls) == 1, f'{sname}: expected one zip/pack call per encoder, found {len(calls)}')
        _, names, line = calls[0]
        cf = structs.get(cstruct)
        ck.require(cf is not None, f'packed struct {cstruct} not found in {PYX}')
        f_ = fmt[sname]
        ck.decide(len(f_) == len(names) == len(cf), R, f'{sname}/{cstruct}:arity@{line}', len(names),
                  f'{sname} "{f_}" packs {len(names)} values into a struct of {len(cf)} fields', file=mol.file, line=line)
        for i, (ch, nm, (ctype, cname)) in enumerate(zip(f_, names, cf)):
            ck.decide(CTYPE.get(ch) == ctype, R, f'{sname}/{cstruct}:{i}:type@{line}', ctype,
                      f'field {i}: format char {ch!r} vs C type {ctype!r} of {cstruct}.{cname}', file=PYX)
            ck.decide(ROLE.get(nm) == cname, R, f'{sname}/{cstruct}:{i}:role@{line}', nm,
                      f'position {i} of {sname}.pack receives `{nm}` but {cstruct} reads it as `{cname}`', file=mol.file, line=line)
    # comparison mode per word in the .pyx
    modes = {}
    for m in re.finditer(r'q_atom\.mask(\d) & (\w+)\.(bits\d|bond)( == \2\.\3)?', pyx):
        modes.setdefault(int(m.group(1)), set()).add(('subset' if m.group(4) else 'any', m.group(3)))
    want_modes = {1: {('any', 'bits1'), ('subset', 'bond')}, 2: {('subset', 'bits2')}, 3: {('subset', 'bits3')}, 4: {('any', 'bits4')}}
    for w in (1, 2, 3, 4):
        ck.decide(modes.get(w) == want_modes[w], R, f'pyx:mode:word{w}', sorted(modes.get(w, ())),
                  f'.pyx compares word {w} as {sorted(modes.get(w, ()))}; the encoders need {sorted(want_modes[w])} '
                  f'(one-hot exact attributes under subset, ring sizes / first-atom element under overlap)', file=PYX)
    ck.floor(R, 40)

    # (v) attribute sets ---------------------------------------------------------------------------------------------------
    R = 'C09.D2-attributes'
    ck.rule(R, 'the attributes consulted by the encoders are exactly the attributes consulted by the __eq__ ladders of the '
               'query atom classes (nothing matched by one path and ignored by the other)')
    enc_fields = {s.field for s in msh} | {'is_radical'}
    q = repo.module('chython.periodictable.base.query')
    for cname, drop in (('QueryElement', set()), ('ListElement', {'isotope'}), ('AnyElement', {'isotope', 'atomic_number'}),
                        ('AnyMetal', {'isotope', 'charge', 'is_radical', 'implicit_hydrogens', 'heteroatoms', 'ring_sizes'})):
        f = q.classes[cname].method('__eq__')
        ck.require(f is not None, f'{cname}.__eq__ vanished')
        used = attrs_read_of(f.node, 'other', q.tree)  # incl. reads inside extracted same-module helpers that receive `other`
        used.discard('is_forming_single_bonds')
        want = enc_fields - drop
        if cname == 'AnyMetal':
            want = want - {'atomic_number'}
        ck.decide(used == want, R, f'{cname}.__eq__', sorted(used),
                  f'{cname}.__eq__ consults {sorted(used)}; the mask encoder for this class encodes {sorted(want)}', file=f.file, line=f.lineno, func=f.qualname)
    qfields = {s.field for s in qsh} | {'is_radical'}
    ck.decide(qfields == enc_fields, R, 'encoders-same-fields', sorted(qfields), f'query encoder fields {sorted(qfields)} != molecule encoder fields {sorted(enc_fields)}', **qloc)
    coerced = [s for s in msh if s.coerced]
    for s in coerced:
        ck.note(f'cross-reference (not armed): molecule encoder coerces {s.field}=None to 0 (line {s.line}) while __eq__ compares the raw None')

    # D3 path selection -------------------------------------------------------------------------------------------------------
    R = 'C09.D3-path-selection'
    ck.rule(R, '_cython=False and the ImportError fallback both hand components=None, get_mapping=None to the shared driver; '
               'the compiled path hands the compiled query and a wrapper around the compiled structure')
    gm = repo.func(f'{ISO}:QueryIsomorphism.get_mapping')
    # both fallbacks (ImportError, _cython=False) reach the driver with components = get_mapping = None: either one dominating reset before
    # `if _cython:` or a reset in the else branch and in the ImportError handler; the only non-None bindings sit inside the guarded import
    parents_ = {}
    for p_ in ast.walk(gm.node):
        for ch in ast.iter_child_nodes(p_):
            parents_[ch] = p_

    def chain(n):
        out = []
        while n in parents_:
            out.append(parents_[n])
            n = parents_[n]
        return out
    cy_ifs = [n for n in ast.walk(gm.node) if isinstance(n, ast.If) and src(n.test) in ('_cython', 'not _cython')]
    resets = {'components': [], 'get_mapping': []}
    binds = {'components': [], 'get_mapping': []}
    for n in ast.walk(gm.node):
        if isinstance(n, ast.Assign):
            for t in n.targets:
                if isinstance(t, ast.Name) and t.id in resets:
                    (resets if src(n.value) == 'None' else binds)[t.id].append(n)
        elif isinstance(n, ast.FunctionDef) and n.name in binds and n is not gm.node:
            binds[n.name].append(n)
    ok_fb = len(cy_ifs) == 1
    if ok_fb:
        ci = cy_ifs[0]
        # the branch taken when the compiled matcher is requested / not requested, whichever way round the test is written
        cy_body, fb_body = (ci.body, ci.orelse) if src(ci.test) == '_cython' else (ci.orelse, ci.body)
        top = strip_doc_(gm.node.body)
        for name in resets:
            dominating = any(r in top and top.index(r) < top.index(ci) for r in resets[name] if ci in top)
            in_else = any(any(r is x or r in list(ast.walk(x)) for x in fb_body) for r in resets[name])
            in_handler = any(any(isinstance(c, ast.ExceptHandler) and c.type is not None and 'ImportError' in src(c.type) for c in chain(r)) for r in resets[name])
            guarded = all(any(b is y for x in cy_body for y in ast.walk(x)) and any(isinstance(c, ast.Try) for c in chain(b)) for b in binds[name]) and bool(binds[name])
            ok_fb = ok_fb and guarded and (dominating or (in_else and in_handler))
    ck.decide(ok_fb, R, 'fallbacks', {k: len(v) for k, v in resets.items()},
              'the two fallbacks (ImportError, _cython=False) no longer both reach the shared driver with components = get_mapping = None', file=gm.file, line=gm.lineno)
    tr = [n for n in ast.walk(gm.node) if isinstance(n, ast.Try)]
    ck.decide(len(tr) == 1 and any(src(h.type) == 'ImportError' for h in tr[0].handlers), R, 'import-guard', None, 'the compiled import is no longer guarded by except ImportError', file=gm.file)
    call = [n for n in ast.walk(gm.node) if isinstance(n, ast.Call) and src(n.func) == 'self._get_mapping']
    kws = {k.arg: src(k.value) for k in call[0].keywords} if call else {}
    ck.decide(kws.get('components') == 'components' and kws.get('get_mapping') == 'get_mapping' and kws.get('automorphism_filter') == 'automorphism_filter'
              and kws.get('searching_scope') == 'searching_scope', R, 'driver-call', kws, f'shared driver is called with {kws}', file=gm.file)
    inner = [n for n in ast.walk(gm.node) if isinstance(n, ast.Call) and src(n.func) == '_cython_get_mapping']
    ck.decide(len(inner) == 1 and [src(x) for x in inner[0].args[:2]] == ['query', 'other._cython_compiled_structure'], R, 'compiled-call',
              [src(x) for x in inner[0].args] if inner else None, 'compiled matcher no longer receives (query buffer, molecule buffer, scope)', file=gm.file)
    # the per-call restriction (`scope` = atoms of the molecule component under search) reaches the compiled matcher
    adapters = [n for n in ast.walk(gm.node) if isinstance(n, (ast.FunctionDef, ast.Lambda)) and n is not gm.node and
                any(isinstance(c, ast.Call) and src(c.func) == '_cython_get_mapping' for c in ast.walk(n))]
    if len(adapters) == 1 and inner and len(inner[0].args) >= 3:
        ad = adapters[0]
        params = [a.arg for a in ad.args.args]
        local = {}
        for n in ast.walk(ad):
            if isinstance(n, ast.Assign) and len(n.targets) == 1 and isinstance(n.targets[0], ast.Name):
                local.setdefault(n.targets[0].id, []).append(n.value)
        deps, todo = set(), [inner[0].args[2]]
        while todo:
            e = todo.pop()
            for n in ast.walk(e):
                if isinstance(n, ast.Name) and n.id not in deps:
                    deps.add(n.id)
                    todo.extend(local.get(n.id, ()))
        ck.decide(len(params) == 2 and params[1] in deps and params[0] in {x.id for x in ast.walk(inner[0].args[0]) if isinstance(x, ast.Name)},
                  R, 'compiled-scope', f'scope argument depends on adapter parameter `{params[1] if len(params) > 1 else None}`',
                  f'the compiled adapter {params} builds its scope array from {sorted(deps)}: the per-call `scope` (molecule component being searched) '
                  f'no longer restricts the compiled matcher, while the reference matcher tests `n in scope`', file=gm.file, line=ad.lineno,
                  func='QueryIsomorphism.get_mapping', construct=src(inner[0])[:160])
    else:
        ck.bad(R, 'compiled-scope', 'adapter around the compiled matcher not found in the expected (query, scope) -> _cython_get_mapping(query, structure, scope-array) form', file=gm.file)
    # ... and the reference matcher tests the same restriction at both admission sites
    ref = repo.func(f'{ISO}:_get_mapping')
    from .astutil import reach_conditions, enclosing_map
    pm = enclosing_map(ref.node)
    sites_ = [n for n in ast.walk(ref.node) if isinstance(n, ast.Call) and src(n.func) == 'stack.append']
    tests = [s_ for s_ in sites_ if any(isinstance(c, ast.Compare) and len(c.ops) == 1 and isinstance(c.ops[0], ast.In) and src(c.comparators[0]) == 'scope'
                                        for c in reach_conditions(s_, ref.node, pm))]
    ck.decide(len(sites_) == 2 and len(tests) == 2, R, 'reference-scope', len(tests), f'reference matcher tests `in scope` at {len(tests)} admission sites (2 expected: seeds and extensions)', file=ref.file, line=ref.lineno)
    # the driver hands every back-end the component-restricted candidate set
    drv0 = repo.func(f'{ISO}:Isomorphism._get_mapping')
    gcalls = [n for n in ast.walk(drv0.node) if isinstance(n, ast.Call) and src(n.func) == 'get_mapping']
    ck.decide(len(gcalls) >= 2 and all(any(k.arg == 'scope' and src(k.value) == 'candidate' for k in c.keywords) or (len(c.args) > 1 and src(c.args[1]) == 'candidate') for c in gcalls),
              R, 'driver-scope', len(gcalls), 'the shared driver no longer passes scope=candidate to every matcher call', file=drv0.file, line=drv0.lineno)
    drv = repo.func(f'{ISO}:Isomorphism._get_mapping')
    d = src(drv.node)
    ck.decide('if components is None' in d and 'partial(_get_mapping, query_closures=closures, o_atoms=other._atoms, o_bonds=other._bonds)' in d,
              R, 'reference-default', None, 'driver no longer falls back to the reference matcher when components is None', file=drv.file, line=drv.lineno)
