# -*- coding: utf-8 -*-
"""
Rule B3 (mutator protocol) over every public method of a container MRO, with the frozen exemption table.
"""
import ast
from .core import AnalysisError
from .effects import Protocol

MOL = 'chython.containers.molecule:MoleculeContainer'

# primitives of the protocol itself and the transaction hooks (the latter are decided by rule B4)
NOT_ENTRIES = {'__init__', '__enter__', '__exit__', 'calc_implicit', 'calc_labels', 'flush_cache', 'flush_stereo_cache'}

DIM_TEXT = {
    'FLUSH': 'cached values that read it are not flushed before the method returns',
    'KEEP': 'the flush keeps cached values (keep_sssr / keep_components) that read what was written',
    'LABELS': 'atom/bond labels (neighbors, hybridization, ring marks) are not recalculated (calc_labels / fix_structure)',
    'HYDRO': 'implicit hydrogen counts are not recalculated (calc_implicit / fix_structure / explicit count)',
    'STEREO': 'stereo labels are not re-validated (fix_stereo)',
}

# (origin function qualname | None, entry qualname | None, dims, cats | None, construct substring | None, reason)
EXEMPT = [
    ('Graph.add_atom', None, {'STEREO'}, None, None,
     'a new isolated atom cannot create or destroy a stereocentre'),
    ('Graph.remap', None, {'LABELS', 'HYDRO', 'STEREO'}, None, None,
     'renumbering keeps every atom and bond object and its environment; only keys change (caches are flushed)'),
    ('Graph.union', None, {'LABELS', 'HYDRO', 'STEREO'}, None, None,
     'disjoint union of two label-complete graphs: every atom keeps its environment (in-place form flushes)'),
    ('MoleculeStereo.fix_stereo', None, {'FLUSH'}, {'STEREO'}, None,
     'fix_stereo invalidates with flush_stereo_cache only; its precondition "structure caches were flushed by '
     'whoever changed the structure" is exactly what this rule enforces on its callers'),
    ('Salts.remove_metals', None, {'LABELS', 'HYDRO', 'STEREO'}, None, None,
     'removes whole (isolated, bond-free) components only; the remaining atoms keep their environment'),
    ('Salts.remove_acids', None, {'LABELS', 'HYDRO', 'STEREO'}, None, None,
     'removes whole connected components only; the remaining atoms keep their environment'),
    ('MoleculeContainer.delete_bond', 'Standardize.remove_coordinate_bonds', {'KEEP', 'HYDRO'}, None, None,
     'deletes only bonds selected by b == 8: not_special_connectivity excludes them and calc_implicit ignores them'),
    ('Standardize.standardize_charges', None, {'HYDRO'}, {'CHARGE'}, None,
     'charge relocation inside aromatic rings keeps the Kekule hydrogen counts by design (calc_implicit yields None '
     'for charged aromatic atoms)'),
    ('Standardize.standardize_charges', None, {'FLUSH', 'STEREO'}, {'CHARGE'}, 'atoms[atom_1]._charge',
     'charge removed from atom_1 before the morgan comparison is restored (= 1) when the pair is not recorded in '
     '`changed`: net no-op on that path'),
    ('Resonance.fix_resonance', None, {'FLUSH', 'HYDRO', 'STEREO'}, {'CHARGE'}, None,
     'ROLLBACK:chython.algorithms.standardize.resonance:Resonance.fix_resonance|every tentative charge change is net zero on each path that leaves the '
     'iteration without recording atoms in the witness set hs (decided by the tentative-rollback rule on every run); on success hs is updated and the '
     'witness-guarded recalculation + flush run'),
    ('Kekule.kekule', None, {'STEREO'}, None, None, 'documented: kekule keeps stereo as is (bond order localisation inside aromatic rings)'),
    ('Kekule.__fix_rings', None, {'STEREO'}, None, None, 'ring repair runs inside kekule/enumerate_kekule which keep stereo as is'),
    ('Kekule.__fix_rings', None, {'HYDRO'}, None, None,
     'atoms patched by the ring-repair rules are aromatic ring atoms; every one of them belongs to the Kekule form '
     'whose atoms get calc_implicit (kekule) / are recalculated on the copy (enumerate_kekule)'),
    ('Kekule.__prepare_rings', None, {'FLUSH', 'KEEP', 'LABELS', 'HYDRO', 'STEREO'}, {'ORDER', 'IS8'}, None,
     'demotes an invalid aromatic bond *between* rings to single; happens only on the way to a Kekule form which '
     'rewrites and flushes the same molecule'),
    (None, 'Standardize.canonicalize', {'STEREO'}, None, None,
     'canonicalize runs fix_stereo through thiele() or explicitly when fix_tautomers is set; for fix_tautomers=False '
     'on a ring-free molecule the author relies on non-tautomer rules not touching stereogenic bonds (stated belief, '
     'trusted; listed in evidence)'),
    ('Graph.add_bond', 'MoleculeContainer.add_bond', {'HYDRO'}, None, None,
     'the early return of add_bond is taken only for the coordinate order 8, which calc_implicit ignores; on the '
     'normal path fix_structure discharges LABELS and HYDRO together'),
    ('Thiele.thiele', None, {'STEREO'}, {'HCOUNT'}, '_implicit_hydrogens =',
     'the ring tautomer fix moves a hydrogen between sp2 ring nitrogens; on the exits where no aromatic ring is found '
     'afterwards canonicalize() runs fix_stereo itself (`if not t and fix_tautomers`)'),
    ('Thiele.thiele', None, {'STEREO'}, {'ORDER'}, '_order = o',
     'bond shifts of the ring tautomer fix (see previous row); the aromatising writes below it stay armed'),
    ('Standardize.implicify_hydrogens', None, {'KEEP'}, None, None,
     'POP:not_special_connectivity|removes only terminal hydrogens: the ring set, ring counts and ring membership are unchanged; the one '
     'kept value that lists every atom (not_special_connectivity) is popped explicitly'),
    ('Standardize.explicify_hydrogens', None, {'KEEP'}, None, None,
     'POP:not_special_connectivity|adds only terminal hydrogens: the ring set is unchanged; not_special_connectivity is popped explicitly'),
    ('Salts.remove_metals', None, {'KEEP'}, None, None,
     'POP:not_special_connectivity|removes only isolated atoms: the ring set is unchanged; not_special_connectivity is popped explicitly'),
    ('Thiele.thiele', None, {'HYDRO'}, {'ORDER'}, '_order = 1',
     'GUARD:seen.issuperset(ring)|four-membered all-sp2 rings are reset to single bonds only when every atom of the ring belongs to the aromatic system being '
     'written (biphenylene-like cores); there the ring bonds were part of the alternation and the hydrogen counts of the Kekule form stay valid. Outside '
     'that guard the write removes real double bonds (squarates, cyclobutadienes) and the counts become wrong'),
    ('Thiele.thiele', None, {'HYDRO'}, {'ORDER'}, None,
     'aromatisation keeps the Kekule hydrogen counts by design; the tautomer fix sets both counts explicitly'),
    ('Standardize.canonicalize', None, {'HYDRO'}, {'ORDER'}, None,
     'ELSE-OF:standardize_charges|restoring the saved Kekule orders keeps the hydrogen counts computed for that Kekule form -- valid only while no ring charge was moved in '
     'between: the restoring writes sit in the else-branch of a test that is true whenever standardize_charges() reported a change (otherwise kekule() recomputes)'),
]
# ORDER writes whose new value is a Kekule/aromatic order by construction (never the coordinate order 8)
IS8_FREE = {
    'Kekule.kekule': 'orders come from _kekule_component: 1 or 2',
    'Kekule.enumerate_kekule': 'orders come from _kekule_component: 1 or 2',
    'Resonance.fix_resonance': 'orders are order +- 1 along a delocalisation path',
    'Thiele.thiele': 'orders are 1, 2 or 4 on ring bonds',
    'KetoEnol._enumerate_keto_enol_tautomers': 'orders are 1 or 2 along the enol path',
    'Standardize.canonicalize': 'restores previously saved Kekule orders',
}


def pops_key(repo, fq, key):
    """the function body contains self.__dict__.pop('<key>', ...) or del self.__dict__['<key>']"""
    f = repo.func(fq)
    for n in ast.walk(f.node):
        if isinstance(n, ast.Call) and isinstance(n.func, ast.Attribute) and n.func.attr == 'pop' and \
                ast.unparse(n.func.value) == 'self.__dict__' and n.args and isinstance(n.args[0], ast.Constant) and n.args[0].value == key:
            return True
        if isinstance(n, ast.Delete) and any(ast.unparse(t) == f"self.__dict__['{key}']" for t in n.targets):
            return True
    return False


def _inside_guard(repo, origin, guard_src):
    """the statement at origin lies in the body of an `if` whose test is equivalent (normalised DNF) to guard_src"""
    from .r_query import dnf, simplify
    f = repo.func(origin[0])
    if f is None:
        return False
    want = simplify(dnf(ast.parse(guard_src, mode='eval').body))
    parents = {}
    for p_ in ast.walk(f.node):
        for ch in ast.iter_child_nodes(p_):
            parents[ch] = p_
    for st in ast.walk(f.node):
        if isinstance(st, ast.stmt) and getattr(st, 'lineno', None) == origin[1] and ' '.join(ast.unparse(st).split())[:120] == origin[2]:
            child, p_ = st, parents.get(st)
            while p_ is not None and p_ is not f.node:
                if isinstance(p_, ast.If) and any(child is x for x in p_.body) and want <= simplify(dnf(p_.test)) and len(simplify(dnf(p_.test))) == len(want):
                    return True
                child, p_ = p_, parents.get(p_)
    return False


def _else_of_witness(repo, origin, callname):
    """the statement at origin (fq, line, text) lies in the else-branch of an `if` whose test is true whenever the variable bound to self.<callname>(...) is truthy"""
    from .r_query import dnf, simplify
    f = repo.func(origin[0])
    if f is None:
        return False
    wit = {a.targets[0].id for a in ast.walk(f.node) if isinstance(a, ast.Assign) and len(a.targets) == 1 and isinstance(a.targets[0], ast.Name) and
           isinstance(a.value, ast.Call) and isinstance(a.value.func, ast.Attribute) and a.value.func.attr == callname}
    if not wit:
        return False
    parents = {}
    for p_ in ast.walk(f.node):
        for ch in ast.iter_child_nodes(p_):
            parents[ch] = p_
    for st in ast.walk(f.node):
        if isinstance(st, ast.stmt) and getattr(st, 'lineno', None) == origin[1] and ' '.join(ast.unparse(st).split())[:120] == origin[2]:
            child, p_ = st, parents.get(st)
            while p_ is not None and p_ is not f.node:
                if isinstance(p_, ast.If) and any(child is x for x in p_.orelse):
                    cl = simplify(dnf(p_.test))
                    if any(c == frozenset([(('truthy', w), True)]) for c in cl for w in wit):
                        return True
                child, p_ = p_, parents.get(p_)
    return False


_RB = {}


def _rollback_cached(repo, fq, fn):
    k = (id(repo), fq)
    if k not in _RB:
        _RB[k] = fn(repo, fq)
    return _RB[k]


def exempt(entry_q, o, repo=None, keep_flags=None):
    dim, cat, owner, origin, tag = o
    of = origin[0].split(':')[1]
    if cat == 'IS8' and of in IS8_FREE:
        return IS8_FREE[of]
    for eo, ee, dims, cats, sub, reason in EXEMPT:
        if eo is not None and eo != of:
            continue
        if ee is not None and ee != entry_q:
            continue
        if dim not in dims:
            continue
        if cats is not None and cat not in cats:
            continue
        if sub is not None and sub not in origin[2]:
            continue
        if reason.startswith('GUARD:'):
            g_, _, reason = reason[6:].partition('|')
            if repo is None or not _inside_guard(repo, origin, g_):
                return None  # this row names the only circumstances under which the write is harmless: no other row may exempt it
        if reason.startswith('ELSE-OF:'):
            call_, _, reason = reason[8:].partition('|')
            if repo is None or not _else_of_witness(repo, origin, call_):
                continue  # the exemption holds only while the write is excluded whenever that call reported a change
        if reason.startswith('ROLLBACK:'):
            fq_, _, reason = reason[9:].partition('|')
            from .r_rings import rollback_holds
            if repo is None or not _rollback_cached(repo, fq_, rollback_holds):
                continue  # the exemption holds only while the rollback discipline is intact
        if reason.startswith('POP:'):
            key, _, reason = reason[4:].partition('|')
            if repo is None or not pops_key(repo, origin[0], key):
                continue  # the exemption holds only while the explicit pop is there
            if keep_flags is not None and not keep_flags <= {'keep_sssr'}:
                continue  # the argument "rings unchanged" covers the ring caches only; components list every atom
        return reason or 'see DESIGN.md 3.B'
    return None


def entries_of(repo, cls):
    names = []
    seen = set()
    for c in repo.mro(cls):
        for n in c.methods:
            if n in seen:
                continue
            seen.add(n)
            if n in NOT_ENTRIES:
                continue
            if n.startswith('_') and not (n.startswith('__') and n.endswith('__')):
                continue
            f = repo.lookup(cls, n)
            if f is not None:
                names.append(f)
    return names


def run_protocol(ck, repo, rule='B3', only_entries=None, only_dims=None, container=MOL):
    """
    evaluate the protocol for every public method; one obligation per (entry, dim) that has writes,
    one finding per (entry, dim, write construct) left pending at a normal exit
    """
    ck.rule(rule, 'every method of the container MRO that writes raw molecule state must, on every normal exit, have '
                  '(FLUSH) flushed the cache without keeping cached values that read what was written, (LABELS) '
                  'recalculated labels after atom/bond/order writes, (HYDRO) recalculated hydrogens after '
                  'atom/bond/order/charge/radical writes, (STEREO) re-validated stereo; path-sensitive walk with '
                  'callee inlining, witness collections and protocol flags; exemptions are a frozen table')
    P = Protocol(repo, container)
    P.is8_free = dict(IS8_FREE)
    P.keep_exempt = lambda entry_q, o: exempt(entry_q, o, repo, getattr(P, 'active_keep_flags', None))
    P.track_stale_reads = True
    cls = P.container
    per_entry = {}
    own = {}
    dirty = {}
    ents = entries_of(repo, cls)
    for f in ents:
        exits = P.analyse_entry(f, cls)
        pend = {}
        for kind, line, c, rv in exits:
            if c is None:
                continue
            for o in c[0]:
                if o[2] != 'SELF':
                    continue
                pend.setdefault((o[0], o[1], o[3]), (o, set()))[1].add((kind, line))
            for x in c[1]:
                if x[0] == 'DIRTY' and kind in ('return', 'end'):
                    dirty.setdefault((f.fq, x[1][0], x[1][1]), set()).add((kind, line))
        per_entry[f] = pend
    # which origins are already reported by their own function acting as an entry
    own_reports = {}
    for f, pend in per_entry.items():
        for (dim, cat, origin), (o, ex) in pend.items():
            if origin[0] == f.fq:
                own_reports.setdefault((dim, cat, origin), f)
    n_ob = 0
    reported = []
    for f in ents:
        if only_entries is not None and f.qualname not in only_entries:
            continue
        pend = per_entry[f]
        wrote = {(fq, ln, cat) for fq, ln, cat in P.write_sites}
        dims_failed = {}
        for (dim, cat, origin), (o, ex) in sorted(pend.items(), key=lambda x: (x[0][0], x[0][2][1], x[0][1])):
            if only_dims is not None and dim not in only_dims:
                continue
            if (dim, cat, origin) in own_reports and own_reports[(dim, cat, origin)] is not f:
                continue  # inherited from an inner public method, reported there
            why = exempt(f.qualname, o, repo, getattr(P, 'keep_flags_of', {}).get((dim, cat, origin)) if dim == 'KEEP' else None)
            if why is not None:
                ck.ok(rule + '-exempt', f'{f.qualname}|{dim}:{cat}|{origin[0].split(":")[1]}|{origin[2]}', why, nontrivial=False)
                continue
            dims_failed.setdefault((dim, origin), []).append((cat, ex))
        for (dim, origin), lst in dims_failed.items():
            cats = sorted({c for c, _ in lst})
            ex = sorted({e for _, es in lst for e in es})
            of = origin[0].split(':')[1]
            key = f'{f.qualname}|{dim}|{of}|{origin[2]}'
            ck.bad(rule, key,
                   f'{f.qualname}: write of {"/".join(cats)} at {of} `{origin[2]}` (line {origin[1]}): '
                   f'{DIM_TEXT[dim]}; offending exits: {", ".join(f"{k}@{l}" for k, l in ex[:4])}',
                   file=repo.func(origin[0]).file if ':' in origin[0] else None, line=origin[1], func=f.qualname,
                   construct=origin[2], extra={'entry': f.fq, 'dim': dim, 'cats': cats, 'exits': ex[:8]})
            reported.append(key)
    # obligations that held: one per (entry that can reach a write, dim)
    for f in ents:
        if only_entries is not None and f.qualname not in only_entries:
            continue
        if not P.entry_writes.get(f.fq):
            continue  # the method reaches no raw write: nothing to decide
        pend = per_entry[f]
        for dim in ('FLUSH', 'LABELS', 'HYDRO', 'STEREO'):
            if only_dims is not None and dim not in only_dims:
                continue
            bad = any(k.startswith(f'{f.qualname}|{dim}|') or (dim == 'FLUSH' and k.startswith(f'{f.qualname}|KEEP|')) for k in reported)
            if not bad:
                ws = sorted(P.entry_writes[f.fq])
                ck.ok(rule, f'{f.qualname}|{dim}', f'{len(ws)} reachable raw writes (e.g. {ws[0][0].split(":")[1]}:{ws[0][1]} {ws[0][2]}); '
                                                  f'none leaves {dim} pending at a normal exit')
    for (entry, dim, cat, origin), why in sorted(P.exempted.items(), key=str):
        eq = entry.split(':')[1]
        if only_entries is not None and eq not in only_entries:
            continue
        if only_dims is not None and dim not in only_dims:
            continue
        ck.ok(rule + '-exempt', f'{eq}|{dim}:{cat}|{origin[0].split(":")[1]}|{origin[2]}', why, nontrivial=False)
    ck.count('B3 entry points', len(ents))
    ck.count('B3 functions walked', len(P.visited_funcs))
    ck.count('B3 raw write sites', len(P.write_sites))
    ck.count('B3 call sites resolved', P.call_sites)
    for u in sorted(P.unresolved):
        ck.note('B3 unresolved: ' + u)
    # fresh-object escapes
    fresh = {}
    for entry_fq, func_fq, kind, line, o in P.reports:
        fresh.setdefault((func_fq, o[0], o[3]), set()).add((kind, line))
    for (func_fq, dim, origin), ex in sorted(fresh.items(), key=lambda x: (x[0][0], x[0][1], x[0][2][1])):
        if only_dims is not None and dim not in only_dims:
            continue
        fq = func_fq.split(':')[1]
        if only_entries is not None and fq not in only_entries:
            continue
        o = (dim, 'ORDER', 'F', origin, None)
        why = exempt(fq, o, repo)
        key = f'{fq}|fresh|{dim}|{origin[2]}'
        if why:
            ck.ok(rule + '-exempt', key, why, nontrivial=False)
            continue
        ck.bad(rule, key, f'{fq}: a fresh molecule escapes ({", ".join(f"{k}@{l}" for k, l in sorted(ex)[:3])}) after `{origin[2]}` '
                          f'(line {origin[1]}) although {DIM_TEXT[dim]}',
               file=repo.func(func_fq).file, line=origin[1], func=fq, construct=origin[2])
    # stale reads: a cached value of the receiver consulted while a raw write it depends on is still unflushed and the key was not dropped since
    if only_dims is None or 'FLUSH' in only_dims:
        seen_sr = set()
        for entry_fq, func_fq, attr, line, cats, origin in P.stale_reads:
            eq = entry_fq.split(':')[1]
            fq = func_fq.split(':')[1]
            if only_entries is not None and eq not in only_entries:
                continue
            k = (fq, attr)
            if k in seen_sr:
                continue
            seen_sr.add(k)
            ck.bad(rule, f'{fq}|stale-read|{attr}', f'{fq} reads the cached `self.{attr}` (line {line}) after the raw write `{origin[2]}` (line {origin[1]}, {"/".join(cats)}) '
                                                    f'without a flush or an explicit drop of that key in between: if the value was cached before the write (e.g. str(mol) was taken '
                                                    f'earlier) the method decides on stale data, otherwise on fresh data -- cached and uncached calls differ',
                   file=repo.func(func_fq).file, line=line, func=fq, construct=f'self.{attr}')
        seen_d = set()
        for (entry_fq, key, origin), ex in sorted(dirty.items(), key=str):
            eq = entry_fq.split(':')[1]
            if only_entries is not None and eq not in only_entries:
                continue
            if (eq, key) in seen_d:
                continue
            seen_d.add((eq, key))
            ck.bad(rule, f'{eq}|interim-cache|{key}', f'{eq} can return ({", ".join(f"{k}@{l}" for k, l in sorted(ex)[:3])}) with `{key}` still cached although it was computed before '
                                                      f'the raw write `{origin[2]}` (line {origin[1]}) and neither dropped nor flushed afterwards: later readers get a value for a state '
                                                      f'that no longer exists', file=repo.func(origin[0]).file, line=origin[1], func=eq, construct=origin[2])
        if not seen_d:
            ck.ok(rule, 'interim-cache', 'no method returns with a cached value that was computed before one of its own raw writes')
        if not seen_sr:
            ck.ok(rule, 'stale-reads', f'no cached value is read between a raw write it depends on and the next flush / drop ({len(P.cached_read_sets())} cached properties typed)')
    return P
