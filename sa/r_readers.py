# -*- coding: utf-8 -*-
"""
Engine E: reader error discipline.
 E1  explicit raises inside a reader layer belong to the family the entry point promises / the record loop catches
 E2  implicit raises (KeyError / IndexError / StopIteration) of operations on input-derived data are converted or guarded;
     every currently safe instance is frozen with its guard and re-proved on every run
 E3  no slice bound of the form -n where n is a count that can be zero
 F-fsm  the tokenizer's end-of-input handling covers every continuation-awaiting state
"""
import ast
import re
import builtins
from .core import AnalysisError
from .model import ClassInfo
from .astutil import reach_conditions, src, strip_doc, if_chain, terminates, _unify, conjuncts

DAYLIGHT = ['chython.files.daylight.tokenize', 'chython.files.daylight.parser', 'chython.files.daylight.smiles',
            'chython.files.daylight.smarts', 'chython.files._convert', 'chython.files._mapping']
MDL = ['chython.files.mdl.mol', 'chython.files.mdl.emol', 'chython.files.mdl.rxn', 'chython.files.mdl.erxn',
       'chython.files.mdl.read', 'chython.files.mdl.stereo', 'chython.files.SDFrw', 'chython.files.RDFrw',
       'chython.files.MRVrw', 'chython.files._convert', 'chython.files._mapping']


def exc_root(repo, module, node):
    """builtin exception classes an expression (Name) derives from, as a set of builtin names; None if unknown"""
    if isinstance(node, ast.Call):
        node = node.func
    if not isinstance(node, ast.Name):
        return None
    name = node.id
    r = repo.resolve(module, name)
    seen = set()
    while isinstance(r, ClassInfo):
        if r in seen:
            return None
        seen.add(r)
        bases = r.bases
        if not bases:
            return None
        b = bases[0]
        if isinstance(b, ClassInfo):
            r = b
            continue
        name = b
        break
    cls = getattr(builtins, name, None)
    if isinstance(cls, type) and issubclass(cls, BaseException):
        return cls
    return None


def parent_map(tree):
    p = {}
    for n in ast.walk(tree):
        for c in ast.iter_child_nodes(n):
            p[c] = n
    return p


def enclosing_func(parents, n):
    p = parents.get(n)
    while p is not None and not isinstance(p, (ast.FunctionDef, ast.AsyncFunctionDef)):
        p = parents.get(p)
    return p


def handlers_over(parents, n):
    """handlers of every try whose *body* contains n (innermost first)"""
    out = []
    child, p = n, parents.get(n)
    while p is not None:
        if isinstance(p, ast.Try) and child in p.body:
            out.append(p)
        child, p = p, parents.get(p)
    return out


def rule_raise_family(ck, repo, layer, R, accepted, text, exempt=None):
    ck.rule(R, text)
    exempt = exempt or {}
    n = 0
    for mn in layer:
        m = repo.module(mn)
        parents = parent_map(m.tree)
        for node in ast.walk(m.tree):
            if not isinstance(node, ast.Raise) or node.exc is None:
                continue
            f = enclosing_func(parents, node)
            fname = f.name if f else '<module>'
            cls = exc_root(repo, m, node.exc)
            what = src(node.exc.func if isinstance(node.exc, ast.Call) else node.exc)
            key = f'{mn.rsplit(".", 1)[1]}:{fname}:{" ".join(src(node).split())[:70]}'
            n += 1
            if cls is None:
                # re-raise of a caught exception object (`raise e`) keeps the caught family
                ck.ok(R, key, 're-raise', nontrivial=False)
                continue
            if issubclass(cls, accepted):
                ck.ok(R, key, cls.__name__)
                continue
            # caught inside the layer by an enclosing handler that converts?
            conv = False
            for t in handlers_over(parents, node):
                for h in t.handlers:
                    hc = exc_root(repo, m, h.type) if h.type is not None and not isinstance(h.type, ast.Tuple) else None
                    if h.type is None or hc is not None and issubclass(cls, hc):
                        conv = True
            if conv:
                ck.ok(R, key, 'caught in the layer')
                continue
            # API misuse: TypeError directly under an isinstance test of a parameter
            if cls is TypeError:
                p = parents.get(node)
                ok = False
                while p is not None and not isinstance(p, ast.FunctionDef):
                    if isinstance(p, ast.If) and 'isinstance(' in src(p.test):
                        ok = True
                    p = parents.get(p)
                if ok:
                    ck.ok(R, key, 'TypeError for a non-string/ill-typed argument: outside the input domain', nontrivial=False)
                    continue
            why = exempt.get((mn.rsplit('.', 1)[1], fname, what))
            if why:
                ck.ok(R, key, why, nontrivial=False)
                continue
            ck.bad(R, key, f'{fname} raises {what} ({cls.__name__}), which is not a {"/".join(a.__name__ for a in (accepted if isinstance(accepted, tuple) else (accepted,)))}: '
                           f'callers promised the reader error family see an unrelated exception', file=m.relpath, line=node.lineno, func=fname, construct=src(node))
    ck.count(f'{R} raise sites', n)
    return n


# -- E2 -----------------------------------------------------------------------------------------------------------------
IMPLICIT = {'index': (IndexError, KeyError), 'dict': (KeyError,), 'next': (StopIteration,), 'pop': (IndexError, KeyError)}


def risky_ops(m):
    """(kind, node, normalised source) for operations that can raise LookupError/StopIteration on malformed input"""
    out = []
    for n in ast.walk(m.tree):
        if isinstance(n, ast.Subscript) and isinstance(n.ctx, ast.Load):
            s = n.slice
            if isinstance(s, ast.Constant) and isinstance(s.value, int) or \
                    isinstance(s, ast.UnaryOp) and isinstance(s.operand, ast.Constant) and isinstance(s.operand.value, int):
                out.append(('index', n))
            elif isinstance(n.value, ast.Name) and n.value.id in m.assigns and isinstance(m.assigns[n.value.id], ast.Dict):
                out.append(('dict', n))
        elif isinstance(n, ast.Call) and isinstance(n.func, ast.Name) and n.func.id == 'next' and len(n.args) == 1:
            out.append(('next', n))
        elif isinstance(n, ast.Call) and isinstance(n.func, ast.Attribute) and n.func.attr in ('pop', 'popitem') and \
                len(n.args) <= 1 and not (n.args and isinstance(n.args[0], ast.Constant) and isinstance(n.args[0].value, str)):
            out.append(('pop', n))
    return out


def converted(repo, m, parents, node, kind, accepted):
    """an enclosing try catches what `kind` can raise and every such handler leaves by raising an accepted class"""
    need = IMPLICIT[kind]
    for t in handlers_over(parents, node):
        for h in t.handlers:
            types = h.type.elts if isinstance(h.type, ast.Tuple) else [h.type] if h.type is not None else []
            roots = [exc_root(repo, m, x) for x in types]
            if h.type is None or any(r is not None and any(issubclass(x, r) for x in need) for r in roots):
                # what does the handler do?
                raises = [x for x in ast.walk(ast.Module(body=h.body, type_ignores=[])) if isinstance(x, ast.Raise)]
                if raises and all(x.exc is not None and (c := exc_root(repo, m, x.exc)) is not None and issubclass(c, accepted) for x in raises) \
                        and terminates(h.body):
                    return f'try/except {src(h.type) if h.type else ""} -> {src(raises[0].exc)[:40]}'
                if not raises:
                    return f'try/except {src(h.type) if h.type else ""} handled locally'
    return None


def self_guarded(parents, node, func):
    """`X[k]` (constant k >= 0, X a plain name) reached only under a test that establishes len(X) > k: `if len(X) == n` (n > k), `len(X) > j` (j >= k),
    `len(X) >= j` (j > k), or for k == 0 the truthiness of X; the test is an enclosing if / conditional expression (op on its true side) or an
    earlier conjunct of the same `and`"""
    # dictionary lookup D[k] / D.pop(k) reached only where `k in D` was established by the enclosing if-chain
    dk = None
    if isinstance(node, ast.Subscript) and isinstance(node.value, ast.Name) and isinstance(node.slice, ast.Name):
        dk = (node.value.id, node.slice.id)
    elif isinstance(node, ast.Call) and isinstance(node.func, ast.Attribute) and node.func.attr == 'pop' and isinstance(node.func.value, ast.Name) and \
            len(node.args) == 1 and isinstance(node.args[0], ast.Name):
        dk = (node.func.value.id, node.args[0].id)
    if dk is not None:
        d_, k_ = dk

        def member(t, negated):
            return isinstance(t, ast.Compare) and len(t.ops) == 1 and isinstance(t.ops[0], ast.NotIn if negated else ast.In) and \
                isinstance(t.left, ast.Name) and t.left.id == k_ and isinstance(t.comparators[0], ast.Name) and t.comparators[0].id == d_
        # ... or by an earlier `if k not in D: raise / continue / return` in an enclosing block (control dependence incl. early exits)
        for c_ in reach_conditions(node, func, parents):
            if member(c_, False):
                return f'guarded by the membership test `{src(c_)}` on every path that reaches it'
        child, p = node, parents.get(node)
        while p is not None and p is not func:
            if isinstance(p, ast.If):
                in_body = any(child is s_ or child in list(ast.walk(s_)) for s_ in p.body)
                in_else = any(child is s_ or child in list(ast.walk(s_)) for s_ in p.orelse)
                if (in_body and any(member(c, False) for c in conjuncts(p.test))) or (in_else and member(p.test, True)):
                    return f'guarded by the membership test `{src(p.test)}`'
            child, p = p, parents.get(p)
        return None
    # X.pop() / X[-1] on a list reached only where X is known to be non-empty (`if not X: raise ..` before it, or inside `if X:`)
    lst = None
    if isinstance(node, ast.Call) and isinstance(node.func, ast.Attribute) and node.func.attr == 'pop' and isinstance(node.func.value, ast.Name) and not node.args:
        lst = node.func.value.id
    if lst is not None:
        for c_ in reach_conditions(node, func, parents):
            if isinstance(c_, ast.Name) and c_.id == lst:
                return f'guarded by the emptiness test on `{lst}` on every path that reaches it'
            if isinstance(c_, ast.Compare) and len(c_.ops) == 1 and src(c_.left) == f'len({lst})' and isinstance(c_.comparators[0], ast.Constant) and (
                    (isinstance(c_.ops[0], ast.Gt) and c_.comparators[0].value >= 0) or (isinstance(c_.ops[0], ast.GtE) and c_.comparators[0].value >= 1) or
                    (isinstance(c_.ops[0], ast.NotEq) and c_.comparators[0].value == 0)):
                return f'guarded by the length test `{src(c_)}` on every path that reaches it'
        return None
    if not (isinstance(node, ast.Subscript) and isinstance(node.value, ast.Name) and isinstance(node.slice, ast.Constant) and
            isinstance(node.slice.value, int) and node.slice.value >= 0):
        return None
    x, k = node.value.id, node.slice.value

    def establishes(t):
        for c in conjuncts(t):
            if k == 0 and isinstance(c, ast.Name) and c.id == x:
                return True
            if isinstance(c, ast.Compare) and len(c.ops) == 1 and isinstance(c.left, ast.Call) and src(c.left.func) == 'len' and len(c.left.args) == 1 and \
                    isinstance(c.left.args[0], ast.Name) and c.left.args[0].id == x and isinstance(c.comparators[0], ast.Constant) and \
                    isinstance(c.comparators[0].value, int):
                n = c.comparators[0].value
                if (isinstance(c.ops[0], ast.Eq) and n > k) or (isinstance(c.ops[0], ast.Gt) and n >= k) or (isinstance(c.ops[0], ast.GtE) and n > k):
                    return True
        return False
    # X must not be rebound between the test and the use: require the use to be syntactically inside the guarded region and X not assigned there
    child, p = node, parents.get(node)
    while p is not None and p is not func:
        if isinstance(p, ast.If) and any(child is s_ or child in list(ast.walk(s_)) for s_ in p.body) and establishes(p.test):
            if not any(isinstance(a, ast.Assign) and any(isinstance(t, ast.Name) and t.id == x for t in a.targets) and a.lineno < node.lineno
                       for s_ in p.body for a in ast.walk(s_)):
                return f'guarded by its own length test `{src(p.test)}`'
        if isinstance(p, ast.IfExp) and (child is p.body) and establishes(p.test):
            return f'guarded by its own length test `{src(p.test)}`'
        if isinstance(p, ast.BoolOp) and isinstance(p.op, ast.And):
            idx = next((i for i, v in enumerate(p.values) if v is child or child in list(ast.walk(v))), None)
            if idx and any(establishes(v) for v in p.values[:idx]):
                return 'guarded by an earlier conjunct of the same `and`'
        child, p = p, parents.get(p)
    return None


def guard_present(func, guard):
    """the guard text occurs as (part of) an if/elif/while test or an assert in the function"""
    g = ' '.join(guard.split())
    if g.startswith('='):  # the whole test equals the guard
        return any(isinstance(n, (ast.If, ast.While)) and ' '.join(src(n.test).split()) == g[1:] for n in ast.walk(func))
    if g.endswith(' and') and g[:-4].isidentifier():
        # "<name> is truthy before it is indexed": `name and name[0]...`, `name[0] if name else ...`, `if name: ... name[0]`
        nm = g[:-4]
        for n in ast.walk(func):
            if isinstance(n, ast.BoolOp) and isinstance(n.op, ast.And) and any(isinstance(v, ast.Name) and v.id == nm for v in n.values[:-1]):
                return True
            if isinstance(n, (ast.IfExp, ast.If, ast.While)) and isinstance(n.test, ast.Name) and n.test.id == nm:
                return True
    for n in ast.walk(func):
        if isinstance(n, (ast.If, ast.While, ast.IfExp, ast.Assert)):
            if g in ' '.join(src(n.test).split()):
                return True
        if isinstance(n, ast.comprehension):
            for i in n.ifs:
                if g in src(i):
                    return True
    return False


# frozen instances of the daylight layer: (module, function, op source) -> (classification, data)
#   ('guard', text)      safe because of this guard; the guard is re-located on every run
#   ('invariant', text)  safe by a structural invariant named here
#   ('domain', text)     index into data that is not derived from the input text
DAYLIGHT_TABLE = {
    ('tokenize', '_tokenize', 'token[0]'): ('guard', '=token'),
    ('tokenize', '_tokenize', 'tokens.pop(-1)[1]'): ('guard', 'token_type != 1'),
    ('tokenize', '_tokenize', 'tokens.pop(-1)'): ('guard', 'token_type != 1'),
    ('tokenize', '_tokenize', 'replace_dict[s]'): ('keys', ("s in '=#:-~'", 'replace_dict')),
    ('tokenize', '_tokenize', 'not_dict[s]'): ('keys', ("s in '=#:-~'", 'not_dict')),
    ('tokenize', '_query_parse', 'charge_dict[charge.group()]'): ('convert', 'chg_re admits spellings (+-, -+) that are not keys'),
    ('tokenize', '_atom_parse', 'charge_dict[charge]'): ('convert', 'atom_re admits spellings (+-, -+) that are not keys'),
    ('tokenize', '_query_parse', 'primitives[0]'): ('invariant', 'str.split always returns at least one element'),
    ('tokenize', '_query_parse', 'element[0]'): ('guard', 'len(element) == 1'),
    ('tokenize', '_query_parse', 'x[0]'): ('guard', 'all(p)'),
    ('tokenize', '_query_parse', 'p[0][0]'): ('guard', 'all(p)'),
    ('tokenize', '_query_parse', 'p[0]'): ('invariant', 'str.split always returns at least one element'),
    ('parser', 'parser', 'tokens[0][0]'): ('invariant', 'the tokenizer returns a non-empty list for a non-empty string: every character emits a token, '
                                                         'raises, or opens a state that is rejected at end of input (rule F-fsm); callers reject empty strings'),
    ('parser', 'parser', 'tokens[0]'): ('invariant', 'see tokens[0][0]'),
    ('parser', 'parser', 'tokens[1][0]'): ('guard', 'len(tokens)'),
    ('parser', 'parser', 'tokens[1]'): ('guard', 'len(tokens)'),
    ('parser', 'parser', 'previous[0]'): ('guard', 'previous'),
    ('parser', 'parser', 'stack.pop()'): ('convert', 'more closing than opening parentheses empties the branch stack'),
    ('smiles', 'smiles', 'data[0]'): ('guard', 'data and'),
    ('smiles', 'smiles', 'c[0]'): ('invariant', 'contract groups come from cx_fragments, whose groups have at least two members'),
    ('smiles', 'postprocess_molecule', 'next((x for x in order[t1] if x in env))'): ('invariant', 'allene terminals have a neighbour in the stereogenic environment by construction of stereogenic_allenes'),
    ('smiles', 'postprocess_molecule', 'next((x for x in order[t2] if x in env))'): ('invariant', 'see previous'),
    ('smiles', 'postprocess_molecule', 'stereo_bonds[m].popitem()'): ('invariant', 'stereo_bonds entries are created with one directional neighbour'),
    ('smiles', 'postprocess_molecule', 'ns.popitem()'): ('invariant', 'stereo_bonds entries are created with one directional neighbour'),
    ('smarts', 'smarts', 'cx[0]'): ('guard', 'cx and'),
    ('smarts', 'smarts', 'stereo_bonds[n].popitem()'): ('guard', 'n in stereo_bonds and m in stereo_bonds'),
    ('smarts', 'smarts', 'stereo_bonds[m].popitem()'): ('guard', 'n in stereo_bonds and m in stereo_bonds'),
    ('smarts', 'smarts', "a.pop('parsed_mapping', 0)"): ('invariant', 'pop with default'),
    ('smarts', 'smarts', 'next(global_free_masked if a.get(\'masked\') else free)'): ('invariant', 'itertools.count never ends'),
    ('_convert', 'create_molecule', "atom.pop('z', None)"): ('invariant', 'pop with default'),
    ('_mapping', 'postprocess_parsed_molecule', 'next(length)'): ('invariant', 'itertools.count never ends'),
    ('_mapping', 'postprocess_parsed_reaction', 'next(length)'): ('invariant', 'itertools.count never ends'),
    ('_mapping', 'postprocess_parsed_reaction', '_remap[-1]'): ('domain', 'internal list filled in the same loop'),
}
# input-derived integers used as indices: (module, function, subscript source) -> required protection
TAINTED_INT = {
    ('smiles', 'smiles', "record['atoms'][x]"): 'CXSMILES radical index',
    ('smiles', 'smiles', 'atom_map[x]'): 'CXSMILES radical index (reaction)',
    ('smarts', 'smarts', "parsed['atoms'][int(i)]"): 'CXSMARTS radical index',
}


def literal_keys(m, name):
    e = m.assigns.get(name)
    if not isinstance(e, ast.Dict):
        raise AnalysisError(f'{m.name}.{name} is not a dict literal')
    return {ast.literal_eval(k) for k in e.keys}


def rule_implicit_raises(ck, repo, R, accepted):
    ck.rule(R, 'every indexing / dict lookup / next() / pop() on input-derived data in the daylight reader layer is either inside a '
               'try whose handler re-raises in the promised family, or is one of the reviewed instances whose protecting guard '
               '(frozen per instance) is still present; a membership guard counts only if its alphabet is covered by the keys')
    seen_keys = set()
    for mn in DAYLIGHT:
        m = repo.module(mn)
        short = mn.rsplit('.', 1)[1]
        parents = parent_map(m.tree)
        for kind, node in risky_ops(m):
            f = enclosing_func(parents, node)
            if f is None:
                continue
            op = src(node)
            key = (short, f.name, op)
            inst = f'{short}:{f.name}:{op}'
            if inst in seen_keys:
                continue
            seen_keys.add(inst)
            how = converted(repo, m, parents, node, kind, accepted)
            if how:
                ck.ok(R, inst, how)
                continue
            sg = self_guarded(parents, node, f)
            if sg:
                ck.ok(R, inst, sg)
                continue
            spec = DAYLIGHT_TABLE.get(key)
            if spec is None:
                # a renamed local: match the reviewed instances of this function modulo renaming of names that no longer occur in it
                present = {n.id for n in ast.walk(f) if isinstance(n, ast.Name)} | {a.arg for a in ast.walk(f) if isinstance(a, ast.arg)}
                cands = []
                for (s_, fn_, op_), sp_ in DAYLIGHT_TABLE.items():
                    if (s_, fn_) != (short, f.name) or (s_, fn_, op_) in {(short, f.name, src(x)) for _, x in risky_ops(m) if enclosing_func(parents, x) is f}:
                        continue
                    try:
                        pat = ast.parse(op_, mode='eval').body
                    except SyntaxError:
                        continue
                    env_ = {}
                    if _unify(pat, node, env_, present):
                        cands.append((sp_, {k: v for k, v in env_.items() if k != v}))
                if len(cands) == 1:
                    spec, ren = cands[0]
                    cls_, data_ = spec

                    def rn(text):
                        for a_, b_ in ren.items():
                            text = re.sub(rf'\b{re.escape(a_)}\b', b_, text)
                        return text
                    spec = (cls_, rn(data_) if isinstance(data_, str) else tuple(rn(x) if isinstance(x, str) else x for x in data_))
            if spec is None:
                ck.defer(f'{m.relpath}:{node.lineno} {f.name}: new unreviewed operation `{op}` on reader data that can raise '
                         f'{"/".join(x.__name__ for x in IMPLICIT[kind])}; add a converting try/except or review it into DAYLIGHT_TABLE')
                continue
            cls, data = spec
            loc = dict(file=m.relpath, line=node.lineno, func=f.name, construct=op)
            if cls == 'guard':
                ck.decide(guard_present(f, data), R, inst, f'guard `{data}`',
                          f'{f.name}: `{op}` can raise {"/".join(x.__name__ for x in IMPLICIT[kind])} on malformed input: its guard `{data}` is gone '
                          f'and no enclosing try converts the error to the reader error family', **loc)
            elif cls == 'keys':
                guard, dname = data
                present = guard_present(f, guard)
                alphabet = None
                for n in ast.walk(f):
                    if isinstance(n, ast.Compare) and ' '.join(src(n).split()) == guard and isinstance(n.comparators[0], ast.Constant):
                        alphabet = set(n.comparators[0].value)
                keys = literal_keys(m, dname)
                # characters excluded by an explicit earlier test inside the branch
                excluded = set()
                # `if s == X: raise ...` statements preceding the lookup in its own block
                stmt = node
                while parents.get(stmt) is not None and not isinstance(stmt, ast.stmt):
                    stmt = parents[stmt]
                holder = parents.get(stmt)
                for field in ('body', 'orelse'):
                    blk = getattr(holder, field, None)
                    if isinstance(blk, list) and stmt in blk:
                        for prev in blk[:blk.index(stmt)]:
                            if isinstance(prev, ast.If) and isinstance(prev.test, ast.Compare) and src(prev.test.left) == 's' and \
                                    isinstance(prev.test.ops[0], ast.Eq) and isinstance(prev.test.comparators[0], ast.Constant) and terminates(prev.body):
                                excluded.add(prev.test.comparators[0].value)
                p = parents.get(node)
                while p is not None and p is not f:
                    if isinstance(p, ast.If):
                        for t, blk in if_chain(p):
                            if t is not None and isinstance(t, ast.Compare) and src(t.left) == 's' and isinstance(t.ops[0], ast.Eq) and \
                                    isinstance(t.comparators[0], ast.Constant) and terminates(blk) and not any(node in ast.walk(b) for b in blk):
                                excluded.add(t.comparators[0].value)
                    p = parents.get(p)
                missing = sorted((alphabet or set()) - keys - excluded)
                ck.decide(present and alphabet is not None and not missing, R, inst, f'alphabet {sorted(alphabet or ())} within keys',
                          f'{f.name}: `{op}` is reached for every character of {guard!r} but {dname} has no key for {missing}: KeyError on such input', **loc)
            elif cls == 'convert':
                ck.bad(R, inst, f'{f.name}: `{op}` can raise {"/".join(x.__name__ for x in IMPLICIT[kind])} ({data}) and is not inside a try that '
                                f're-raises in the reader error family', **loc)
            else:
                ck.ok(R, inst, f'{cls}: {data}', nontrivial=False)
        # tainted integer indices
        for node in ast.walk(m.tree):
            if isinstance(node, ast.Subscript):
                f = enclosing_func(parents, node)
                if f is None:
                    continue
                k = (short, f.name, src(node))
                if k in TAINTED_INT and f'{k}' not in seen_keys:
                    seen_keys.add(f'{k}')
                    how = converted(repo, m, parents, node, 'index', accepted)
                    ck.decide(how is not None, R, f'{short}:{f.name}:{src(node)}', how,
                              f'{f.name}: `{src(node)}` indexes with an integer taken from the input text ({TAINTED_INT[k]}) without a range check '
                              f'or a converting try: IndexError/KeyError escapes', file=m.relpath, line=node.lineno, func=f.name, construct=src(node))
    for k in TAINTED_INT:
        if f'{k}' not in seen_keys:
            raise AnalysisError(f'reviewed input-derived index {k} vanished; re-review the CX radical handling')
    ck.floor(R, 30)


def rule_tokenizer_fsm(ck, repo, R):
    ck.rule(R, 'after the character loop of _tokenize every continuation-awaiting state (open bracket 5, %-closure 7, NOT-bond 11, '
               'ring-bond prefix 12) raises; a pending OR-bond list 10 is flushed as a bond token (parser rejects a bond at the end)')
    f = repo.func('chython.files.daylight.tokenize:_tokenize')
    loop_idx = next((i for i, s in enumerate(f.node.body) if isinstance(s, ast.For)), None)
    ck.require(loop_idx is not None, '_tokenize: character loop not found')
    tail = f.node.body[loop_idx + 1:]
    ifs = [s for s in tail if isinstance(s, ast.If)]
    ck.require(ifs, '_tokenize: end-of-input ladder not found')
    from .r_query import _ev, _Unknown

    def must_raise(stmts, state):
        """does every path through the statements after the loop end in a raise when token_type == state? (tests over token_type are
        evaluated, whatever their spelling; a test over anything else is explored both ways)"""
        for i, st in enumerate(stmts):
            if isinstance(st, ast.Raise):
                return True
            if isinstance(st, ast.Return):
                return False
            if isinstance(st, ast.If):
                rest = stmts[i + 1:]
                try:
                    v = bool(_ev(st.test, {'token_type': state, 'token': ''} if state == 7 else {'token_type': state}))
                    return must_raise((st.body if v else st.orelse) + rest, state)
                except _Unknown:
                    return must_raise(st.body + rest, state) and must_raise(st.orelse + rest, state)
        return False
    for state, name in ((5, 'unterminated [atom'), (7, 'dangling % (no digits)'), (11, 'dangling ! (NOT bond)'), (12, 'dangling ; (ring bond prefix)')):
        ck.decide(must_raise(list(tail), state), R, f'state-{state}', name,
                  f'_tokenize: input ending in state {state} ({name}) is not rejected after the loop: the incomplete token is silently dropped',
                  file=f.file, line=ifs[0].lineno, func=f.qualname)
    # states that set token_type without emitting a token inside the loop = continuation-awaiting; make sure the list above is complete
    awaiting = set()
    for n in ast.walk(f.node.body[loop_idx]):
        if isinstance(n, ast.Assign) and src(n.targets[0]) == 'token_type' and isinstance(n.value, ast.Constant) and isinstance(n.value.value, int):
            awaiting.add(n.value.value)
    ck.decide({5, 7, 10, 11, 12} <= awaiting, R, 'states-known', sorted(awaiting), f'tokenizer states changed: {sorted(awaiting)}', file=f.file, line=f.lineno)


# -- E3 -----------------------------------------------------------------------------------------------------------------
def rule_negative_count_slices(ck, repo, R, funcs):
    ck.rule(R, 'a slice bound -n (x[-n:], x[a:-n]) where n is a count that may be zero selects the wrong part (x[-0:] is everything): '
               'role partitions must use cumulative non-negative offsets')
    n_sl = 0
    for fq in funcs:
        f = repo.func(fq)
        for node in ast.walk(f.node):
            if isinstance(node, ast.Subscript) and isinstance(node.slice, ast.Slice):
                n_sl += 1
                bad = []
                for b in (node.slice.lower, node.slice.upper):
                    if isinstance(b, ast.UnaryOp) and isinstance(b.op, ast.USub) and isinstance(b.operand, ast.Name):
                        bad.append(src(b))
                ck.decide(not bad, R, f'{f.qualname}:{src(node)}', None,
                          f'{f.qualname}: `{src(node)}` uses the negated count {bad}: when that count is 0 the slice selects '
                          f'{"everything" if node.slice.lower is not None and src(node.slice.lower) in bad else "nothing"} (empty reaction side mishandled)',
                          file=f.file, line=node.lineno, func=f.qualname, construct=src(node))
    ck.count(f'{R} slices', n_sl)


# -- F-fsm2: one-step exploration of the tokenizer over a finite set of (state, character) pairs -------------------------------------------------
class _Unk(Exception):
    pass


class _Raised(Exception):
    pass


_UNKNOWN = object()


def _tv(e, env):
    """evaluate a guard of the tokenizer loop over concrete small values; anything else is _Unk"""
    if isinstance(e, ast.Constant):
        return e.value
    if isinstance(e, ast.Name):
        if e.id in env:
            v = env[e.id]
            if v is _UNKNOWN:
                raise _Unk(f'value of {e.id} not tracked')
            return v
        raise _Unk(e.id)
    if isinstance(e, ast.Tuple):
        return tuple(_tv(x, env) for x in e.elts)
    if isinstance(e, ast.UnaryOp) and isinstance(e.op, ast.Not):
        return not _tv(e.operand, env)
    if isinstance(e, ast.BoolOp):
        if isinstance(e.op, ast.And):
            for x in e.values:
                if not _tv(x, env):
                    return False
            return True
        for x in e.values:
            if _tv(x, env):
                return True
        return False
    if isinstance(e, ast.Compare):
        left = _tv(e.left, env)
        for op, c in zip(e.ops, e.comparators):
            right = _tv(c, env)
            try:
                r = {ast.Eq: lambda a, b: a == b, ast.NotEq: lambda a, b: a != b, ast.In: lambda a, b: a in b, ast.NotIn: lambda a, b: a not in b,
                     ast.Is: lambda a, b: a is b, ast.IsNot: lambda a, b: a is not b, ast.Lt: lambda a, b: a < b, ast.Gt: lambda a, b: a > b,
                     ast.LtE: lambda a, b: a <= b, ast.GtE: lambda a, b: a >= b}[type(op)](left, right)
            except TypeError:
                raise _Unk('comparison of unlike values')
            if not r:
                return False
            left = right
        return True
    if isinstance(e, ast.Call) and isinstance(e.func, ast.Attribute) and e.func.attr in ('isnumeric', 'isdigit', 'isdecimal') and not e.args:
        return str(_tv(e.func.value, env)).isdigit()
    if isinstance(e, ast.Call) and isinstance(e.func, ast.Name) and e.func.id == 'len' and len(e.args) == 1:
        return len(_tv(e.args[0], env))
    raise _Unk(ast.dump(e)[:50])


def _step(body, env):
    """abstractly execute one iteration of the character loop; raises _Raised when the tokenizer rejects"""
    for s in body:
        if isinstance(s, ast.If):
            if _tv(s.test, env):
                _step(s.body, env)
            else:
                _step(s.orelse, env)
        elif isinstance(s, ast.Raise):
            raise _Raised()
        elif isinstance(s, ast.Assign):
            v = _UNKNOWN
            if isinstance(s.value, ast.Constant):
                v = s.value.value
            elif isinstance(s.value, ast.List) and not s.value.elts:
                v = []
            elif isinstance(s.value, ast.Name) and s.value.id in env:
                v = env[s.value.id]
            for t in s.targets:
                if isinstance(t, ast.Name):
                    env[t.id] = v
        elif isinstance(s, ast.Expr) and isinstance(s.value, ast.Call) and isinstance(s.value.func, ast.Attribute) and \
                isinstance(s.value.func.value, ast.Name) and s.value.func.attr == 'append':
            tgt = s.value.func.value.id
            if isinstance(env.get(tgt), list) and tgt != 'tokens':
                a = s.value.args[0]
                env[tgt] = env[tgt] + [env[a.id] if isinstance(a, ast.Name) and a.id in env else _UNKNOWN]
        elif isinstance(s, (ast.Expr, ast.Pass, ast.Continue)):
            pass
        elif isinstance(s, ast.Try):
            _step(s.body, env)
        else:
            raise _Unk(type(s).__name__)


def rule_tokenizer_rejections(ck, repo, R):
    ck.rule(R, 'one-step exploration of the _tokenize character loop over a finite table of (tokenizer state, pending token, character): every '
               'combination the SMILES grammar forbids is rejected (raise) -- a closure number starting with 0 in EVERY state (also while a C / B is '
               'pending for the Cl / Br look-ahead), % not followed by two digits, [ inside [ and ] without [, ( or ) or a closure right after (')
    f = repo.func('chython.files.daylight.tokenize:_tokenize')
    ck.require(f is not None, '_tokenize not found')
    loop = next((s for s in f.node.body if isinstance(s, ast.For)), None)
    ck.require(loop is not None and isinstance(loop.target, ast.Name), '_tokenize: character loop not found')
    ch = loop.target.id
    plain = [(None, None), (0, None), (0, 'C'), (0, 'B'), (1, None), (3, None), (4, None), (6, None), (8, None), (9, None)]
    table = []
    for tt, tok in plain:
        table.append((tt, tok, '0', 'closure number 0'))
    table.append((7, [], '0', '%0x'))
    for tok in ([], ['1']):
        for c in ('C', '(', '=', '.', '%', 'c', '['):
            table.append((7, tok, c, '% not followed by two digits'))
    table.append((5, [], '[', '[ inside ['))
    table.append((5, ['C'], '[', '[ inside ['))
    for tt, tok in plain:
        table.append((tt, tok, ']', '] without ['))
    for c in ('(', ')', '1', '%'):
        table.append((2, None, c, f'{c} right after ('))
    must_pass = [(None, None, 'C'), (0, 'C', '1'), (0, 'C', 'l'), (0, None, '('), (6, None, '2'), (7, [], '1'), (7, ['1'], '0'), (5, ['C'], 'H'), (0, 'C', '%')]
    for tt, tok, c, why in table:
        env = {'token_type': tt, 'token': list(tok) if isinstance(tok, list) else tok, ch: c, 'tokens': []}
        try:
            _step(loop.body, env)
            rejected = False
        except _Raised:
            rejected = True
        except _Unk as e:
            raise AnalysisError(f'_tokenize: step not understood for state {tt}/{tok!r} char {c!r}: {e}')
        ck.decide(rejected, R, f'reject:{tt}:{tok!r}:{c}', why,
                  f'_tokenize in state token_type={tt}, pending token={tok!r} accepts the character {c!r} ({why}): a string outside the language is tokenised '
                  f'instead of rejected', file=f.file, line=loop.lineno, func='_tokenize')
    for tt, tok, c in must_pass:  # anti-vacuity: the exploration distinguishes accept from reject
        env = {'token_type': tt, 'token': list(tok) if isinstance(tok, list) else tok, ch: c, 'tokens': []}
        try:
            _step(loop.body, env)
            ok = True
        except _Raised:
            ok = False
        except _Unk as e:
            raise AnalysisError(f'_tokenize: step not understood for state {tt}/{tok!r} char {c!r}: {e}')
        ck.decide(ok, R, f'accept:{tt}:{tok!r}:{c}', None, f'_tokenize in state token_type={tt}, pending token={tok!r} rejects the legal character {c!r}',
                  file=f.file, line=loop.lineno, func='_tokenize')
    ck.floor(R, 40)


def rule_leniency_scope(ck, repo, R):
    ck.rule(R, 'the only rejections of parser() that the leniency flag (strong_cycle, i.e. smiles(ignore=...)) may turn into a log line are those for a ring '
               'closure whose bond symbol is written on ONE end only; every raise that depends on the flag sits on a path where exactly one of the two ends '
               '(`ob` = symbol at the opening digit, `previous` = symbol at the closing digit) carries a symbol. Contradictory symbols on both ends are outside the '
               'language under every setting')
    f = repo.func('chython.files.daylight.parser:parser')
    ck.require(f is not None, 'parser() not found')
    flag = f.params()[1] if len(f.params()) > 1 else None
    ck.require(flag is not None, 'parser(): leniency parameter not found')
    parents = {}
    for p_ in ast.walk(f.node):
        for ch in ast.iter_child_nodes(p_):
            parents[ch] = p_
    # the two places a closure bond symbol can be held: names unpacked as (type, value) pairs
    holders = {a.value.id for a in ast.walk(f.node) if isinstance(a, ast.Assign) and isinstance(a.targets[0], ast.Tuple) and len(a.targets[0].elts) == 2 and
               isinstance(a.value, ast.Name)}
    ck.require(len(holders) == 2, f'parser(): the two bond-symbol holders of a ring closure were not recognised ({sorted(holders)})')
    n = 0
    for r in ast.walk(f.node):
        if not isinstance(r, ast.Raise):
            continue
        # path literals: truthiness of plain names along the enclosing if-chains
        facts, under_flag = {}, False
        child, p_ = r, parents.get(r)
        while p_ is not None and p_ is not f.node:
            if isinstance(p_, ast.If):
                in_body = any(child is s_ for s_ in p_.body)
                t, pol = p_.test, in_body
                while isinstance(t, ast.UnaryOp) and isinstance(t.op, ast.Not):
                    t, pol = t.operand, not pol
                if isinstance(t, ast.Name):
                    if t.id == flag:
                        under_flag = under_flag or in_body or True
                    else:
                        facts.setdefault(t.id, pol)
                elif any(isinstance(x, ast.Name) and x.id == flag for x in ast.walk(p_.test)):
                    under_flag = True
            child, p_ = p_, parents.get(p_)
        if not under_flag:
            continue
        n += 1
        held = {k: v for k, v in facts.items() if k in holders}
        ck.decide(len(held) == 2 and len(set(held.values())) == 2, R, f'raise@{sorted(held.items())}', held,
                  f'parser(): a rejection that depends on `{flag}` is reached with the bond-symbol holders in state {held}; only a closure with a symbol on exactly '
                  f'one end (one holder set, the other empty) may be tolerated, this one is silently accepted under the default ignore=True',
                  file=f.file, line=r.lineno, func='parser')
    ck.count(f'{R}: flag-dependent rejections', n)
    ck.floor(R, 2)
