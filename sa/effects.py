# -*- coding: utf-8 -*-
"""
Engine B3: mutator protocol as a path-sensitive typestate walk.

Abstract state = a set of configurations; a configuration is (pending obligations, facts).
  obligation = (dim, cat, owner, origin, tag)   dim in FLUSH / LABELS / HYDRO / STEREO
  facts      = witness facts ('N'|'E', name), boolean locals ('T'|'F', name), ('ne8', name)
Raw writes of molecule state create obligations (table TRIGGERS); the repo's own primitives discharge them.
Calls to other methods of the same container are analysed by walking the callee with the current configuration
(context = constant keyword arguments), so a discharge only counts when it happens on every path.
Nothing is executed: the walk is syntax-directed over the ast.
"""
import ast
from .core import AnalysisError
from .model import ClassInfo, FuncInfo
from .astutil import src, strip_doc, conjuncts

CATS = ('ATOMS', 'TOPO', 'ORDER', 'IS8', 'CHARGE', 'RADICAL', 'ISOTOPE', 'HCOUNT', 'STEREO', 'XY')
TRIGGERS = {  # category -> dims that become pending
    'ATOMS': ('FLUSH', 'LABELS', 'HYDRO', 'STEREO'),
    'TOPO': ('FLUSH', 'LABELS', 'HYDRO', 'STEREO'),
    'ORDER': ('FLUSH', 'LABELS', 'HYDRO', 'STEREO'),
    'IS8': ('FLUSH',),
    'CHARGE': ('FLUSH', 'HYDRO', 'STEREO'),
    'RADICAL': ('FLUSH', 'HYDRO', 'STEREO'),
    'ISOTOPE': ('FLUSH', 'STEREO'),
    'HCOUNT': ('FLUSH', 'STEREO'),
    'STEREO': ('FLUSH',),
    'XY': (),  # coordinates are outside the derived views C13 lists; depiction caches are popped by hand
}
STATE_ATTRS = {'_order': 'ORDER', '_charge': 'CHARGE', '_is_radical': 'RADICAL', '_isotope': 'ISOTOPE',
               '_implicit_hydrogens': 'HCOUNT', '_stereo': 'STEREO', '_xy': 'XY',
               # public setters of Element (only reachable on atom objects)
               'charge': 'CHARGE', 'is_radical': 'RADICAL', 'isotope': 'ISOTOPE', 'xy': 'XY', 'x': 'XY', 'y': 'XY'}
PROTOCOL_FLAGS = {'_fix_stereo', '_skip_calculation', 'clean_cache', 'recalculate_hydrogens', 'skip_labels_calculation'}
WITNESS_ADD = {'add', 'append', 'update', 'extend', 'insert', 'appendleft', 'setdefault'}
WITNESS_DEL = {'pop', 'remove', 'discard', 'clear', 'difference_update', 'intersection_update', 'popleft', 'popitem'}
MAX_CONFIGS = 4000
MAX_DEPTH = 8


def _ck(x):
    """cache key of a FILLED / DIRTY fact"""
    return x[1][0] if x[0] == 'DIRTY' else x[1]


def _norm8(t):
    """`8 in (x, y.order)` -> `x == 8 or y == 8`; `8 not in (..)` -> its negation; `b.order == 8` -> `b == 8` (a Bond compares equal to its order)"""
    def name_of(e):
        if isinstance(e, ast.Attribute) and e.attr == 'order' and isinstance(e.value, ast.Name):
            return e.value
        return e
    if isinstance(t, ast.Compare) and len(t.ops) == 1 and isinstance(t.ops[0], (ast.In, ast.NotIn)) and isinstance(t.left, ast.Constant) and t.left.value == 8 \
            and isinstance(t.comparators[0], (ast.Tuple, ast.List, ast.Set)) and t.comparators[0].elts:
        eqs = [ast.Compare(left=name_of(e), ops=[ast.Eq()], comparators=[ast.Constant(value=8)]) for e in t.comparators[0].elts]
        r = eqs[0] if len(eqs) == 1 else ast.BoolOp(op=ast.Or(), values=eqs)
        return r if isinstance(t.ops[0], ast.In) else ast.UnaryOp(op=ast.Not(), operand=r)
    if isinstance(t, ast.BoolOp):
        return ast.BoolOp(op=t.op, values=[_norm8(v) for v in t.values])
    if isinstance(t, ast.Compare) and len(t.ops) == 1 and isinstance(t.ops[0], (ast.Eq, ast.NotEq)) and isinstance(t.comparators[0], ast.Constant) \
            and t.comparators[0].value == 8:
        return ast.Compare(left=name_of(t.left), ops=t.ops, comparators=t.comparators)
    return t


class Ctx:
    """analysis context of one function activation"""
    __slots__ = ('func', 'cls', 'recv', 'bind', 'depth', 'aliases', 'stack', 'nested_active')

    def __init__(self, func, cls, recv, bind, depth, stack):
        self.func = func
        self.cls = cls  # container class used for self.<method> resolution
        self.recv = recv  # owner label of `self` in this activation
        self.bind = bind  # param name -> constant
        self.depth = depth
        self.stack = stack
        self.aliases = None
        self.nested_active = None


class Protocol:
    def __init__(self, repo, container_fq='chython.containers.molecule:MoleculeContainer'):
        self.repo = repo
        self.container = repo.cls(container_fq)
        self.kept = self._kept_keys()
        self.kept_reads = self._kept_reads()
        self.reports = []  # (entry, kind, obligation, exit line)
        self.stale_reads = []  # (entry, func, cached attr, line, categories, origin of the unflushed write)
        self.track_stale_reads = False
        self.visited_funcs = set()
        self.write_sites = set()
        self.entry_writes = {}
        self.call_sites = 0
        self.memo = {}
        self.unresolved = set()
        self.is8_free = {}       # function qualname -> reason: ORDER writes there never create/remove a coordinate bond
        self.keep_exempt = None  # callable(entry qualname, obligation) -> reason | None, consulted when a flush keeps ring caches
        self.exempted = {}       # (entry, dim, cat, origin) -> reason, for the evidence

    # ----------------------------------------------------------------------------------------------------------
    # B2: keep lists of flush_cache / copy and what the kept keys read
    # ----------------------------------------------------------------------------------------------------------
    def _keep_tuples(self, func):
        """{'keep_sssr': (keys...), 'keep_components': (keys...)} from the body of flush_cache/copy"""
        out = {}
        for n in ast.walk(func.node):
            flags = [c.id for c in conjuncts(n.test) if isinstance(c, ast.Name) and c.id.startswith('keep_')] if isinstance(n, ast.If) else []
            if len(flags) == 1:  # `if keep_x:` or `if keep_x and 'key' in self.__dict__:`
                keys = set()
                for c in ast.walk(n):
                    if isinstance(c, ast.Compare) and len(c.ops) == 1 and isinstance(c.ops[0], ast.In):
                        try:
                            v = ast.literal_eval(c.comparators[0])
                        except Exception:
                            v = None
                        if isinstance(c.left, ast.Name) and isinstance(v, tuple):
                            keys.update(v)
                        elif isinstance(c.left, ast.Constant) and isinstance(c.left.value, str):
                            keys.add(c.left.value)
                    elif isinstance(c, ast.Subscript) and isinstance(c.slice, ast.Constant) and \
                            isinstance(c.slice.value, str) and isinstance(c.ctx, ast.Store):
                        keys.add(c.slice.value)
                out[flags[0]] = tuple(sorted(set(out.get(flags[0], ())) | keys))
        return out

    def _kept_keys(self):
        f = self.repo.lookup(self.container, 'flush_cache')
        if f is None or f.cls is not self.container:
            raise AnalysisError('MoleculeContainer.flush_cache vanished')
        k = self._keep_tuples(f)
        if set(k) != {'keep_sssr', 'keep_components'} or not all(k.values()):
            raise AnalysisError(f'keep lists of MoleculeContainer.flush_cache not recognised: {k}')
        return k

    def direct_reads(self, func):
        """categories syntactically read in a function body (coarse; used for kept keys only)"""
        cats = set()
        for n in ast.walk(func.node):
            if isinstance(n, ast.Attribute):
                if n.attr == '_atoms' or n.attr == 'atoms' and isinstance(n.ctx, ast.Load):
                    cats.add('ATOMS')
                elif n.attr in ('_bonds', 'bonds'):
                    cats.update(('ATOMS', 'TOPO'))
                elif n.attr in ('order', '_order'):
                    cats.add('ORDER')
                elif n.attr in ('charge', '_charge'):
                    cats.add('CHARGE')
                elif n.attr in ('is_radical', '_is_radical'):
                    cats.add('RADICAL')
                elif n.attr in ('isotope', '_isotope'):
                    cats.add('ISOTOPE')
                elif n.attr in ('implicit_hydrogens', '_implicit_hydrogens', 'total_hydrogens'):
                    cats.add('HCOUNT')
                elif n.attr in ('stereo', '_stereo'):
                    cats.add('STEREO')
                elif n.attr in ('x', 'y', 'xy', '_xy'):
                    cats.add('XY')
            elif isinstance(n, ast.Compare) and len(n.ops) == 1 and isinstance(n.comparators[0], ast.Constant) and \
                    isinstance(n.comparators[0].value, int) and not isinstance(n.comparators[0].value, bool):
                v = n.comparators[0].value
                if isinstance(n.left, ast.Name) and isinstance(n.ops[0], (ast.Eq, ast.NotEq)):
                    if v == 8:
                        cats.add('IS8')
                    elif v in (1, 2, 3, 4):
                        cats.add('ORDER?')
        return cats

    def reads(self, func, seen=None):
        """transitive closure through self.<attr> uses"""
        seen = seen if seen is not None else set()
        if func in seen:
            return set()
        seen.add(func)
        cats = self.direct_reads(func)
        for n in ast.walk(func.node):
            if isinstance(n, ast.Attribute) and isinstance(n.value, ast.Name) and n.value.id == 'self':
                g = self.repo.lookup(self.container, n.attr)
                if g is not None and g is not func:
                    cats |= self.reads(g, seen)
        return cats

    def _kept_reads(self):
        reg = self.repo.cache_registry(self.container)
        out = {}
        for flag, keys in self.kept.items():
            cats = set()
            for k in keys:
                if k not in reg:
                    raise AnalysisError(f'kept cache key {k!r} of flush_cache is not a cached value of MoleculeContainer')
                cats |= self.reads(reg[k])
            cats.discard('ORDER?')
            out[flag] = cats
        return out

    # ----------------------------------------------------------------------------------------------------------
    # pruning: which functions can touch the protocol at all; which local names carry facts worth tracking
    # ----------------------------------------------------------------------------------------------------------
    PRIMS = ('flush_cache', 'calc_labels', 'calc_implicit', 'fix_stereo', 'flush_stereo_cache')

    def direct_effect(self, func):
        aliases = set()
        for n in ast.walk(func.node):
            if isinstance(n, ast.Attribute) and n.attr in ('_atoms', '_bonds'):
                aliases.add('*')
        for n in ast.walk(func.node):
            if isinstance(n, ast.Attribute) and isinstance(n.ctx, (ast.Store, ast.Del)) and \
                    (n.attr in STATE_ATTRS or n.attr in ('_atoms', '_bonds')):
                return True
            if isinstance(n, ast.Delete) and aliases:
                return True
            if isinstance(n, ast.Subscript) and isinstance(n.ctx, (ast.Store, ast.Del)) and aliases:
                return True
            if isinstance(n, ast.Call) and isinstance(n.func, ast.Attribute):
                if n.func.attr in self.PRIMS:
                    return True
                if n.func.attr in ('pop', 'clear', 'popitem') and aliases:
                    return True
        return False

    def may_affect(self, func, cls, _stack=None):
        key = (func.fq, cls.fq)
        cache = self.__dict__.setdefault('_affect', {})
        if key in cache:
            return cache[key]
        _stack = _stack or set()
        if func.fq in _stack:
            return False
        _stack = _stack | {func.fq}
        res = self.direct_effect(func)
        if not res:
            for n in ast.walk(func.node):
                if isinstance(n, ast.Call) and isinstance(n.func, ast.Attribute):
                    recv = n.func.value
                    after = None
                    if isinstance(recv, ast.Call) and isinstance(recv.func, ast.Name) and recv.func.id == 'super':
                        after = func.cls
                    elif not isinstance(recv, ast.Name):
                        continue
                    g = self.repo.lookup(cls, n.func.attr, after=after)
                    if g is not None and not (g.is_property and after is None) and self.may_affect(g, cls, _stack):
                        res = True
                        break
        cache[key] = res
        return res

    def interesting_names(self, func):
        cache = self.__dict__.setdefault('_interesting', {})
        if func.fq in cache:
            return cache[func.fq]
        names = set()

        def truth_names(t):
            t = norm_len(t)
            if isinstance(t, ast.Name):
                names.add(t.id)
            elif isinstance(t, ast.UnaryOp) and isinstance(t.op, ast.Not):
                truth_names(t.operand)
            elif isinstance(t, ast.BoolOp):
                for v in t.values:
                    truth_names(v)
            elif isinstance(t, ast.Compare) and len(t.ops) == 1 and isinstance(t.comparators[0], ast.Constant) and \
                    t.comparators[0].value == 8 and isinstance(t.left, ast.Name):
                names.add(t.left.id)
        for n in ast.walk(func.node):
            if isinstance(n, (ast.If, ast.While, ast.IfExp)):
                truth_names(n.test)
            elif isinstance(n, ast.Call):
                for k in n.keywords:
                    if k.arg and k.arg.startswith('keep_') and isinstance(k.value, ast.Name):
                        names.add(k.value.id)
            elif isinstance(n, (ast.For, ast.comprehension)):
                it = n.iter
                if isinstance(it, ast.Name):
                    names.add(it.id)
                elif isinstance(it, ast.Call) and isinstance(it.func, ast.Attribute) and isinstance(it.func.value, ast.Name):
                    names.add(it.func.value.id)
        cache[func.fq] = names
        return names

    # ----------------------------------------------------------------------------------------------------------
    # aliases / owners
    # ----------------------------------------------------------------------------------------------------------
    def build_aliases(self, func):
        """name -> list of binding expressions (('expr', node) | ('elem', node) | ('param',))"""
        b = {}
        a = func.node.args
        for p in a.posonlyargs + a.args + a.kwonlyargs:
            b.setdefault(p.arg, []).append(('param',))

        def bind_target(t, kind, value):
            if isinstance(t, ast.Name):
                b.setdefault(t.id, []).append((kind, value))
            elif isinstance(t, (ast.Tuple, ast.List)):
                for e in t.elts:
                    bind_target(e, 'elem', value)
            elif isinstance(t, ast.Starred):
                bind_target(t.value, 'elem', value)

        for n in ast.walk(func.node):
            if isinstance(n, ast.Assign):
                for t in n.targets:
                    bind_target(t, 'expr', n.value)
            elif isinstance(n, ast.AnnAssign) and n.value is not None:
                bind_target(n.target, 'expr', n.value)
            elif isinstance(n, (ast.For, ast.comprehension)):
                bind_target(n.target, 'elem', n.iter)
            elif isinstance(n, ast.NamedExpr):
                bind_target(n.target, 'expr', n.value)
            elif isinstance(n, ast.withitem) and n.optional_vars is not None:
                bind_target(n.optional_vars, 'expr', n.context_expr)
        return b

    def owner_of(self, ctx, node, seen=None):
        """
        owner of the object an expression denotes:
          ('R', field)  reached from the receiver (`self`); field in '_atoms' / '_bonds' / None
          ('F', var, field)  reached from a fresh container held in local variable var
          ('P',) parameter / foreign, ('L',) local plain data, ('U',) unknown
        """
        seen = seen if seen is not None else set()
        if isinstance(node, ast.Name):
            if node.id == 'self':
                return ('R', None)
            if node.id in seen:
                return ('U',)
            seen.add(node.id)
            binds = ctx.aliases.get(node.id)
            if not binds:
                return ('U',)
            res = []
            for bd in binds:
                if bd[0] == 'param':
                    res.append(('P',))
                else:
                    res.append(self.owner_of(ctx, bd[1], seen))
            res = [r for r in res if r[0] != 'U'] or [('U',)]
            # `if flag: u = x.copy() else: u = x` is the statement spelling of `u = x.copy() if flag else x`: treated like the conditional expression
            # (fresh on the copying branch; the in-place branch is guarded by the same flag where it flushes)
            if len(binds) == 2 and all(bd[0] == 'expr' for bd in binds) and {r[0] for r in res} == {'F', 'R'}:
                vals = [bd[1] for bd in binds]
                for n_ in ast.walk(ctx.func.node):
                    if isinstance(n_, ast.If) and len(n_.body) == 1 and len(n_.orelse) == 1 and all(isinstance(x, ast.Assign) for x in (n_.body[0], n_.orelse[0])) \
                            and {id(n_.body[0].value), id(n_.orelse[0].value)} == {id(v) for v in vals}:
                        fr = next(r for r in res if r[0] == 'F')
                        return ('F', node.id, None) if len(fr) == 2 and fr[1] is None else fr
            # prefer R over F over P over L
            for tag in ('R', 'F', 'P', 'L'):
                for r in res:
                    if r[0] == tag:
                        if tag == 'F' and len(r) == 2:
                            return ('F', node.id, None) if r[1] is None else r
                        return r
            return ('U',)
        if isinstance(node, ast.Attribute):
            base = self.owner_of(ctx, node.value, seen)
            if node.attr in ('_atoms', '_bonds'):
                if base[0] == 'R':
                    return ('R', node.attr)
                if base[0] == 'F':
                    return ('F', base[1], node.attr)
                return base
            return base
        if isinstance(node, ast.Subscript):
            return self.owner_of(ctx, node.value, seen)
        if isinstance(node, ast.Call):
            f = node.func
            if isinstance(f, ast.Attribute):
                if f.attr in ('copy', '__class__') and self.owner_of(ctx, f.value, set(seen))[0] in ('R', 'F') and \
                        isinstance(f.value, ast.Name):
                    return ('F', None)  # fresh container; variable name filled in by the Name case
                if f.attr in ('items', 'values', 'keys', 'get', 'pop', 'atoms', 'bonds', 'atom', 'bond', 'popitem'):
                    o = self.owner_of(ctx, f.value, seen)
                    if f.attr in ('atoms', 'atom') and o[0] in ('R', 'F') and o[-1] is None:
                        return o[:-1] + ('_atoms',)
                    if f.attr in ('bonds', 'bond') and o[0] in ('R', 'F') and o[-1] is None:
                        return o[:-1] + ('_bonds',)
                    return o
                if f.attr in ('substructure', 'union', 'split'):
                    return ('F', None)
            if isinstance(f, ast.Name):
                if f.id in ('iter', 'next', 'list', 'tuple', 'sorted', 'reversed', 'enumerate', 'zip', 'set'):
                    for a in node.args:
                        o = self.owner_of(ctx, a, seen)
                        if o[0] in ('R', 'F'):
                            return o
                    return ('L',)
                if f.id in ('dict', 'defaultdict', 'deque', 'Counter', 'len', 'sum', 'min', 'max', 'range'):
                    return ('L',)
            if isinstance(f, ast.Attribute) and f.attr == '__new__' or isinstance(f, ast.Call):
                return ('F', None)
            return ('U',)
        if isinstance(node, (ast.Dict, ast.DictComp, ast.List, ast.ListComp, ast.Set, ast.SetComp, ast.Tuple,
                             ast.Constant, ast.GeneratorExp, ast.BinOp, ast.JoinedStr)):
            # a comprehension over receiver objects still yields receiver objects
            if isinstance(node, (ast.ListComp, ast.SetComp, ast.GeneratorExp)):
                o = self.owner_of(ctx, node.elt, seen) if isinstance(node.elt, (ast.Name, ast.Subscript, ast.Attribute)) else ('L',)
                if o[0] in ('R', 'F'):
                    return o
                for g in node.generators:
                    o = self.owner_of(ctx, g.iter, seen)
                    if o[0] in ('R', 'F') and isinstance(node.elt, ast.Name):
                        return o
            return ('L',)
        if isinstance(node, ast.IfExp):
            a = self.owner_of(ctx, node.body, seen)
            return a if a[0] in ('R', 'F') else self.owner_of(ctx, node.orelse, seen)
        if isinstance(node, ast.NamedExpr):
            return self.owner_of(ctx, node.value, seen)
        if isinstance(node, ast.Starred):
            return self.owner_of(ctx, node.value, seen)
        return ('U',)

    def owner_label(self, ctx, o):
        """obligation owner label, or None when the object is not tracked"""
        if o[0] == 'R':
            return ctx.recv
        if o[0] == 'F' and o[1] is not None:
            return f'F:{ctx.func.qualname}:{o[1]}'
        if o[0] == 'U':
            # conservative: objects of unknown provenance inside a mutator belong to the receiver
            return ctx.recv if ctx.recv != 'NONE' else None
        return None

    # ----------------------------------------------------------------------------------------------------------
    # the walk
    # ----------------------------------------------------------------------------------------------------------
    def analyse_entry(self, func, cls=None, bind=None):
        """configurations at the normal exits of an entry point; reports accumulate in self.reports"""
        cls = cls or self.container
        b = self.default_bind(func, entry=True)
        if bind:
            b.update(bind)
        recv = 'SELF'
        if any(d in ('classmethod', 'staticmethod') for d in func.decorators):
            recv = 'NONE'  # no receiver: objects of unknown provenance are not ours
        ctx = Ctx(func, cls, recv, b, 0, (func.fq,))
        ctx.aliases = self.build_aliases(func)
        start = frozenset([(frozenset(), frozenset())])
        exits = set()
        self.visited_funcs.add(func.fq)
        if not self.may_affect(func, cls):
            return exits
        self._names = self.interesting_names(func)
        self._loop_exits = []
        out = self.walk_body(ctx, strip_doc(func.node.body), start, exits, top=True)
        exits |= {('end', func.node.end_lineno, c, None) for c in out}
        return exits

    def default_bind(self, func, entry):
        bind = {}
        a = func.node.args
        pos = a.posonlyargs + a.args
        defaults = [None] * (len(pos) - len(a.defaults)) + list(a.defaults)
        for p, d in list(zip(pos, defaults)) + list(zip(a.kwonlyargs, a.kw_defaults)):
            if d is None:
                continue
            if isinstance(d, ast.Constant) and (not entry or p.arg in PROTOCOL_FLAGS):
                bind[p.arg] = d.value
        return bind

    def static_test(self, ctx, test, facts):
        """True / False / None (unknown) under the bindings and facts"""
        test = norm_len(test)
        if isinstance(test, ast.Constant):
            return bool(test.value)
        if isinstance(test, ast.Name):
            if test.id in ctx.bind:
                return bool(ctx.bind[test.id])
            if ('T', test.id) in facts or ('N', test.id) in facts:
                return True
            if ('F', test.id) in facts or ('E', test.id) in facts:
                return False
            return None
        if isinstance(test, ast.UnaryOp) and isinstance(test.op, ast.Not):
            v = self.static_test(ctx, test.operand, facts)
            return None if v is None else not v
        if isinstance(test, ast.BoolOp):
            vals = [self.static_test(ctx, v, facts) for v in test.values]
            if isinstance(test.op, ast.And):
                if any(v is False for v in vals):
                    return False
                return True if all(v is True for v in vals) else None
            if any(v is True for v in vals):
                return True
            return False if all(v is False for v in vals) else None
        if isinstance(test, ast.Compare) and len(test.ops) == 1:
            l, r = test.left, test.comparators[0]
            if src(l) == 'self._backup' and isinstance(r, ast.Constant) and r.value is None and ctx.recv == 'SELF':
                # entry assumption: not inside a `with mol:` transaction (deferred work is __exit__'s obligation)
                return isinstance(test.ops[0], ast.Is)
            if isinstance(l, ast.Name) and l.id in ctx.bind and isinstance(r, ast.Constant):
                lv, rv = ctx.bind[l.id], r.value
                op = test.ops[0]
                if isinstance(op, ast.Is):
                    return lv is rv
                if isinstance(op, ast.IsNot):
                    return lv is not rv
                if isinstance(op, ast.Eq):
                    return lv == rv
                if isinstance(op, ast.NotEq):
                    return lv != rv
        if isinstance(test, ast.NamedExpr):
            return None
        return None

    def refine(self, test, facts, branch):
        """facts learnt from taking `branch` of `test`"""
        add = set()
        drop_ne8 = set()
        t = norm_len(test)
        neg = False
        while isinstance(t, ast.UnaryOp) and isinstance(t.op, ast.Not):
            t = t.operand
            neg = not neg
        truth = branch != neg
        t = _norm8(t)
        while isinstance(t, ast.UnaryOp) and isinstance(t.op, ast.Not):
            t = t.operand
            truth = not truth
        # disjunction of `X == 8` tests: false branch => every X != 8
        parts = t.values if isinstance(t, ast.BoolOp) and isinstance(t.op, ast.Or) else [t]
        eq8 = []
        for p in parts:
            if isinstance(p, ast.Compare) and len(p.ops) == 1 and isinstance(p.ops[0], ast.Eq) and \
                    isinstance(p.comparators[0], ast.Constant) and p.comparators[0].value == 8 and isinstance(p.left, ast.Name):
                eq8.append(p.left.id)
            else:
                eq8 = None
                break
        if eq8 and not truth:
            for x in eq8:
                add.add(('ne8', x))
        if isinstance(t, ast.Compare) and len(t.ops) == 1 and isinstance(t.ops[0], ast.NotEq) and \
                isinstance(t.comparators[0], ast.Constant) and t.comparators[0].value == 8 and isinstance(t.left, ast.Name) and truth:
            add.add(('ne8', t.left.id))
        if isinstance(t, ast.Name):
            # witness collections / boolean locals
            add.add(('N' if truth else 'E', t.id))
        return add

    def walk_body(self, ctx, body, configs, exits, top=False):
        for st in body:
            if not configs:
                break
            configs = self.walk_stmt(ctx, st, configs, exits)
            if not isinstance(st, ast.Assign):
                configs = self.bind_ret(configs, None)
            configs = merge(configs)
            if len(configs) > MAX_CONFIGS:
                raise AnalysisError(f'{ctx.func.fq}: configuration explosion ({len(configs)})')
        return configs

    def add_fact(self, facts, *new):
        f = set(facts)
        for kind, name in new:
            if self._names is not None and name not in self._names:
                continue
            for k in ('N', 'E', 'T', 'F'):
                f.discard((k, name))
            f.add((kind, name))
        return frozenset(f)

    def kill_name(self, facts, name):
        return frozenset(x for x in facts if x[1] != name)

    def walk_stmt(self, ctx, st, configs, exits):
        if isinstance(st, (ast.FunctionDef, ast.AsyncFunctionDef, ast.ClassDef, ast.Import, ast.ImportFrom, ast.Pass,
                           ast.Global, ast.Nonlocal)):
            return configs
        if isinstance(st, ast.Expr):
            if isinstance(st.value, (ast.Yield, ast.YieldFrom)):
                configs = self.eval_expr(ctx, st.value.value, configs, exits) if st.value.value is not None else configs
                self.at_exit(ctx, 'yield', st, configs, exits, value=st.value.value)
                return configs
            return self.eval_expr(ctx, st.value, configs, exits, stmt=st)
        if isinstance(st, ast.Return):
            if st.value is not None:
                configs = self.eval_expr(ctx, st.value, configs, exits)
            self.at_exit(ctx, 'return', st, configs, exits, value=st.value)
            return frozenset()
        if isinstance(st, ast.Raise):
            return frozenset()
        if isinstance(st, (ast.Continue, ast.Break)):
            if self._loop_exits:
                self._loop_exits[-1][1 if isinstance(st, ast.Break) else 0].update(configs)
            return frozenset()
        if isinstance(st, ast.Assign):
            configs = self.eval_expr(ctx, st.value, configs, exits)
            ret_to = st.targets[0].id if len(st.targets) == 1 and isinstance(st.targets[0], ast.Name) and \
                isinstance(st.value, ast.Call) else None
            for t in st.targets:
                configs = self.store(ctx, t, st.value, configs, st)
            return self.bind_ret(configs, ret_to)
        if isinstance(st, ast.AnnAssign):
            if st.value is not None:
                configs = self.eval_expr(ctx, st.value, configs, exits)
                configs = self.store(ctx, st.target, st.value, configs, st)
            return configs
        if isinstance(st, ast.AugAssign):
            configs = self.eval_expr(ctx, st.value, configs, exits)
            return self.store(ctx, st.target, st.value, configs, st, aug=True)
        if isinstance(st, ast.Delete):
            for t in st.targets:
                if isinstance(t, ast.Subscript) and src(t.value) == 'self.__dict__' and isinstance(t.slice, ast.Constant) and ctx.recv == 'SELF':
                    configs = self.drop_cached(configs, {t.slice.value})
                configs = self.store(ctx, t, None, configs, st, delete=True)
            return configs
        if isinstance(st, ast.If):
            configs = self.eval_expr(ctx, st.test, configs, exits)
            out = set()
            t_in, f_in = set(), set()
            for pend, facts in configs:
                v = self.static_test(ctx, st.test, facts)
                if v is not False:
                    t_in.add((pend, self.apply_refine(st.test, facts, True)))
                if v is not True:
                    f_in.add((pend, self.apply_refine(st.test, facts, False)))
            if t_in:
                out |= self.walk_body(ctx, st.body, frozenset(self.drop_is8(t_in)), exits)
            if f_in:
                out |= self.walk_body(ctx, st.orelse, frozenset(self.drop_is8(f_in)), exits)
            return frozenset(out)
        if isinstance(st, (ast.For, ast.AsyncFor, ast.While)):
            return self.walk_loop(ctx, st, configs, exits)
        if isinstance(st, ast.Try):
            body_out = self.walk_body(ctx, st.body, configs, exits)
            out = set(self.walk_body(ctx, st.orelse, body_out, exits)) if st.orelse else set(body_out)
            # a handler can start from any point of the body: approximate by entry and exit configurations
            h_in = frozenset(set(configs) | set(body_out))
            for h in st.handlers:
                out |= self.walk_body(ctx, h.body, h_in, exits)
            out = frozenset(out)
            if st.finalbody:
                out = self.walk_body(ctx, st.finalbody, out, exits)
            return out
        if isinstance(st, (ast.With, ast.AsyncWith)):
            for it in st.items:
                configs = self.eval_expr(ctx, it.context_expr, configs, exits)
            return self.walk_body(ctx, st.body, configs, exits)
        if isinstance(st, ast.Assert):
            return configs
        if isinstance(st, ast.Match):
            out = set()
            for c in st.cases:
                out |= self.walk_body(ctx, c.body, configs, exits)
            return frozenset(out | set(configs))
        raise AnalysisError(f'{ctx.func.fq}:{st.lineno}: statement kind {type(st).__name__} not handled by the walk')

    _loop_exits = []
    _names = None

    def bind_ret(self, configs, name):
        """the truthiness of an inlined callee's constant return value becomes a fact about the assigned local"""
        out = set()
        for pend, facts in configs:
            ret = [x for x in facts if x[1] == '<ret>']
            if ret:
                facts = frozenset(x for x in facts if x[1] != '<ret>')
                if name is not None and (self._names is None or name in self._names):
                    facts = frozenset(set(facts) | {(ret[0][0], name)})
            out.add((pend, facts))
        return frozenset(out)

    def apply_refine(self, test, facts, branch):
        new = self.refine(test, facts, branch)
        f = facts
        for k, name in new:
            if k == 'ne8':
                f = frozenset(set(f) | {(k, name)})
            elif not any(x[1] == name and x[0] in ('T', 'F') for x in f):
                f = self.add_fact(f, (k, name))
        return f

    def drop_is8(self, configs):
        """IS8 obligations tagged with a variable now known != 8 disappear"""
        out = set()
        for pend, facts in configs:
            ne8 = {n for k, n in facts if k == 'ne8'}
            if ne8:
                pend = frozenset(o for o in pend if not (o[1] == 'IS8' and o[4] in ne8))
            out.add((pend, facts))
        return out

    def walk_loop(self, ctx, st, configs, exits):
        if isinstance(st, ast.While):
            configs = self.eval_expr(ctx, st.test, configs, exits)
            iter_name = None
        else:
            configs = self.eval_expr(ctx, st.iter, configs, exits)
            iter_name = st.iter.id if isinstance(st.iter, ast.Name) else \
                st.iter.func.value.id if isinstance(st.iter, ast.Call) and isinstance(st.iter.func, ast.Attribute) and \
                isinstance(st.iter.func.value, ast.Name) and st.iter.func.attr in ('items', 'values', 'keys') else None
        self._loop_exits = self._loop_exits + [(set(), set())]  # (continue, break)
        seen = set(configs)
        frontier = set(configs)
        after_body = set()
        zero = set(configs)
        if iter_name is not None:
            # a collection known to be non-empty iterates at least once
            zero = {c for c in configs if ('N', iter_name) not in c[1]}
        if not isinstance(st, ast.While) and self.iter_over_receiver(ctx, st.iter):
            zero = set()  # an empty molecule has nothing to keep coherent
        rounds = 0
        while frontier:
            rounds += 1
            if rounds > 12:
                raise AnalysisError(f'{ctx.func.fq}:{st.lineno}: loop fixpoint not reached')
            entry = set()
            for pend, facts in frontier:
                f = facts
                if isinstance(st, ast.While):
                    v = self.static_test(ctx, st.test, f)
                    if v is False:
                        continue
                    f = self.apply_refine(st.test, f, True)
                else:
                    # loop targets are re-bound: facts about them die
                    for n in ast.walk(st.target):
                        if isinstance(n, ast.Name):
                            f = self.kill_name(f, n.id)
                    if iter_name is not None:
                        if ('E', iter_name) in f:
                            continue  # provably empty: body does not run
                        f = self.add_fact(f, ('N', iter_name))
                entry.add((pend, f))
            out = self.walk_body(ctx, st.body, merge(frozenset(entry)), exits)
            cont, brk = self._loop_exits[-1]
            out = set(merge(frozenset(set(out) | cont)))
            cont.clear()
            # widen: join with what was already seen for the same facts so the chain is monotone
            seen_by_facts = {}
            for p, f in seen:
                seen_by_facts[f] = seen_by_facts.get(f, frozenset()) | p
            new = set()
            for p, f in out:
                old = seen_by_facts.get(f)
                if old is None or not p <= old:
                    new.add(((old or frozenset()) | p, f))
            after_body |= out
            frontier = new
            seen |= new
        cont, brk = self._loop_exits[-1]
        self._loop_exits = self._loop_exits[:-1]
        normal = set(after_body) | zero
        if isinstance(st, ast.While):
            normal = {(p, self.apply_refine(st.test, f, False)) for p, f in normal
                      if self.static_test(ctx, st.test, f) is not True} if not _is_true(st.test) else set()
        if st.orelse:
            normal = set(self.walk_body(ctx, st.orelse, frozenset(normal), exits))
        return frozenset(normal | brk)

    def iter_over_receiver(self, ctx, it):
        for n in ast.walk(it):
            if isinstance(n, ast.Attribute) and n.attr in ('_atoms', '_bonds') or \
                    isinstance(n, ast.Call) and isinstance(n.func, ast.Attribute) and n.func.attr in ('atoms', 'bonds') and \
                    isinstance(n.func.value, ast.Name) and n.func.value.id == 'self':
                return True
            if isinstance(n, ast.Name) and n.id != 'self':
                o = self.owner_of(ctx, n)
                if o[0] in ('R', 'F') and o[-1] in ('_atoms', '_bonds'):
                    return True
        return False

    # -- expression evaluation: calls and walrus ----------------------------------------------------------------
    def cached_read_sets(self):
        if getattr(self, '_cached_reads', None) is None:
            reg = self.repo.cache_registry(self.container)
            self._cached_reads = {}
            for key, f in reg.items():
                if f.cache_kind == 'cached_property':
                    cats = self.reads(f)
                    cats.discard('ORDER?')
                    # hash(atom) / hash(bond) read everything the __hash__ of Element / Bond hashes
                    if self._hashes_state(f, set()):
                        cats |= {'CHARGE', 'RADICAL', 'ISOTOPE', 'HCOUNT', 'ORDER'}
                    self._cached_reads[f.name] = (key, cats)
        return self._cached_reads

    def _hashes_state(self, func, seen):
        if func in seen:
            return False
        seen.add(func)
        for n in ast.walk(func.node):
            if isinstance(n, ast.Call) and isinstance(n.func, ast.Name) and n.func.id == 'hash':
                return True
            if isinstance(n, ast.Attribute) and isinstance(n.value, ast.Name) and n.value.id == 'self':
                g = self.repo.lookup(self.container, n.attr)
                if g is not None and g is not func and self._hashes_state(g, seen):
                    return True
        return False

    def check_stale_reads(self, ctx, node, configs):
        """a cached value of the receiver read while raw writes it depends on are still unflushed (and the key was not dropped explicitly since)"""
        cr = self.cached_read_sets()
        for n in ast.walk(node):
            if isinstance(n, (ast.Lambda, ast.FunctionDef)):
                continue
            if isinstance(n, ast.Attribute) and isinstance(n.value, ast.Name) and n.value.id == 'self' and isinstance(n.ctx, ast.Load) and n.attr in cr:
                key, cats = cr[n.attr]
                for pend, facts in configs:
                    if ('POPPED', key) in facts:
                        continue
                    hit = [o for o in pend if o[2] == ctx.recv and o[0] == 'FLUSH' and o[1] in cats]
                    if hit:
                        self.stale_reads.append((ctx.stack[0], ctx.func.fq, n.attr, getattr(n, 'lineno', 0), tuple(sorted({o[1] for o in hit})), hit[0][3]))
                        break

    def mark_filled(self, ctx, node, configs):
        """reading a cached property of the receiver leaves its value in the cache: fact ('FILLED', key). A later raw write the value depends on
        turns it into ('DIRTY', key, origin) (see write()); dropping the key or a flush that does not keep it clears both. DIRTY at a normal exit =
        the method leaves behind a cache entry computed for a state that no longer exists"""
        if ctx.recv != 'SELF':
            return configs
        cr = self.cached_read_sets()
        keys = set()
        for n in ast.walk(node):
            if isinstance(n, ast.Attribute) and isinstance(n.value, ast.Name) and n.value.id == 'self' and isinstance(n.ctx, ast.Load) and n.attr in cr:
                keys.add(cr[n.attr][0])
        if not keys:
            return configs
        out = set()
        for pend, facts in configs:
            f = set(facts)
            for k in keys:
                if not any(x[0] == 'DIRTY' and x[1][0] == k for x in f):
                    f.add(('FILLED', k))
            out.add((pend, frozenset(f)))
        return frozenset(out)

    def drop_cached(self, configs, keys=None, keep=()):
        """forget FILLED / DIRTY facts for the given keys (None = every key not in `keep`)"""
        out = set()
        for pend, facts in configs:
            out.add((pend, frozenset(x for x in facts if not (x[0] in ('FILLED', 'DIRTY') and (
                _ck(x) in keys if keys is not None else _ck(x) not in keep)))))
        return frozenset(out)

    def eval_expr(self, ctx, node, configs, exits, stmt=None):
        if node is None:
            return configs
        if configs and getattr(self, 'track_stale_reads', False):
            self.check_stale_reads(ctx, node, configs)
            configs = self.mark_filled(ctx, node, configs)
        calls = []
        self._collect_calls(node, calls)
        for c in calls:
            configs = self.do_call(ctx, c, configs, exits)
            if not configs:
                break
        for n in ast.walk(node):
            if isinstance(n, ast.NamedExpr) and isinstance(n.target, ast.Name):
                configs = frozenset((p, self.kill_name(f, n.target.id)) for p, f in configs)
        return configs

    def _collect_calls(self, node, out):
        """calls in evaluation order (arguments before the call itself); lambdas / nested defs skipped"""
        if isinstance(node, (ast.Lambda, ast.FunctionDef, ast.AsyncFunctionDef)):
            return
        for ch in ast.iter_child_nodes(node):
            self._collect_calls(ch, out)
        if isinstance(node, ast.Call):
            out.append(node)

    def nested_call(self, ctx, call, configs):
        """a call of a closure defined inside the current function (`def apply_rules(rules): ...` + `apply_rules(x)`): its body runs in the
        caller's scope; parameters are replaced by the argument expressions (result of an "extract local function" refactoring)"""
        import copy as _copy
        nd = None
        for n in ast.walk(ctx.func.node):
            if isinstance(n, (ast.FunctionDef,)) and n is not ctx.func.node and n.name == call.func.id:
                nd = n
        active = getattr(ctx, 'nested_active', None)
        if active is None:
            active = ctx.nested_active = set()
        if nd is None or nd.name in active or nd.args.vararg or nd.args.kwarg or call.keywords or len(call.args) != len(nd.args.args):
            return None
        m = {a.arg: v for a, v in zip(nd.args.args, call.args)}

        class S(ast.NodeTransformer):
            def visit_Name(self, node):
                if node.id in m and isinstance(node.ctx, ast.Load):
                    return _copy.deepcopy(m[node.id])
                return node
        body = [S().visit(_copy.deepcopy(st)) for st in strip_doc(nd.body)]
        for st in body:
            ast.fix_missing_locations(st)
        sub_exits = set()
        saved = self._loop_exits
        self._loop_exits = []
        active.add(nd.name)
        try:
            end = self.walk_body(ctx, body, configs, sub_exits)
        finally:
            active.discard(nd.name)
            self._loop_exits = saved
        out = set(end)
        for kind, _, c, rv in sub_exits:
            if kind in ('return', 'end') and c is not None:
                out.add(c)
        return frozenset(out)

    def do_call(self, ctx, call, configs, exits):
        f = call.func
        if isinstance(f, ast.Attribute) and f.attr == 'pop' and src(f.value) == 'self.__dict__' and call.args and isinstance(call.args[0], ast.Constant):
            k = call.args[0].value
            configs = self.drop_cached(configs, {k})
            return frozenset((p, frozenset(set(fa) | {('POPPED', k)})) for p, fa in configs)
        if isinstance(f, ast.Name):
            r = self.nested_call(ctx, call, configs)
            return configs if r is None else r
        if not isinstance(f, ast.Attribute):
            return configs
        name = f.attr
        # witness updates on local collections: hs.add(n), explicit[m].append(n)
        if name in WITNESS_ADD:
            root = f.value
            while isinstance(root, ast.Subscript):
                root = root.value
            if isinstance(root, ast.Name) and root.id != 'self':
                o = self.owner_of(ctx, root)
                if o[0] in ('L', 'U', 'P'):
                    return frozenset((p, self.add_fact(fa, ('N', root.id))) for p, fa in configs)
        if name in WITNESS_DEL:
            root = f.value
            while isinstance(root, ast.Subscript):
                root = root.value
            if isinstance(root, ast.Name) and root.id != 'self':
                o = self.owner_of(ctx, root)
                if o[0] in ('L', 'U', 'P'):
                    configs = frozenset((p, frozenset(x for x in fa if not (x[1] == root.id and x[0] in ('N', 'E')))) for p, fa in configs)
        # receiver
        recv_expr = f.value
        if isinstance(recv_expr, ast.Call) and isinstance(recv_expr.func, ast.Name) and recv_expr.func.id == 'super':
            owner, start_after = ctx.recv, ctx.func.cls
        else:
            o = self.owner_of(ctx, recv_expr)
            if isinstance(recv_expr, ast.Name) and recv_expr.id == 'self':
                owner = ctx.recv
            elif o[0] == 'F' and o[-1] is None and isinstance(recv_expr, ast.Name):
                owner = f'F:{ctx.func.qualname}:{o[1]}'
            else:
                # raw dict mutation through a method on an alias of _atoms/_bonds: bonds.pop(n), atoms.clear()
                if name in ('pop', 'clear', 'popitem', 'update', 'setdefault') and o[0] in ('R', 'F') and o[-1] in ('_atoms', '_bonds'):
                    lab = self.owner_label(ctx, o)
                    if lab is not None:
                        cat = 'ATOMS' if o[-1] == '_atoms' else 'TOPO'
                        return self.write(ctx, configs, cat, lab, call, None)
                return configs
            start_after = None
        self.call_sites += 1
        kw = {}
        for k in call.keywords:
            if k.arg is not None:
                kw[k.arg] = k.value
        # primitives ------------------------------------------------------------------------------------------
        if name == 'flush_cache':
            return self.prim_flush(ctx, owner, kw, configs)
        if name == 'calc_labels':
            return self.relabel(configs, owner)
        if name == 'calc_implicit':
            return self.discharge(configs, owner, ('HYDRO',))
        if name == 'fix_stereo':
            return self.revalidate_stereo(configs, owner)
        if name == 'flush_stereo_cache':
            return configs
        target = self.repo.lookup(ctx.cls, name, after=start_after)
        if target is None:
            return configs
        if target.is_property and not start_after:
            return configs
        return self.inline(ctx, target, owner, call, kw, configs, exits)

    def inline(self, ctx, target, owner, call, kw, configs, exits):
        if not self.may_affect(target, ctx.cls):
            return configs
        if ctx.depth >= MAX_DEPTH or target.fq in ctx.stack:
            self.unresolved.add(f'{ctx.func.fq} -> {target.fq} (recursion/depth cut)')
            return configs
        bind = self.default_bind(target, entry=False)
        # positional arguments
        a = target.node.args
        pos = [p.arg for p in a.posonlyargs + a.args][1:]  # drop self
        for p, v in zip(pos, call.args):
            bind.pop(p, None)
            if isinstance(v, ast.Constant):
                bind[p] = v.value
            elif isinstance(v, ast.Name) and v.id in ctx.bind:
                bind[p] = ctx.bind[v.id]
        for k, v in kw.items():
            bind.pop(k, None)
            if isinstance(v, ast.Constant):
                bind[k] = v.value
            elif isinstance(v, ast.Name) and v.id in ctx.bind:
                bind[k] = ctx.bind[v.id]
        if any(k.arg is None for k in call.keywords):  # **kwargs: unknown
            for p in list(bind):
                if p not in kw:
                    bind.pop(p)
        sub = Ctx(target, ctx.cls, owner, bind, ctx.depth + 1, ctx.stack + (target.fq,))
        sub.aliases = self.build_aliases(target)
        self.visited_funcs.add(target.fq)
        out = set()
        key_base = (target.fq, owner, tuple(sorted((k, repr(v)) for k, v in bind.items())))
        for pend, facts in configs:
            # callee-local facts are separate; caller facts are restored afterwards
            mk = (key_base, pend)
            if mk in self.memo:
                res = self.memo[mk]
            else:
                sub_exits = set()
                saved = self._loop_exits, self._names
                self._loop_exits = []
                self._names = self.interesting_names(target)
                end = self.walk_body(sub, strip_doc(target.node.body), frozenset([(pend, frozenset())]), sub_exits)
                self._loop_exits, self._names = saved
                res = {(c[0], None) for c in end}
                for kind, _, c, rv in sub_exits:
                    if kind in ('return', 'end') and c is not None:
                        res.add((c[0], rv))
                self.memo[mk] = res
            for p, rv in res:
                # obligations of callee-local fresh objects do not outlive the activation
                p = frozenset(o for o in p if not o[2].startswith(f'F:{target.qualname}:'))
                f2 = frozenset(x for x in facts if x[1] != '<ret>')
                if rv is not None:
                    f2 = frozenset(set(f2) | {('T' if rv else 'F', '<ret>')})
                out.add((p, f2))
        return frozenset(out)

    # -- primitives -------------------------------------------------------------------------------------------------
    RING_CATS = ('ATOMS', 'TOPO', 'IS8')

    def relabel(self, configs, owner):
        """calc_labels reads the ring caches: labels recomputed while a ring-affecting write is still unflushed are computed
        from stale rings, so such writes keep their LABELS obligation (ordering part of the cache-content argument)"""
        out = set()
        for pend, facts in configs:
            stale_origins = {o[3] for o in pend if o[2] == owner and o[0] in ('FLUSH', 'KEEP') and o[1] in self.RING_CATS}
            out.add((frozenset(o for o in pend if not (o[2] == owner and o[0] == 'LABELS' and o[3] not in stale_origins)), facts))
        return frozenset(out)

    def revalidate_stereo(self, configs, owner):
        """fix_stereo reads orders, rings and stereogenic sets through the cache: it only counts for writes already flushed"""
        out = set()
        for pend, facts in configs:
            stale_origins = {o[3] for o in pend if o[2] == owner and o[0] in ('FLUSH', 'KEEP') and o[1] != 'STEREO'}
            out.add((frozenset(o for o in pend if not (o[2] == owner and o[0] == 'STEREO' and o[3] not in stale_origins)), facts))
        return frozenset(out)

    def discharge(self, configs, owner, dims, cats=None):
        out = set()
        for pend, facts in configs:
            out.add((frozenset(o for o in pend if not (o[2] == owner and o[0] in dims and (cats is None or o[1] in cats))), facts))
        return frozenset(out)

    def prim_flush(self, ctx, owner, kw, configs):
        out = set()
        if not hasattr(self, 'keep_flags_of'):
            self.keep_flags_of = {}
        mol = ctx.cls is self.container
        for pend, facts in configs:
            kept_cats = set()
            self.active_keep_flags = set()
            if mol:
                for flag in ('keep_sssr', 'keep_components'):
                    v = kw.get(flag)
                    if v is None:
                        continue
                    if isinstance(v, ast.Constant):
                        val = bool(v.value)
                    elif isinstance(v, ast.Name):
                        if v.id in ctx.bind:
                            val = bool(ctx.bind[v.id])
                        elif ('F', v.id) in facts:
                            val = False
                        else:
                            val = True  # may keep
                    else:
                        val = True
                    if val:
                        kept_cats |= self.kept_reads[flag]
                        self.active_keep_flags.add(flag)
            new = set()
            for o in pend:
                if o[2] == owner and o[0] == 'FLUSH':
                    if o[1] not in kept_cats:
                        continue  # flushed
                    k = ('KEEP',) + o[1:]  # survives: a keep-list problem from here on
                    why = self.keep_exempt(ctx.stack[0].split(':')[1], k) if self.keep_exempt else None
                    if why is not None:
                        self.exempted[(ctx.stack[0], 'KEEP', o[1], o[3])] = why
                        continue
                    # remember under which flags this survived: the reporting stage must not re-exempt it by a flag-blind table row
                    self.keep_flags_of.setdefault(('KEEP', o[1], o[3]), set()).update(self.active_keep_flags)
                    new.add(k)
                else:
                    new.add(o)
            new = frozenset(new)
            if owner == 'SELF' and mol:
                kept_keys = {k for fl in self.active_keep_flags for k in self.kept.get(fl, ())}
                facts = frozenset(x for x in facts if not (x[0] in ('FILLED', 'DIRTY') and _ck(x) not in kept_keys))
            out.add((new, facts))
        return frozenset(out)

    # -- stores -------------------------------------------------------------------------------------------------------
    def write(self, ctx, configs, cat, owner, node, rhs, tag=None):
        origin = (ctx.func.fq, getattr(node, 'lineno', 0), ' '.join(src(node).split())[:120])
        self.write_sites.add((ctx.func.fq, origin[1], cat))
        self.entry_writes.setdefault(ctx.stack[0], set()).add((ctx.func.fq, origin[1], cat))
        out = set()
        fresh = owner.startswith('F:')
        for pend, facts in configs:
            p = set(pend)
            cats = [cat]
            if cat == 'ORDER':
                new8 = True
                if isinstance(rhs, ast.Constant):
                    new8 = rhs.value == 8
                elif isinstance(rhs, ast.Name) and ('ne8', rhs.id) in facts:
                    new8 = False
                elif isinstance(rhs, ast.BinOp):  # order +- 1 arithmetic never yields 8 from 1..4
                    new8 = False
                if new8 and ctx.func.qualname in self.is8_free:
                    self.exempted[(ctx.stack[0], 'KEEP', 'IS8', origin)] = self.is8_free[ctx.func.qualname]
                    new8 = False
                if new8:
                    cats.append('IS8')
                tag = rhs.id if isinstance(rhs, ast.Name) else None
            for c in cats:
                for dim in TRIGGERS[c]:
                    if fresh and dim in ('FLUSH', 'STEREO'):
                        continue  # a fresh copy holds only kept ring keys; stereo of fresh objects is the consumer's
                    if fresh and dim == 'FLUSH':
                        continue
                    p.add((dim, c, owner, origin, tag if c == 'IS8' else None))
            if cat == 'HCOUNT':
                # an explicit hydrogen count is itself the hydrogen recomputation
                p = {o for o in p if not (o[0] == 'HYDRO' and o[2] == owner)}
            if owner == 'SELF' and getattr(self, 'track_stale_reads', False) and any(x[0] == 'FILLED' for x in facts):
                by_key = {v[0]: v[1] for v in self.cached_read_sets().values()}
                facts = frozenset(('DIRTY', (x[1], origin)) if x[0] == 'FILLED' and set(cats) & by_key.get(x[1], set()) else x for x in facts)
            out.add((frozenset(p), facts))
        return frozenset(out)

    def store(self, ctx, target, value, configs, st, aug=False, delete=False):
        if isinstance(target, (ast.Tuple, ast.List)):
            for e in target.elts:
                configs = self.store(ctx, e, None, configs, st)
            return configs
        if isinstance(target, ast.Starred):
            return self.store(ctx, target.value, None, configs, st)
        if isinstance(target, ast.Name):
            name = target.id
            out = set()
            for pend, facts in configs:
                f = self.kill_name(facts, name)
                if not aug and value is not None:
                    if isinstance(value, ast.Constant) and isinstance(value.value, bool):
                        f = self.add_fact(f, ('T' if value.value else 'F', name))
                    elif isinstance(value, ast.Constant) and value.value in (0, None):
                        f = self.add_fact(f, ('E', name))
                    elif _is_empty_collection(value):
                        f = self.add_fact(f, ('E', name))
                elif aug:
                    f = self.add_fact(f, ('N', name))
                out.add((pend, f))
            return frozenset(out)
        if isinstance(target, ast.Attribute):
            attr = target.attr
            if isinstance(target.value, ast.Name) and target.value.id == 'self' or self.owner_of(ctx, target.value)[0] == 'F' \
                    and isinstance(target.value, ast.Name):
                # container field stores
                o = self.owner_of(ctx, target.value)
                if o[0] != 'R':
                    return configs  # field stores on a fresh container are construction (rule B4), not mutation
                lab = ctx.recv
                if lab == 'NONE':
                    return configs
                if attr == '_atoms' and lab:
                    if value is not None and isinstance(value, ast.Attribute) and value.attr == '_atoms':
                        for c in ('CHARGE', 'RADICAL', 'ISOTOPE', 'HCOUNT', 'STEREO'):
                            configs = self.write(ctx, configs, c, lab, st, None)
                        return configs
                    return self.write(ctx, configs, 'ATOMS', lab, st, None)
                if attr == '_bonds' and lab:
                    configs = self.write(ctx, configs, 'TOPO', lab, st, None)
                    return self.write(ctx, configs, 'ORDER', lab, st, None)
                if attr == '__dict__':
                    return configs
                return configs
            if attr in STATE_ATTRS:
                if attr in ('x', 'y', 'xy', 'charge', 'is_radical', 'isotope') and not self._is_atom_expr(ctx, target.value):
                    return configs
                o = self.owner_of(ctx, target.value)
                lab = self.owner_label(ctx, o)
                if lab is None:
                    return configs
                return self.write(ctx, configs, STATE_ATTRS[attr], lab, st, value)
            return configs
        if isinstance(target, ast.Subscript):
            o = self.owner_of(ctx, target.value)
            if o[0] in ('R', 'F') and o[-1] in ('_atoms', '_bonds'):
                lab = self.owner_label(ctx, o)
                if lab is not None:
                    # bonds[n][m] = Bond(..) / del bonds[n][m] / atoms[n] = ..
                    configs = self.write(ctx, configs, 'ATOMS' if o[-1] == '_atoms' else 'TOPO', lab, st, None)
                    if o[-1] == '_bonds' and not delete:
                        configs = self.write(ctx, configs, 'ORDER', lab, st, None)
                    return configs
            # witness: fixed[n] = h on a local dict
            root = target.value
            while isinstance(root, ast.Subscript):
                root = root.value
            if isinstance(root, ast.Name) and o[0] in ('L', 'U', 'P'):
                if delete:
                    return frozenset((p, frozenset(x for x in f if not (x[1] == root.id and x[0] in ('N', 'E')))) for p, f in configs)
                return frozenset((p, self.add_fact(f, ('N', root.id))) for p, f in configs)
            return configs
        return configs

    def _is_atom_expr(self, ctx, node):
        o = self.owner_of(ctx, node)
        return o[0] in ('R', 'F') and o[-1] == '_atoms'

    # -- exits ----------------------------------------------------------------------------------------------------------
    def at_exit(self, ctx, kind, st, configs, exits, value=None):
        rv = None
        if kind == 'return':
            if value is None:
                rv = False
            elif isinstance(value, ast.Constant):
                rv = bool(value.value)
            elif isinstance(value, (ast.List, ast.Tuple, ast.Dict)) and not (value.elts if not isinstance(value, ast.Dict) else value.keys):
                rv = False
        for c in configs:
            exits.add((kind, st.lineno, c, rv))
        # fresh objects escaping through return/yield must be label/hydrogen clean
        if value is not None:
            names = [n.id for n in ast.walk(value) if isinstance(n, ast.Name)] if isinstance(value, (ast.Name, ast.Tuple)) else []
            for nm in names:
                lab = f'F:{ctx.func.qualname}:{nm}'
                for pend, facts in configs:
                    for o in pend:
                        if o[2] == lab:
                            self.reports.append((ctx.stack[0], ctx.func.fq, kind, st.lineno, o))


def norm_len(t):
    """len(X) == 0 / len(X) > 0 / len(X) / not len(X) are emptiness tests of X: rewrite to `not X` / `X`"""
    if isinstance(t, ast.Call) and isinstance(t.func, ast.Name) and t.func.id == 'len' and len(t.args) == 1 and \
            isinstance(t.args[0], ast.Name):
        return t.args[0]
    if isinstance(t, ast.Compare) and len(t.ops) == 1:
        l, r, op = t.left, t.comparators[0], t.ops[0]
        if isinstance(r, ast.Call) and isinstance(l, ast.Constant):  # 0 < len(X)
            flip = {ast.Lt: ast.Gt, ast.Gt: ast.Lt, ast.LtE: ast.GtE, ast.GtE: ast.LtE}
            l, r = r, l
            op = flip.get(type(op), type(op))()
        if isinstance(l, ast.Call) and isinstance(l.func, ast.Name) and l.func.id == 'len' and len(l.args) == 1 and \
                isinstance(l.args[0], ast.Name) and isinstance(r, ast.Constant) and isinstance(r.value, int):
            x = l.args[0]
            if r.value == 0 and isinstance(op, (ast.Gt, ast.NotEq)) or r.value == 1 and isinstance(op, ast.GtE):
                return x
            if r.value == 0 and isinstance(op, (ast.Eq, ast.LtE)) or r.value == 1 and isinstance(op, ast.Lt):
                return ast.UnaryOp(op=ast.Not(), operand=x)
    if isinstance(t, ast.UnaryOp) and isinstance(t.op, ast.Not):
        inner = norm_len(t.operand)
        if inner is not t.operand:
            return ast.UnaryOp(op=ast.Not(), operand=inner)
    return t


def merge(configs):
    """configurations with identical facts are joined by union of their pending sets (every transfer function is a
    per-obligation predicate or an addition, hence distributes over this join)"""
    if len(configs) < 2:
        return configs
    d = {}
    for pend, facts in configs:
        if facts in d:
            d[facts] = d[facts] | pend
        else:
            d[facts] = pend
    if len(d) == len(configs):
        return configs
    return frozenset((p, f) for f, p in d.items())


def _is_true(test):
    return isinstance(test, ast.Constant) and bool(test.value)


def _is_empty_collection(v):
    if isinstance(v, (ast.List, ast.Set, ast.Tuple)) and not v.elts:
        return True
    if isinstance(v, ast.Dict) and not v.keys:
        return True
    if isinstance(v, ast.Call) and isinstance(v.func, ast.Name) and v.func.id in ('set', 'list', 'dict', 'defaultdict', 'deque') and \
            (not v.args or v.func.id == 'defaultdict' and len(v.args) == 1):
        return True
    return False
