# -*- coding: utf-8 -*-
"""C11: MDL / MRV code books, reaction role order, record-loop exception discipline."""
import ast
import builtins
import re
from .core import AnalysisError
from .astutil import src
from .tables import module_literal
from .r_readers import exc_root, parent_map, enclosing_func, MDL, rule_raise_family

W = 'chython.files.mdl.write'
M2 = 'chython.files.mdl.mol'
M3 = 'chython.files.mdl.emol'
RDF = 'chython.files.RDFrw'


def rule_record_loop(ck, repo, R):
    ck.rule(R, 'the record iterators (MDLRead.__iter__ and the two slice loops of __getitem__) catch everything a record parser can raise on a '
               'damaged record: the ValueError family (explicit raises of the MDL layer) and LookupError (implicit IndexError / KeyError of '
               'fixed-column and atom-index access), plus EOFError as end marker; otherwise the generator dies and the following records are lost')
    m = repo.module('chython.files.mdl.read')
    c = m.classes['MDLRead']
    sites = []
    for name in ('__iter__', '__getitem__'):
        f = c.method(name)
        ck.require(f is not None, f'MDLRead.{name} vanished')
        for t in ast.walk(f.node):
            if isinstance(t, ast.Try) and any('read_structure' in src(x) for x in t.body):
                sites.append((f, t))
    ck.require(len(sites) == 3, f'expected 3 record-reading try blocks in MDLRead, found {len(sites)}')
    caught_all = None
    for f, t in sites:
        caught = set()
        eof = False
        for h in t.handlers:
            types = h.type.elts if isinstance(h.type, ast.Tuple) else [h.type]
            for x in types:
                r = exc_root(repo, m, x)
                if r is None:
                    raise AnalysisError(f'MDLRead.{f.name}: handler type {src(x)} not resolvable')
                if not (isinstance(x, ast.Name) and getattr(builtins, x.id, None) is r):
                    # a library subclass (e.g. InvalidV2000) catches only itself: it does not cover the builtin family
                    ck.note(f'MDLRead.{f.name}: handler {src(x)} is narrower than {r.__name__}')
                    continue
                if r is EOFError:
                    eof = True
                    leaves = any(isinstance(s, (ast.Return, ast.Break)) for s in h.body)
                    ck.decide(leaves, R, f'{f.name}@{_n(sites, t)}:EOFError-ends', None, f'MDLRead.{f.name}: EOFError no longer ends the loop', file=m.relpath, line=h.lineno, func=f.qualname)
                else:
                    caught.add(r)
                    skips = all(isinstance(s, ast.Pass) for s in h.body)
                    ck.decide(skips, R, f'{f.name}@{_n(sites, t)}:{r.__name__}-skips', None, f'MDLRead.{f.name}: handler of {r.__name__} no longer just skips the record',
                              file=m.relpath, line=h.lineno, func=f.qualname)
        for need in (ValueError, IndexError, KeyError):
            ck.decide(any(issubclass(need, k) for k in caught), R, f'{f.name}@{_n(sites, t)}:catches-{need.__name__}', sorted(k.__name__ for k in caught),
                      f'MDLRead.{f.name}: the record loop catches {sorted(k.__name__ for k in caught)} but a damaged record can raise {need.__name__}: '
                      f'iteration stops and the following records are lost', file=m.relpath, line=t.lineno, func=f.qualname)
        ck.decide(eof, R, f'{f.name}@{_n(sites, t)}:EOFError', None, f'MDLRead.{f.name}: EOFError (end of file) is not handled', file=m.relpath, line=t.lineno)
        caught_all = caught if caught_all is None else caught_all & caught
    return tuple(caught_all | {EOFError})


def _n(sites, t):
    return [x[1] for x in sites].index(t)


def _wedge_codes(fn):
    """(code written for s == 1, code written otherwise) from `s == 1 and "X" or "Y"` or `"X" if s == 1 else "Y"` anywhere in the writer (f-string or local)"""
    out = []
    for n in ast.walk(fn):
        if isinstance(n, ast.BoolOp) and isinstance(n.op, ast.Or) and len(n.values) == 2 and isinstance(n.values[1], ast.Constant) and \
                isinstance(n.values[0], ast.BoolOp) and isinstance(n.values[0].op, ast.And) and len(n.values[0].values) == 2 and \
                src(n.values[0].values[0]).replace(' ', '') == 's==1' and isinstance(n.values[0].values[1], ast.Constant):
            out.append((str(n.values[0].values[1].value), str(n.values[1].value)))
        elif isinstance(n, ast.IfExp) and isinstance(n.body, ast.Constant) and isinstance(n.orelse, ast.Constant):
            t = src(n.test).replace(' ', '')
            if t == 's==1':
                out.append((str(n.body.value), str(n.orelse.value)))
            elif t in ('s!=1', 's==-1'):
                out.append((str(n.orelse.value), str(n.body.value)))
    return out


def _m_chg_exact(fn):
    """the statement writing the `M  CHG` line is reached exactly for charge -4 and +4 (the conditions it depends on are evaluated for every charge,
    whatever their spelling) and prints the atom number and that charge"""
    from .astutil import reach_conditions, expand_locals, single_defs, enclosing_map
    from .r_query import _ev, _Unknown
    only = {k for k, v in single_defs(fn).items() if src(v) == 'a.charge'}
    parents = enclosing_map(fn)
    sites = [n for n in ast.walk(fn) if isinstance(n, ast.JoinedStr) and any(isinstance(v, ast.Constant) and 'M  CHG' in str(v.value) for v in n.values)]
    if len(sites) != 1:
        return False
    text = src(expand_locals(sites[0], fn, only=only))
    if 'M  CHG  1 {n:3d} {a.charge:3d}' not in text:
        return False
    conds = [expand_locals(c, fn, only=only) for c in reach_conditions(sites[0], fn, parents)]
    conds = [c for c in conds if 'a.charge' in src(c)]
    if not conds:
        return False
    try:
        return {v for v in range(-4, 5) if all(_ev(c, {'a.charge': v}) for c in conds)} == {-4, 4}
    except _Unknown:
        return False


def rule_v2000_books(ck, repo, R):
    ck.rule(R, 'V2000 code books are mutually inverse: atom-block charge codes for -3..3, M  CHG lines exactly for the charges the atom block cannot hold (+-4), '
               'M  ISO / M  RAD emission vs parsing, wedge codes 1 / 6; V3000 CHG= RAD= MASS= CFG=1/3 keys on both sides; radical code 2')
    wm = module_literal(repo, W, 'charge_map')
    rm = module_literal(repo, M2, '_charge_map')
    mod = repo.module(W)
    line = mod.assigns['charge_map'].lineno
    for c in range(-3, 4):
        code = wm.get(c)
        ck.decide(code is not None and rm.get(code) == c, R, f'v2000:charge:{c}', code, f'charge {c} is written as {code!r}, which is read back as {rm.get(code)}', file=mod.relpath, line=line)
    ck.decide(wm.get(4) == wm.get(-4) == wm.get(0), R, 'v2000:charge:+-4-code', (wm.get(4), wm.get(-4)), 'charges +-4 must use the neutral atom-block code and an M  CHG line', file=mod.relpath, line=line)
    mw = repo.func(f'{W}:MOLWrite._write_molecule')
    s = src(mw.node)  # the normalised tree (new helper methods inlined), not the raw text
    ck.decide(_m_chg_exact(mw.node), R, 'v2000:M-CHG', None, 'M  CHG is no longer written exactly for charges +-4', file=mw.file, line=mw.lineno)
    ck.decide("M  ISO  1 {n:3d} {a.isotope:3d}" in s and 'if a.isotope' in s, R, 'v2000:M-ISO', None, 'M  ISO line no longer written for isotopes', file=mw.file, line=mw.lineno)
    ck.decide("M  RAD  1 {n:3d}   2" in s and 'if a.is_radical' in s, R, 'v2000:M-RAD', None, 'M  RAD line no longer written for radicals', file=mw.file, line=mw.lineno)
    ck.decide('charge_map[a.charge]' in s, R, 'v2000:charge-lookup', None, 'atom block no longer looks up charge_map[a.charge]', file=mw.file, line=mw.lineno)
    ctf = module_literal(repo, M2, '_ctf_data')
    ck.decide(ctf == {'R': 'is_radical', 'C': 'charge', 'I': 'isotope'}, R, 'v2000:property-lines', ctf, f'M  xxx property letters map to {ctf}', file=repo.module(M2).relpath)
    pr = repo.func(f'{M2}:parse_mol_v2000')
    ps = src(pr.node)
    ck.decide("line.startswith(('M  ISO', 'M  RAD', 'M  CHG'))" in ps and '_ctf_data[line[3]]' in ps, R, 'v2000:property-lines-read', None, 'parser no longer reads M  ISO / RAD / CHG through _ctf_data', file=pr.file, line=pr.lineno)
    # wedge codes
    wcodes = _wedge_codes(mw.node)
    ck.require(len(wcodes) == 1, 'MOLWrite: wedge code expression not found')
    up, down = wcodes[0]
    rd = {}
    for n in ast.walk(pr.node):
        if isinstance(n, ast.If):
            from .astutil import if_chain
            for t, blk in if_chain(n):
                if t is not None and isinstance(t, ast.Compare) and src(t.left) == 's' and isinstance(t.comparators[0], ast.Constant) and isinstance(t.ops[0], ast.Eq):
                    for st in blk:
                        if isinstance(st, ast.Expr) and 'stereo.append' in src(st):
                            rd[t.comparators[0].value.strip()] = src(st.value.args[0].elts[2])
    ck.decide(rd.get(up) == '1' and rd.get(down) == '-1', R, 'v2000:wedge-codes', rd, f'wedge up/down written as {up}/{down}; reader maps {rd}', file=pr.file, line=pr.lineno)
    # V3000
    ew = repo.func(f'{W}:EMOLWrite._write_molecule')
    es = src(ew.node)
    er = repo.func(f'{M3}:parse_mol_v3000')
    rs = src(er.node)
    for key, wfrag in (('CHG', "f' CHG={a.charge}' if a.charge else ''"), ('RAD', "' RAD=2' if a.is_radical else ''"), ('MASS', "f' MASS={a.isotope}' if a.isotope else ''")):
        wfrag = wfrag
        ck.decide(wfrag in es and f"k == '{key}'" in rs, R, f'v3000:{key}', None, f'V3000 {key}= is not handled symmetrically (writer `{wfrag}` / reader `k == {key!r}`)', file=ew.file, line=ew.lineno)
    w3 = _wedge_codes(ew.node)
    ck.require(len(w3) == 1 and 'CFG=' in es, 'EMOLWrite: CFG code expression not found')
    cfg = {}
    for n in ast.walk(er.node):
        if isinstance(n, ast.If):
            from .astutil import if_chain
            for t, blk in if_chain(n):
                if t is not None and isinstance(t, ast.Compare) and src(t.left) == 'v' and isinstance(t.comparators[0], ast.Constant) and isinstance(t.ops[0], ast.Eq):
                    for st in blk:
                        if isinstance(st, ast.Expr) and 'stereo.append' in src(st):
                            cfg[str(t.comparators[0].value)] = src(st.value.args[0].elts[2])
    ck.decide(cfg.get(w3[0][0]) == '1' and cfg.get(w3[0][1]) == '-1', R, 'v3000:CFG', cfg, f'V3000 wedge codes written {w3[0]}, read {cfg}', file=er.file, line=er.lineno)
    ck.floor(R, 18)


def rule_rxn_roles(ck, repo, R):
    ck.rule(R, 'RXN / RDF writers emit counts and molecules as reactants, products, reagents and the V2000/V3000 reaction parsers partition the molecule '
               'list by cumulative non-negative offsets in the same order; V3000 block names REACTANT / PRODUCT / AGENT on both sides')
    m = repo.module(RDF)
    s = m.source
    ck.decide("{len(data.reactants):3d}{len(data.products):3d}" in s and "{len(data.reagents):3d}" in s and 'chain(data.reactants, data.products, data.reagents)' in s, R, 'v2000:writer', None,
              'RXN V2000 writer no longer emits counts/molecules in the order reactants, products, reagents', file=m.relpath)
    for mod, fn in (('chython.files.mdl.rxn', 'parse_rxn_v2000'), ('chython.files.mdl.erxn', 'parse_rxn_v3000')):
        f = repo.module(mod).functions.get(fn)
        ck.require(f is not None, f'{mod}.{fn} vanished')
        ret = [n for n in ast.walk(f.node) if isinstance(n, ast.Return) and isinstance(n.value, ast.Dict)]
        ck.require(len(ret) == 1, f'{fn}: result dict not found')
        d = {k.value: src(v) for k, v in zip(ret[0].value.keys, ret[0].value.values)}
        ck.decide(d.get('reactants') == 'molecules[:reactants_count]' and d.get('products') == 'molecules[reactants_count:products_count]' and d.get('reagents') == 'molecules[products_count:]',
                  R, f'{fn}:partition', {k: d[k] for k in ('reactants', 'products', 'reagents') if k in d}, f'{fn} partitions molecules as {d}', file=f.file, line=ret[0].lineno, func=fn)
        fs = src(f.node)
        ck.decide('products_count = int(' in fs and '+ reactants_count' in fs and '+ products_count' in fs, R, f'{fn}:cumulative', None, f'{fn}: role counts are no longer cumulative offsets', file=f.file, line=f.lineno)
    ck.decide(all(x in s for x in ('M  V30 BEGIN REACTANT', 'M  V30 END REACTANT', 'M  V30 BEGIN PRODUCT', 'M  V30 END PRODUCT', 'M  V30 BEGIN AGENT', 'M  V30 END AGENT')), R, 'v3000:writer-blocks', None,
              'V3000 reaction writer block names changed', file=m.relpath)
    ck.decide("M  V30 COUNTS {len(data.reactants)} {len(data.products)}" in s, R, 'v3000:writer-counts', None, 'V3000 COUNTS line no longer reactants, products[, agents]', file=m.relpath)
    chains = []
    for n in ast.walk(m.tree):  # any name for the parsed record
        if isinstance(n, ast.Call) and src(n.func) == 'chain' and len(n.args) == 3 and all(isinstance(a, ast.Subscript) and isinstance(a.slice, ast.Constant) for a in n.args) \
                and len({src(a.value) for a in n.args}) == 1:
            chains.append([a.slice.value for a in n.args])
    ck.decide(chains and all(c == ['reactants', 'reagents', 'products'] for c in chains), R, 'postprocess-order', chains,
              'reaction molecules are no longer post-processed in molecules() order (reactants, reagents, products)', file=m.relpath)


def rule_mrv_attributes(ck, repo, R):
    ck.rule(R, 'MRV: every attribute name the writer emits for atoms and bonds is one the reader consults, and the coordinate scaling is inverse (x2 = x * 2 on writing, / 2 on reading)')
    m = repo.module('chython.files.MRVrw')
    s = m.source
    wattrs = set(re.findall(r'(\w+)="[^"]*\{', s))
    rattrs = set(re.findall(r"'@(\w+)'", s))
    core = {'elementType', 'x2', 'y2', 'mrvMap', 'formalCharge', 'isotope', 'atomRefs2', 'order'}
    ck.decide(core <= wattrs, R, 'writer-attributes', sorted(wattrs), f'MRV writer no longer emits {sorted(core - wattrs)}', file=m.relpath)
    ck.decide(core <= rattrs, R, 'reader-attributes', sorted(rattrs), f'MRV reader no longer consults {sorted(core - rattrs)}', file=m.relpath)
    ck.decide(re.search(r'\* 2', s) is not None and re.search(r'/ 2', s) is not None, R, 'coordinate-scaling', None, 'MRV coordinate scaling (x 2 on write, / 2 on read) is no longer present on both sides', file=m.relpath)


def rule_rxn_drop_bookkeeping(ck, repo, R):
    ck.rule(R, 'the RXN parsers cut the molecule list into roles by running counts; whenever a component is dropped (an exception of its mol parser is swallowed: empty '
               'molecule, or any ValueError under ignore=True) the boundaries of the current and all later roles are decremented on that very path. A handler that '
               'logs and continues without the decrement shifts the first molecule of the next role into the previous one')

    def is_dec(st):
        return isinstance(st, ast.AugAssign) and isinstance(st.op, ast.Sub) and isinstance(st.target, ast.Name) and st.target.id.endswith('_count')

    def outcome(stmts):
        """set of ways the statement list can end: 'dec' (a decrement was executed), 'raise', 'leave' (continue / break / return without decrement),
        'fall' (falls off the end without decrement)"""
        for i, st in enumerate(stmts):
            if is_dec(st):
                return {'dec'}
            if isinstance(st, ast.Raise):
                return {'raise'}
            if isinstance(st, (ast.Continue, ast.Break, ast.Return)):
                return {'leave'}
            if isinstance(st, ast.If):
                ends = outcome(st.body) | (outcome(st.orelse) if st.orelse else {'fall'})
                if 'fall' in ends:
                    ends = (ends - {'fall'}) | outcome(stmts[i + 1:])
                return ends
        return {'fall'}
    n = 0
    for fq in ('chython.files.mdl.rxn:parse_rxn_v2000', 'chython.files.mdl.erxn:parse_rxn_v3000'):
        f = repo.func(fq)
        ck.require(f is not None, f'{fq} not found')
        tries = [t for t in ast.walk(f.node) if isinstance(t, ast.Try) and any(isinstance(c, ast.Call) and src(c.func) == 'molecules.append' for s_ in t.body for c in ast.walk(s_))]
        ck.require(len(tries) == 1, f'{fq}: try around molecules.append(parse_mol...) not found')
        # statements that follow the try in the same block are what a handler that completes normally runs next
        from .astutil import enclosing_map as _em2
        pm2 = _em2(f.node)
        par = pm2.get(tries[0])
        after = []
        for field in ('body', 'orelse'):
            blk = getattr(par, field, None)
            if isinstance(blk, list) and tries[0] in blk:
                after = blk[blk.index(tries[0]) + 1:]
        for h in tries[0].handlers:
            n += 1
            o = outcome(h.body)
            if 'fall' in o:
                o = (o - {'fall'}) | outcome(after)
            ck.decide(o <= {'dec', 'raise'}, R, f'{f.qualname}:except {src(h.type) if h.type else ""}', sorted(o),
                      f'{f.qualname}: `except {src(h.type) if h.type else ""}` can complete without decrementing the role counts: the dropped component still '
                      f'occupies a slot of its role and the next role loses its first molecule', file=f.file, line=h.lineno, func=f.qualname)
    ck.floor(R, 2)


def rule_star_point_lookup(ck, repo, R):
    """V3000 star atoms (`*`, attachment points of multi-centre bonds) are collected in star_points and never enter atom_map (the atom loop `continue`s before the
    atom is numbered). In the bond block an id known to be a star point must therefore never be looked up in atom_map: the lookup can only fail."""
    from .astutil import reach_conditions, enclosing_map
    ck.rule(R, 'parse_mol_v3000: ids appended to star_points skip the atom_map assignment (append; continue), and no `atom_map[X]` is evaluated on a path where '
               '`X in star_points` holds: in the star-bond branches the looked-up id is the OTHER end of the bond')
    f = repo.func('chython.files.mdl.emol:parse_mol_v3000')
    ck.require(f is not None, 'parse_mol_v3000 not found')
    pm = enclosing_map(f.node)
    # 1. disjointness is structural
    apps = [n for n in ast.walk(f.node) if isinstance(n, ast.Call) and src(n.func) == 'star_points.append' and len(n.args) == 1]
    ck.require(len(apps) == 1, 'parse_mol_v3000: star_points.append site not found')
    st = pm[apps[0]]
    blk = None
    for field in ('body', 'orelse'):
        b = getattr(pm.get(st), field, None)
        if isinstance(b, list) and st in b:
            blk = b
    skips = blk is not None and any(isinstance(x, ast.Continue) for x in blk[blk.index(st) + 1:])
    key = src(apps[0].args[0])
    stores = [n for n in ast.walk(f.node) if isinstance(n, ast.Assign) and any(isinstance(t, ast.Subscript) and src(t.value) == 'atom_map' and src(t.slice) == key for t in n.targets)]
    ck.decide(skips and len(stores) == 1 and stores[0].lineno > st.lineno, R, 'star-ids-not-numbered', key,
              'a star point is no longer kept out of atom_map (append to star_points, continue, number the atom afterwards)', file=f.file, line=st.lineno, func=f.qualname)
    # 2. no lookup of a known star id
    n_look = 0
    for n in ast.walk(f.node):
        if isinstance(n, ast.Subscript) and isinstance(n.ctx, ast.Load) and src(n.value) == 'atom_map':
            n_look += 1
            k = src(n.slice)
            known_star = any(isinstance(c, ast.Compare) and len(c.ops) == 1 and isinstance(c.ops[0], ast.In) and src(c.left) == k and src(c.comparators[0]) == 'star_points'
                             for c in reach_conditions(n, f.node, pm))
            ck.decide(not known_star, R, f'lookup:{k}@{n.lineno - f.lineno}', None,
                      f'parse_mol_v3000 evaluates `atom_map[{k}]` where `{k} in star_points` holds: star points are not in atom_map, the lookup always fails ("invalid atoms number") '
                      f'-- the other end of the bond was meant', file=f.file, line=n.lineno, func=f.qualname, construct=src(n))
    ck.require(n_look >= 4, f'parse_mol_v3000: {n_look} atom_map lookups found, 4 confirmed by hand')


def rule_rdf_header_once(ck, repo, R):
    """RDF files start with one `$RDFILE 1` / `$DATM` header. The writer installs its header-writing first `write` exactly when the target is fresh:
    always without append; with append only for a real file that is still empty (a buffer opened for appending is taken as already started)."""
    from .r_query import _ev, _Unknown
    ck.rule(R, '_RDFWrite.__init__ installs the header-writing write() iff (not append) or (target is a path and it is empty); the condition is evaluated for all '
               '8 combinations of (append, is_buffer, position != 0), whatever its spelling: a second header in the middle of a file is read back as part of the '
               'previous record\'s last metadata value')
    c = repo.cls('chython.files.RDFrw:_RDFWrite')
    f = c.method('__init__')
    ck.require(f is not None, '_RDFWrite.__init__ not found')
    ifs = [n for n in ast.walk(f.node) if isinstance(n, ast.If) and any(isinstance(a, ast.Assign) and src(a.targets[0]) == 'self.write' for a in n.body)]
    ck.require(len(ifs) == 1, '_RDFWrite.__init__: the statement that installs the header-writing write() was not found')
    test = ifs[0].test
    bad = []
    for append in (False, True):
        for is_buffer in (False, True):
            for pos in (0, 7):
                try:
                    got = bool(_ev(test, {'append': append, 'self._is_buffer': is_buffer, 'self._file.tell()': pos}))
                except _Unknown as e:
                    raise AnalysisError(f'_RDFWrite.__init__: header condition `{src(test)}` not understood ({e})')
                want = (not append) or (not is_buffer and pos == 0)
                if got != want:
                    bad.append((append, is_buffer, pos, got))
    ck.decide(not bad, R, 'header-condition', src(test),
              f'_RDFWrite.__init__: under `{src(test)}` the header is {"written" if bad and bad[0][3] else "not written"} for (append, is_buffer, position) = '
              f'{[b[:3] for b in bad]}; it must be written exactly when the target is fresh (no append, or an empty file)',
              file=f.file, line=ifs[0].lineno, func=f.qualname, construct=src(test))


def rule_first_m_end(ck, repo, R):
    """C11: an SDF record is `mol block` + `data fields`; the mol block ends at the FIRST `M  END` line. Data-field values are free text and may contain such a line,
    so the boundary must not move once it is set"""
    from .astutil import reach_conditions, enclosing_map
    ck.rule(R, 'SDFRead._read_block records the mol-block boundary only while it is still unset: the assignment of the boundary inside the line loop is reached only under '
               '"not set yet" (a later `M  END` inside a data value must not move it)')
    f = repo.cls('chython.files.SDFrw:SDFRead').method('_read_block')
    ck.require(f is not None, 'SDFRead._read_block not found')
    pm = enclosing_map(f.node)
    sites = []
    for a in ast.walk(f.node):
        if isinstance(a, ast.Assign) and any('m_end' in src(t) for t in a.targets) and not (isinstance(a.value, ast.Constant) and a.value.value is None):
            p_ = pm.get(a)
            inloop = False
            while p_ is not None and p_ is not f.node:
                if isinstance(p_, (ast.For, ast.While)):
                    inloop = True
                p_ = pm.get(p_)
            if inloop:
                sites.append(a)
    ck.require(len(sites) == 1, f'_read_block: {len(sites)} boundary assignments inside the line loop, 1 confirmed by hand')
    a = sites[0]
    names = {src(t) for t in a.targets}
    first_only = False
    for c in reach_conditions(a, f.node, pm):
        t = src(c)
        if any(t in (f'not {n}', f'{n} is None', f'{n} == None') for n in names):
            first_only = True
    ck.decide(first_only, R, 'first-wins', sorted(names),
              f'SDFRead._read_block sets {sorted(names)} at every line starting with `M  END`: a data-field value that contains such a line (an embedded molfile) moves the boundary, '
              f'the field it belongs to and every field before it are lost', file=f.file, line=a.lineno, func=f.qualname, construct=src(a))
