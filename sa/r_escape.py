# -*- coding: utf-8 -*-
"""
Ownership rules for objects that cross a generator boundary.

  ESC-1  yield-then-mutate: a generator must not mutate in place an object it has already handed out (yielded, or stored in a
         buffer that it yields from) unless the name was rebound to a fresh object first.  Consumers may legitimately keep what they
         were given (lazy_product pools every value, list(gen) keeps all of them).
  ESC-2  borrowed-from-pool: values drawn from lazy_product(...) are shared between several combinations (the pools replay them);
         a consumer must copy before mutating.

Both are flow-sensitive over a small statement walk (if / for / while / try / with, break / continue / return) with the state
"names that currently alias a handed-out (ESC-1) or borrowed (ESC-2) object".
"""
import ast
from .core import AnalysisError
from .astutil import src

MUTATORS = {'append', 'add', 'update', 'pop', 'popitem', 'remove', 'discard', 'clear', 'extend', 'insert', 'sort', 'reverse',
            'setdefault', 'difference_update', 'intersection_update', 'symmetric_difference_update', 'appendleft', 'popleft',
            'extendleft', 'rotate'}
STORE_INTO = {'append', 'add', 'appendleft', 'insert'}
FRESH_CALLS = {'copy', 'dict', 'list', 'set', 'tuple', 'sorted', 'frozenset', 'deepcopy', 'defaultdict', 'deque', 'array', 'bytearray'}


def own_nodes(fn):
    """nodes of fn that are not inside a nested def / lambda / class"""
    stack = list(fn.body)
    while stack:
        n = stack.pop()
        yield n
        for c in ast.iter_child_nodes(n):
            if isinstance(c, (ast.FunctionDef, ast.AsyncFunctionDef, ast.Lambda, ast.ClassDef)):
                continue
            stack.append(c)


def is_generator(fn):
    return any(isinstance(n, (ast.Yield, ast.YieldFrom)) for n in own_nodes(fn))


def names_handed(expr):
    """names whose object itself is handed out by `yield expr` (bare name, or element of a tuple/list display)"""
    if expr is None:
        return set()
    if isinstance(expr, ast.Name):
        return {expr.id}
    if isinstance(expr, (ast.Tuple, ast.List)):
        out = set()
        for e in expr.elts:
            out |= names_handed(e)
        return out
    return set()


def is_fresh(value):
    """expression certainly evaluates to a new object"""
    if isinstance(value, (ast.List, ast.Dict, ast.Set, ast.ListComp, ast.DictComp, ast.SetComp, ast.Tuple, ast.Constant, ast.JoinedStr,
                          ast.BinOp, ast.Compare, ast.BoolOp, ast.UnaryOp, ast.GeneratorExp)):
        return True
    if isinstance(value, ast.Subscript) and isinstance(value.slice, ast.Slice):
        return True  # slicing a list/tuple/str copies
    if isinstance(value, ast.Call):
        f = value.func
        if isinstance(f, ast.Name) and f.id in FRESH_CALLS:
            return True
        if isinstance(f, ast.Attribute) and f.attr in ('copy', 'union', 'intersection', 'difference', 'keys', 'values', 'items'):
            return True
    return False


class Walk:
    """
    state: frozenset of names aliasing a protected object.  Subclasses define
      on_expr_stmt / on_yield ... through `events(stmt, state)`.
    """

    def __init__(self, mode, fn, pooled_calls=()):
        self.mode = mode  # 'yielded' | 'borrowed'
        self.fn = fn
        self.hits = []  # (node, name, what)
        self.pooled_calls = set(pooled_calls)
        # flow-insensitive: containers that are ever handed out by this generator (yield c / yield from c)
        self.out_containers = set()
        if mode == 'yielded':
            for n in own_nodes(fn):
                if isinstance(n, ast.YieldFrom) and isinstance(n.value, ast.Name):
                    self.out_containers.add(n.value.id)
                elif isinstance(n, ast.Yield):
                    self.out_containers |= names_handed(n.value)

    # -- helpers -------------------------------------------------------------------------------------------------
    def mutation(self, node, state):
        """report in-place mutation of a protected name by simple statement `node`"""
        for n in ast.walk(node):
            if isinstance(n, (ast.FunctionDef, ast.Lambda)):
                continue
            if isinstance(n, ast.Call) and isinstance(n.func, ast.Attribute) and n.func.attr in MUTATORS \
                    and isinstance(n.func.value, ast.Name) and n.func.value.id in state:
                self.hits.append((n, n.func.value.id, f'.{n.func.attr}()'))
        if isinstance(node, ast.Delete):
            for t in node.targets:
                if isinstance(t, ast.Subscript) and isinstance(t.value, ast.Name) and t.value.id in state:
                    self.hits.append((node, t.value.id, 'del [...]'))
        if isinstance(node, ast.Assign):
            for t in node.targets:
                for tt in (t.elts if isinstance(t, (ast.Tuple, ast.List)) else [t]):
                    if isinstance(tt, ast.Subscript) and isinstance(tt.value, ast.Name) and tt.value.id in state:
                        self.hits.append((node, tt.value.id, '[...] ='))
        if isinstance(node, ast.AugAssign):
            t = node.target
            if isinstance(t, ast.Subscript) and isinstance(t.value, ast.Name) and t.value.id in state:
                self.hits.append((node, t.value.id, '[...] op='))
            elif isinstance(t, ast.Name) and t.id in state and t.id in self.containers:
                self.hits.append((node, t.id, 'op= (in place for containers)'))

    def bind(self, target, value, state):
        """new state after `target = value`"""
        st = set(state)
        if isinstance(target, ast.Name):
            st.discard(target.id)
            if value is not None and self.aliases(value, state):
                st.add(target.id)
        elif isinstance(target, (ast.Tuple, ast.List)):
            for i, t in enumerate(target.elts):
                v = None
                if isinstance(value, (ast.Tuple, ast.List)) and len(value.elts) == len(target.elts):
                    v = value.elts[i]
                elif value is not None and self.mode == 'borrowed' and self.aliases(value, state):
                    v = value  # unpacking a borrowed tuple gives borrowed members
                st = set(self.bind(t, v, frozenset(st)))
        elif isinstance(target, ast.Starred):
            st = set(self.bind(target.value, None, frozenset(st)))
        return frozenset(st)

    def aliases(self, value, state):
        if isinstance(value, ast.Name):
            return value.id in state
        if is_fresh(value):
            return False
        if self.mode == 'borrowed':
            # element / member of a borrowed tuple is borrowed too
            if isinstance(value, ast.Subscript) and not isinstance(value.slice, ast.Slice):
                return self.aliases(value.value, state)
            if isinstance(value, ast.Subscript) and isinstance(value.slice, ast.Slice):
                return False
            if isinstance(value, ast.IfExp):
                return self.aliases(value.body, state) or self.aliases(value.orelse, state)
        if isinstance(value, ast.IfExp):
            return self.aliases(value.body, state) or self.aliases(value.orelse, state)
        return False

    def iter_aliases(self, it, state):
        """for-target elements alias protected objects when iterating a borrowed tuple (or a slice of it)"""
        if self.mode != 'borrowed':
            return False
        if isinstance(it, ast.Name):
            return it.id in state
        if isinstance(it, ast.Subscript):
            return self.iter_aliases(it.value, state)
        if isinstance(it, ast.Call) and isinstance(it.func, ast.Name) and it.func.id in ('reversed', 'iter'):
            return bool(it.args) and self.iter_aliases(it.args[0], state)
        return False

    def is_pool_call(self, it):
        return isinstance(it, ast.Call) and isinstance(it.func, ast.Name) and it.func.id in self.pooled_calls

    # -- statements ---------------------------------------------------------------------------------------------
    def simple1(self, s, state):
        self.mutation(s, state)
        st = set(state)
        if self.mode == 'yielded':
            for n in ast.walk(s):
                if isinstance(n, ast.Yield):
                    st |= names_handed(n.value)
                elif isinstance(n, ast.YieldFrom) and isinstance(n.value, ast.Name):
                    st.add(n.value.id)
                    st |= self.members.get(n.value.id, set())
                elif isinstance(n, ast.Call) and isinstance(n.func, ast.Attribute) and n.func.attr in STORE_INTO \
                        and isinstance(n.func.value, ast.Name) and n.func.value.id in self.out_containers:
                    for a in n.args:
                        for nm in names_handed(a):
                            st.add(nm)
                            self.members.setdefault(n.func.value.id, set()).add(nm)
        state = frozenset(st)
        if isinstance(s, ast.Assign):
            for t in s.targets:
                state = self.bind(t, s.value, state)
        elif isinstance(s, ast.AnnAssign) and s.value is not None:
            state = self.bind(s.target, s.value, state)
        elif isinstance(s, ast.Expr) and isinstance(s.value, ast.NamedExpr):
            state = self.bind(s.value.target, s.value.value, state)
        for n in ast.walk(s):
            if isinstance(n, ast.NamedExpr) and isinstance(n.target, ast.Name) and not (isinstance(s, ast.Expr) and s.value is n):
                state = self.bind(n.target, n.value, state)
        return state

    # a state is a frozenset of (tag, names): names = may-alias set, tag = None or ('F', x) meaning "x is falsy on these paths"
    # (enough to correlate `if stack: path = path[:k]` with the enclosing `while stack:`)
    @staticmethod
    def touched(s):
        out = set()
        for n in ast.walk(s):
            if isinstance(n, ast.Name) and isinstance(n.ctx, (ast.Store, ast.Del)):
                out.add(n.id)
            elif isinstance(n, ast.Call) and isinstance(n.func, ast.Attribute) and isinstance(n.func.value, ast.Name):
                out.add(n.func.value.id)  # any method call may change truthiness
            elif isinstance(n, (ast.Subscript, ast.Attribute)) and isinstance(n.ctx, (ast.Store, ast.Del)) and isinstance(n.value, ast.Name):
                out.add(n.value.id)
        return out

    def simple(self, s, state):
        t = self.touched(s)
        out = {}
        for tag, names in state:
            nn = self.simple1(s, names)
            if tag is not None and tag[1] in t:
                tag = None
            out[tag] = out.get(tag, frozenset()) | nn
        return frozenset(out.items())

    def bindp(self, target, value, state):
        t = {n.id for n in ast.walk(target) if isinstance(n, ast.Name)}
        out = {}
        for tag, names in state:
            nn = self.bind(target, value, names)
            if tag is not None and tag[1] in t:
                tag = None
            out[tag] = out.get(tag, frozenset()) | nn
        return frozenset(out.items())

    @staticmethod
    def split(test, state):
        """-> (state when test is true, state when test is false)"""
        neg = False
        while isinstance(test, ast.UnaryOp) and isinstance(test.op, ast.Not):
            neg = not neg
            test = test.operand
        if not isinstance(test, ast.Name):
            return state, state
        x = test.id
        truthy = frozenset((tag, names) for tag, names in state if tag != ('F', x))
        d = {}
        for tag, names in state:
            d[('F', x)] = d.get(('F', x), frozenset()) | names
        falsy = frozenset(d.items())
        return (falsy, truthy) if neg else (truthy, falsy)

    def block(self, body, states):
        cur = states
        conts, brks = [], []
        for s in body:
            if cur is None:
                break
            cur, c, b = self.stmt(s, cur)
            conts += c
            brks += b
        return cur, conts, brks

    @staticmethod
    def join(*sts):
        sts = [s for s in sts if s is not None]
        if not sts:
            return None
        out = {}
        for s in sts:
            for tag, names in s:
                out[tag] = out.get(tag, frozenset()) | names
        return frozenset(out.items())

    def stmt(self, s, state):
        if isinstance(s, (ast.FunctionDef, ast.AsyncFunctionDef, ast.ClassDef, ast.Import, ast.ImportFrom, ast.Pass, ast.Global, ast.Nonlocal)):
            return state, [], []
        if isinstance(s, ast.If):
            st = self.simple(ast.Expr(s.test), state)
            st_t, st_f = self.split(s.test, st)
            a, c1, b1 = self.block(s.body, st_t) if st_t else (None, [], [])
            b, c2, b2 = self.block(s.orelse, st_f) if st_f else (None, [], [])
            return self.join(a, b), c1 + c2, b1 + b2
        if isinstance(s, (ast.For, ast.AsyncFor, ast.While)):
            entry = state
            if isinstance(s, ast.While):
                entry = self.simple(ast.Expr(s.test), entry)
            else:
                entry = self.simple(ast.Expr(s.iter), entry)
            out_breaks = []
            head = entry
            for _ in range(8):
                if isinstance(s, ast.While):
                    body_in, exit_st = self.split(s.test, head)
                else:
                    exit_st = head
                    body_in = self.bindp(s.target, None, head)
                    add = set()
                    if self.mode == 'borrowed':
                        tn = {n.id for n in ast.walk(s.target) if isinstance(n, ast.Name)}
                        if self.is_pool_call(s.iter):
                            add = tn
                        body_in = frozenset((tag, names | (tn if (add or self.iter_aliases(s.iter, names)) else frozenset()))
                                            for tag, names in body_in)
                end, conts, brks = self.block(s.body, body_in) if body_in else (None, [], [])
                out_breaks = brks
                new_head = self.join(head, end, *conts)
                if new_head == head:
                    break
                head = new_head
            else:
                raise AnalysisError(f'{self.fn.name}: loop state did not stabilise')
            if isinstance(s, ast.While):
                _, exit_st = self.split(s.test, head)
            else:
                exit_st = head
            head = exit_st
            after, c, b = self.block(s.orelse, head) if s.orelse else (head, [], [])
            return self.join(after, *out_breaks), c, b
        if isinstance(s, ast.Try):
            a, c1, b1 = self.block(s.body, state)
            outs = [a]
            conts, brks = list(c1), list(b1)
            mid = self.join(state, a, *c1, *b1)  # handler may start from any point of the body
            for h in s.handlers:
                o, c, b = self.block(h.body, mid)
                outs.append(o)
                conts += c
                brks += b
            if s.orelse and a is not None:
                o, c, b = self.block(s.orelse, a)
                outs[0] = o
                conts += c
                brks += b
            res = self.join(*outs)
            if s.finalbody:
                res, c, b = self.block(s.finalbody, res if res is not None else mid)
                conts += c
                brks += b
            return res, conts, brks
        if isinstance(s, (ast.With, ast.AsyncWith)):
            st = state
            for it in s.items:
                st = self.simple(ast.Expr(it.context_expr), st)
                if it.optional_vars is not None:
                    st = self.bindp(it.optional_vars, None, st)
            return self.block(s.body, st)
        if isinstance(s, ast.Continue):
            return None, [state], []
        if isinstance(s, ast.Break):
            return None, [], [state]
        if isinstance(s, (ast.Return, ast.Raise)):
            self.simple(s, state)
            return None, [], []
        if isinstance(s, ast.Match):
            outs, conts, brks = [], [], []
            for case in s.cases:
                o, c, b = self.block(case.body, state)
                outs.append(o)
                conts += c
                brks += b
            return self.join(state, *outs), conts, brks
        return self.simple(s, state), [], []

    def run(self):
        fn = self.fn
        self.members = {}
        self.containers = set()
        for n in own_nodes(fn):
            if isinstance(n, ast.Assign) and len(n.targets) == 1 and isinstance(n.targets[0], ast.Name):
                v = n.value
                if isinstance(v, (ast.List, ast.Dict, ast.Set, ast.ListComp, ast.DictComp, ast.SetComp)) or \
                        (isinstance(v, ast.Call) and isinstance(v.func, ast.Name) and v.func.id in ('list', 'dict', 'set', 'deque', 'defaultdict')) or \
                        (isinstance(v, ast.Subscript) and isinstance(v.slice, ast.Slice)):
                    self.containers.add(n.targets[0].id)
        self.block(fn.body, frozenset({(None, frozenset())}))
        return self.hits


def rule_yield_then_mutate(ck, repo, R, select, floor=1):
    """select(FuncInfo) -> bool chooses the generators this property is responsible for"""
    ck.rule(R, 'a generator never mutates in place (method call, del/ subscript store, += on a container) an object it has already '
               'yielded or stored in a buffer it yields from, unless the name was rebound to a fresh object first: consumers '
               '(lazy_product pools, list(gen)) keep what they were given')
    n = 0
    for f in repo.all_functions():
        if not select(f) or not is_generator(f.node):
            continue
        n += 1
        w = Walk('yielded', f.node)
        hits = w.run()
        handed = sorted(w.out_containers)
        if not hits:
            ck.ok(R, f.fq, f'handed-out names {handed}: never mutated afterwards without rebinding', nontrivial=bool(handed))
        seen = set()
        for node, name, what in hits:
            key = f'{f.fq}:{name}:{what}'
            if key in seen:
                continue
            seen.add(key)
            ck.bad(R, key, f'`{name}` was yielded (or buffered for yielding) and is then mutated in place by `{src(node)[:80]}`; '
                           f'every consumer that kept the yielded object now sees a different value',
                   file=f.file, line=node.lineno, func=f.qualname, construct=src(node)[:120])
    ck.count(f'{R}: generators walked', n)
    ck.floor(R, floor)


def rule_borrowed_pool(ck, repo, R, select=lambda f: True, floor=1):
    ck.rule(R, 'values drawn from lazy_product(...) are pooled and replayed in later combinations: a consumer never mutates such a value '
               '(or a member of the yielded tuple) in place; it copies first (.copy(), dict(), {**x})')
    lp = repo.func('chython._functions:lazy_product')
    ck.require(lp is not None, 'lazy_product not found')
    # the pooling behaviour itself: values are appended to pools and pool members are yielded again
    pools = any(isinstance(n, ast.Call) and isinstance(n.func, ast.Attribute) and n.func.attr == 'append' for n in ast.walk(lp.node))
    replay = any(isinstance(n, ast.Call) and isinstance(n.func, ast.Name) and n.func.id == 'product' for n in ast.walk(lp.node))
    if not (pools and replay):
        raise AnalysisError('lazy_product no longer pools and replays its inputs; rule ESC-2 needs review')
    n = 0
    for f in repo.all_functions():
        uses = [x for x in own_nodes(f.node) if isinstance(x, (ast.For, ast.comprehension)) and isinstance(x.iter, ast.Call) and
                isinstance(x.iter.func, ast.Name) and x.iter.func.id == 'lazy_product']
        if not uses or f is lp or not select(f):
            continue
        n += 1
        w = Walk('borrowed', f.node, pooled_calls={'lazy_product'})
        hits = w.run()
        if not hits:
            ck.ok(R, f.fq, f'{len(uses)} loop(s) over lazy_product: drawn values are copied before any mutation')
        seen = set()
        for node, name, what in hits:
            key = f'{f.fq}:{name}:{what}'
            if key in seen:
                continue
            seen.add(key)
            ck.bad(R, key, f'`{name}` aliases a value drawn from lazy_product and is mutated in place by `{src(node)[:80]}`; the pooled '
                           f'object is replayed in later combinations (and may be held by the caller)',
                   file=f.file, line=node.lineno, func=f.qualname, construct=src(node)[:120])
    ck.count(f'{R}: lazy_product consumers', n)
    ck.floor(R, floor)
