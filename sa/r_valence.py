# -*- coding: utf-8 -*-
"""C04 rules: valence tables compile, definite assignment of the hydrogen count, sibling agreement of the rule predicate, totals."""
import ast
from .core import AnalysisError
from .astutil import src, strip_doc, if_chain, conjuncts, alpha_normal, reach_conditions, enclosing_map
from .tables import ElementTable, compile_valence_rules

MOL = 'chython.containers.molecule'


def rule_tables_compile(ck, repo, R):
    ck.rule(R, 'all 118 x (_common_valences, _valences_exceptions) literal tables are well formed and the data transform of '
               'Element._compiled_valence_rules (re-implemented over the literals) cannot raise; every rule list is non-ambiguous '
               'in shape: (set, dict, int)')
    t = ElementTable(repo)
    numbers = {s: r['atomic_number'] for s, r in t.rows.items()}
    nrows = 0
    for sym, row in sorted(t.rows.items()):
        rules, problems = compile_valence_rules(row, numbers)
        ve = row['_valences_exceptions']
        shape_bad = []
        if isinstance(ve, tuple):
            for ex in ve:
                nrows += 1
                ok = isinstance(ex, tuple) and len(ex) == 4 and isinstance(ex[0], int) and -4 <= ex[0] <= 4 and isinstance(ex[1], bool) \
                    and isinstance(ex[2], int) and not isinstance(ex[2], bool) and 0 <= ex[2] <= 6 and isinstance(ex[3], tuple) \
                    and all(isinstance(e, tuple) and len(e) == 2 and e[0] in (1, 2, 3) and isinstance(e[1], str) for e in ex[3])
                if not ok:
                    shape_bad.append(ex)
        cv = row['_common_valences']
        ck.decide(isinstance(ve, tuple) and isinstance(cv, tuple) and cv and not problems and not shape_bad, R, sym, len(ve) if isinstance(ve, tuple) else None,
                  f'{sym}: valence tables malformed: {problems + [repr(x) for x in shape_bad]}', file=row['class'].file,
                  line=row.get('lines', {}).get('_valences_exceptions'))
    ck.count('valence exception rows', nrows)
    ck.require(nrows >= 600, f'only {nrows} exception rows seen')
    ck.floor(R, 118)
    # the compiler itself: key shape and lookup key agree
    el = repo.cls('chython.periodictable.base.element:Element')
    comp = el.method('_compiled_valence_rules')
    vr = el.method('valence_rules')
    ck.require(comp is not None and vr is not None, 'Element._compiled_valence_rules / valence_rules vanished')
    s = src(vr.node)
    ck.decide('self._compiled_valence_rules[self.charge, self.is_radical, valence]' in s and 'except KeyError' in s and 'raise ValenceError' in s,
              R, 'lookup-key', None, 'valence_rules no longer looks up (charge, is_radical, valence) / converts a miss into ValenceError',
              file=vr.file, line=vr.lineno, func=vr.qualname)
    keys = {src(n.slice) for n in ast.walk(comp.node) if isinstance(n, ast.Subscript) and src(n.value) == 'rules'}
    want = {'(0, False, valence - h)', '(0, False, valence)', '(charge, is_radical, valence - h)', '(charge, is_radical, explicit)'}
    ck.decide(keys == want, R, 'compiler-keys', sorted(keys),
              f'_compiled_valence_rules fills keys {sorted(keys)}; expected {sorted(want)} (charge, radical, sum of explicit bond orders)',
              file=comp.file, line=comp.lineno, func=comp.qualname)


def all_exits_assign(body, target, assigned=False):
    """list of (lineno, kind) exits reached without `target = ...` on the path; loops may run zero times"""
    missing = []

    def walk(stmts, a, breaks=None):
        """returns assigned-state at fall-through, or None if the block always leaves; `breaks` collects the state at every `break` of the
        innermost loop"""
        for st in stmts:
            if isinstance(st, ast.Break) and breaks is not None:
                breaks.append(a)
                return None
            if isinstance(st, ast.Continue):
                return None
            if isinstance(st, (ast.Assign, ast.AugAssign, ast.AnnAssign)):
                targets = st.targets if isinstance(st, ast.Assign) else [st.target]
                if any(src(t) == target for t in targets):
                    a = True
            elif isinstance(st, ast.Return):
                if not a:
                    missing.append((st.lineno, 'return'))
                return None
            elif isinstance(st, ast.Raise):
                return None
            elif isinstance(st, ast.If):
                outs = []
                for test, blk in if_chain(st):
                    outs.append(walk(blk, a, breaks))
                chain = if_chain(st)
                if chain[-1][0] is not None:
                    outs.append(a)
                live = [o for o in outs if o is not None]
                if not live:
                    return None
                a = all(live)
            elif isinstance(st, (ast.For, ast.While)):
                bl = []
                walk(st.body, a, bl)
                ex = a  # exhausted (possibly after zero iterations): keep the state before the loop
                if st.orelse:
                    ex = walk(st.orelse, ex, breaks)
                states = bl + ([ex] if ex is not None else [])
                if not states:
                    return None
                a = all(states)
            elif isinstance(st, ast.Try):
                o = [walk(st.body, a, breaks)] + [walk(h.body, a, breaks) for h in st.handlers]
                live = [x for x in o if x is not None]
                if not live:
                    return None
                a = all(live)
            elif isinstance(st, ast.With):
                a = walk(st.body, a, breaks)
                if a is None:
                    return None
        return a
    end = walk(body, assigned)
    if end is False:
        missing.append((body[-1].end_lineno if body else 0, 'end'))
    return missing


def rule_definite_assignment(ck, repo, R):
    ck.rule(R, 'on every exit of calc_implicit the atom\'s _implicit_hydrogens has been assigned (a count or None): no stale count '
               'survives a recalculation; check_valence reports exactly the atoms whose count is None')
    f = repo.func(f'{MOL}:MoleculeContainer.calc_implicit')
    missing = all_exits_assign(strip_doc(f.node.body), 'atom._implicit_hydrogens')
    exits = [n for n in ast.walk(f.node) if isinstance(n, ast.Return)]
    ck.require(len(exits) >= 5, 'calc_implicit: fewer exits than expected; anchor changed')
    for n in exits:
        bad = (n.lineno, 'return') in missing
        ck.decide(not bad, R, f'calc_implicit:return@{_ctx(f, n)}', None,
                  f'calc_implicit returns at line {n.lineno} without assigning atom._implicit_hydrogens on that path: the previous count stays',
                  file=f.file, line=n.lineno, func=f.qualname)
    ck.decide(not any(k == 'end' for _, k in missing), R, 'calc_implicit:end', None, 'calc_implicit can fall off the end without assigning the count',
              file=f.file, line=f.node.end_lineno, func=f.qualname)
    # assigned values: None or small ints or rule h
    def leaves(v):
        return leaves(v.body) | leaves(v.orelse) if isinstance(v, ast.IfExp) else {src(v)}
    vals = set()
    for n in ast.walk(f.node):
        if isinstance(n, ast.Assign) and src(n.targets[0]) == 'atom._implicit_hydrogens':
            vals |= leaves(n.value)
    ck.decide(vals <= {'None', '0', '1', 'h'}, R, 'calc_implicit:values', sorted(vals), f'calc_implicit assigns {sorted(vals)}', file=f.file, line=f.lineno)
    cv = repo.func('chython.algorithms.standardize.molecule:Standardize.check_valence')
    b = strip_doc(cv.node.body)
    ck.decide(len(b) == 1 and isinstance(b[0], ast.Return) and src(b[0].value) == '[n for n, a in self.atoms() if a.implicit_hydrogens is None]', R, 'check_valence', None,
              'check_valence no longer reports exactly the atoms whose implicit_hydrogens is None', file=cv.file, line=cv.lineno, func=cv.qualname)
    ck.floor(R, 8)


def _ctx(f, node):
    """stable description of a return: the chain of enclosing tests"""
    parents = {}
    for p in ast.walk(f.node):
        for c in ast.iter_child_nodes(p):
            parents[c] = p
    tests = []
    child, p = node, parents.get(node)
    while p is not None and p is not f.node:
        if isinstance(p, ast.If):
            tests.append(('' if child in p.body else 'not ') + src(p.test)[:40])
        elif isinstance(p, ast.ExceptHandler):
            tests.append('except ' + src(p.type))
        elif isinstance(p, ast.For):
            tests.append('for ' + src(p.target))
        child, p = p, parents.get(p)
    return '/'.join(reversed(tests)) or 'top'


def _env_loop(f):
    """the loop that accumulates explicit_sum / explicit_dict; returns (guard tests on the accumulating branch, statements)"""
    for loop in ast.walk(f.node):
        if isinstance(loop, ast.For) and any(isinstance(n, ast.AugAssign) and src(n.target) == 'explicit_sum' for n in ast.walk(loop)):
            # innermost such loop
            inner = [l for l in ast.walk(loop) if isinstance(l, ast.For) and l is not loop and
                     any(isinstance(n, ast.AugAssign) and src(n.target) == 'explicit_sum' for n in ast.walk(l))]
            if inner:
                continue
            parents = {}
            for p in ast.walk(loop):
                for c in ast.iter_child_nodes(p):
                    parents[c] = p
            acc = [n for n in ast.walk(loop) if isinstance(n, ast.AugAssign) and src(n.target).startswith('explicit_')]
            guards = {src(c) for c in reach_conditions(acc[0], loop, parents)}  # nested test or guard clause alike
            return loop, guards, sorted(src(a) for a in acc)
    return None, None, None


def rule_sibling_agreement(ck, repo, R):
    ck.rule(R, 'the three copies of the valence-rule evaluation (calc_implicit, check_implicit, implicify_hydrogens) accumulate the '
               'environment the same way (coordinate bonds excluded, sum of orders, (order, atomic number) multiset) and test the same '
               'rule predicate (subset of required environments and counts >=)')
    sites = [f'{MOL}:MoleculeContainer.calc_implicit', f'{MOL}:MoleculeContainer.check_implicit',
             'chython.algorithms.standardize.molecule:Standardize.implicify_hydrogens']
    accs, preds = {}, {}
    for fq in sites:
        f = repo.func(fq)
        loop, guards, acc = _env_loop(f)
        ck.require(loop is not None, f'{fq}: environment accumulation loop not found')
        # normalise the atoms alias
        acc = [a.replace('self._atoms[m]', 'ATOMS[m]').replace('atoms[m]', 'ATOMS[m]') for a in acc]
        accs[fq] = (acc, guards)
        ck.decide('bond != 8' in guards, R, f'{f.qualname}:excludes-coordinate', sorted(guards),
                  f'{f.qualname}: the environment accumulation is no longer guarded by `bond != 8` (coordinate bonds must not count)',
                  file=f.file, line=loop.lineno, func=f.qualname)
        # the predicate
        found = None
        for n in ast.walk(f.node):
            tests = [n.test] if isinstance(n, ast.If) else [n.elt] + [i for g in n.generators for i in g.ifs] if isinstance(n, ast.GeneratorExp) else []
            for t in tests:
                cs = [src(c) for c in conjuncts(t)]
                if any('issubset' in c for c in cs):
                    found = (n, cs)
        ck.require(found is not None, f'{fq}: rule predicate (issubset ...) not found')
        preds[fq] = found[1]
        core = {'s.issubset(explicit_dict)', 'all((explicit_dict[k] >= c for k, c in d.items()))'}
        ck.decide(core <= set(found[1]), R, f'{f.qualname}:predicate', found[1],
                  f'{f.qualname}: rule predicate is `{" and ".join(found[1])}`; the shared core is `s.issubset(explicit_dict) and all(explicit_dict[k] >= c ...)`',
                  file=f.file, line=found[0].lineno, func=f.qualname)
        rl = [n for n in ast.walk(f.node) if isinstance(n, ast.Assign) and src(n.targets[0]) == 'rules']
        ck.decide(len(rl) == 1 and src(rl[0].value) == 'atom.valence_rules(explicit_sum)', R, f'{f.qualname}:lookup', None,
                  f'{f.qualname}: rules are no longer looked up by the accumulated explicit_sum', file=f.file, line=f.lineno, func=f.qualname)
    ref = accs[sites[0]][0]
    want = ['explicit_dict[bond.order, ATOMS[m].atomic_number] += 1', 'explicit_sum += bond.order']
    for fq, (acc, _) in accs.items():
        q = fq.split(':')[1]
        ck.decide(acc == want, R, f'{q}:accumulation', acc, f'{q}: accumulates {acc}; the sibling implementations use {want}',
                  file=repo.func(fq).file, line=repo.func(fq).lineno, func=q)
    # first matching rule wins in calc_implicit: the loop returns on the first hit
    f = repo.func(sites[0])
    loop = [n for n in ast.walk(f.node) if isinstance(n, ast.For) and src(n.iter) == 'rules']
    ck.decide(len(loop) == 1 and any(isinstance(x, (ast.Return, ast.Break)) for x in ast.walk(loop[0])), R, 'first-match-wins', None,
              'calc_implicit no longer stops at the first matching rule', file=f.file, line=f.lineno)
    # check_implicit asks "is there ANY rule with this hydrogen count whose environment matches" (elements list several H counts under one
    # valence key, e.g. [S] / [SH2]); the count test is part of the per-rule predicate and only a full match returns True
    f = repo.func(sites[1])
    h_par = f.params()[-1]
    loop = [n for n in ast.walk(f.node) if isinstance(n, ast.For) and src(n.iter) == 'rules']
    anys = [n for n in ast.walk(f.node) if isinstance(n, ast.Return) and isinstance(n.value, ast.Call) and src(n.value.func) == 'any' and n.value.args and
            isinstance(n.value.args[0], ast.GeneratorExp) and src(n.value.args[0].generators[0].iter) == 'rules']
    ok = False
    got = None
    line = f.lineno
    if len(loop) == 1 and isinstance(loop[0].target, ast.Tuple) and len(loop[0].target.elts) == 3:
        line = loop[0].lineno
        hv = src(loop[0].target.elts[2])
        ifs = [n for n in loop[0].body if isinstance(n, ast.If)]
        if len(ifs) == 1:
            cs = {src(c) for c in conjuncts(ifs[0].test)}
            got = sorted(cs)
            has_h = f'{h_par} == {hv}' in cs or f'{hv} == {h_par}' in cs
            rets = [x for x in ifs[0].body if isinstance(x, ast.Return)]
            ok = has_h and core <= cs and len(rets) == 1 and src(rets[0].value) == 'True' and not ifs[0].orelse
        tail = [x for x in f.node.body if isinstance(x, ast.Return)]
        ok = ok and bool(tail) and src(tail[-1].value) == 'False'
    elif len(anys) == 1 and isinstance(anys[0].value.args[0].generators[0].target, ast.Tuple):  # return any(<predicate> for s, d, _h in rules)
        g = anys[0].value.args[0]
        line = anys[0].lineno
        hv = src(g.generators[0].target.elts[2])
        cs = {src(c) for c in conjuncts(g.elt)} | {src(c) for i in g.generators[0].ifs for c in conjuncts(i)}
        got = sorted(cs)
        ok = (f'{h_par} == {hv}' in cs or f'{hv} == {h_par}' in cs) and core <= cs
    else:
        raise AnalysisError('check_implicit: rule loop / any(...) over rules not found')
    hv = hv if 'hv' in dir() else '_h'
    ck.decide(ok, R, 'check_implicit:exists-rule-with-count', got,
              f'check_implicit must return True iff SOME rule has the requested count and a matching environment (`{h_par} == {hv} and s.issubset(..) and all(..)` -> return True; '
              f'after the loop return False); found predicate {got}: deciding on the first rule whose environment matches rejects the secondary valence states of the tables',
              file=f.file, line=line, func=f.qualname)
    ck.floor(R, 13)


def rule_aromatic_carbon(ck, repo, R):
    ck.rule(R, 'aromatic special case of calc_implicit: only neutral non-radical carbon is computed; with two aromatic bonds the count is '
               '1 - (sum of other bond orders) for sums 0/1, with three aromatic bonds 0 when nothing else is attached; everything else is unknown (None)')
    f = repo.func(f'{MOL}:MoleculeContainer.calc_implicit')
    from .r_readers import _tv, _Unk
    body = strip_doc(f.node.body)
    loops = [k for k, st in enumerate(body) if isinstance(st, ast.For) and '_bonds[n]' in src(st.iter)]
    ck.require(len(loops) == 1, 'calc_implicit: accumulation loop over self._bonds[n] not found')
    tail = body[loops[0] + 1:]

    class _Done(Exception):
        pass

    def run(stmts, env):
        for st in stmts:
            if isinstance(st, ast.If):
                run(st.body if _tv(st.test, env) else st.orelse, env)
            elif isinstance(st, ast.Assign) and isinstance(st.targets[0], ast.Attribute) and st.targets[0].attr == '_implicit_hydrogens':
                v = st.value
                while isinstance(v, ast.IfExp):
                    v = v.body if _tv(v.test, env) else v.orelse
                if not isinstance(v, ast.Constant):
                    raise _Unk(f'hydrogen count expression {src(st.value)}')
                env['__h'] = v.value
            elif isinstance(st, ast.Return):
                env['__out'] = ('set', env.get('__h', 'unset'))
                raise _Done()
            elif isinstance(st, ast.Try):
                env['__out'] = ('rules',)
                raise _Done()
            elif isinstance(st, (ast.Expr, ast.Pass)):
                pass
            else:
                raise _Unk(type(st).__name__)
        return env
    want = {}
    for ar in range(0, 5):
        for es in range(0, 4):
            if ar == 0:
                want[(ar, es)] = ('rules',)
            elif ar == 2:
                want[(ar, es)] = ('set', 1 if es == 0 else 0 if es == 1 else None)
            elif ar == 3:
                want[(ar, es)] = ('set', 0 if es == 0 else None)
            else:
                want[(ar, es)] = ('set', None)
    for (ar, es), w in want.items():
        env = {'aroma': ar, 'explicit_sum': es}
        try:
            run(tail, env)
            got = env.get('__out', ('falls-off',))
        except _Done:
            got = env['__out']
        except _Unk as e:
            raise AnalysisError(f'calc_implicit: aromatic decision not understood for aroma={ar}, explicit_sum={es}: {e}')
        ck.decide(got == w, R, f'aroma={ar}|sum={es}', got,
                  f'calc_implicit: an atom with {ar} aromatic bonds and other bond orders summing to {es} gets {got}; chemistry says {w} '
                  f'(2 aromatic bonds use 3 valence units, 3 use 4; anything else is unknown)', file=f.file, line=f.lineno, func=f.qualname)
    s = src(f.node)
    ck.decide('if not atom.charge and (not atom.is_radical) and (atom == C)' in s, R, 'carbon-only', None,
              'the aromatic shortcut is no longer restricted to neutral non-radical carbon', file=f.file, line=f.lineno)
    ck.decide('if (atom := self._atoms[n]) == H' in s, R, 'hydrogen-zero', None, 'hydrogen atoms no longer get 0 implicit hydrogens up front', file=f.file, line=f.lineno)


def rule_totals(ck, repo, R):
    ck.rule(R, 'formula, mass, charge and radical flag are aggregates over all atoms that read the implicit hydrogen counts '
               '(attribute read sets of the four cached properties)')
    mc = repo.cls(f'{MOL}:MoleculeContainer')
    want = {'molecular_charge': {'charge'}, 'is_radical': {'is_radical'}, 'molecular_mass': {'atomic_mass', 'implicit_hydrogens'},
            'brutto': {'atomic_symbol', 'implicit_hydrogens'}}
    for name, attrs in want.items():
        f = mc.method(name)
        ck.require(f is not None, f'MoleculeContainer.{name} vanished')
        reads = {n.attr for n in ast.walk(f.node) if isinstance(n, ast.Attribute) and isinstance(n.ctx, ast.Load)}
        iterates = any(isinstance(n, (ast.comprehension, ast.For)) and ('self.atoms()' in src(n.iter) or 'self._atoms' in src(n.iter)) for n in ast.walk(f.node))
        ck.decide(attrs <= reads, R, f'{name}:reads', sorted(reads & (attrs | {'charge'})),
                  f'{name} no longer reads {sorted(attrs - reads)} of the atoms (implicit hydrogens / all atoms must be counted)',
                  file=f.file, line=f.lineno, func=f.qualname)
        ck.decide(iterates, R, f'{name}:all-atoms', None, f'{name} no longer aggregates over self.atoms()', file=f.file, line=f.lineno, func=f.qualname)
        ck.decide(f.cache_kind == 'cached_property', R, f'{name}:cached', f.cache_kind, f'{name} is no longer a cached_property (flush protocol key)', file=f.file, line=f.lineno)


# ---- valence parity of the exception tables (p-block) ------------------------------------------------------------------------------------------
PARITY_MODULES = ('groupXIII', 'groupXIV', 'groupXV', 'groupXVI', 'groupXVII', 'groupXVIII')
PARITY_EXEMPT = {
    ('B', (0, False, 0, ())): 'elemental boron atom: no bonds, no hydrogens',
    ('P', (0, False, 0, ())): 'elemental phosphorus atom: no bonds, no hydrogens',
}
PARITY_EXEMPT_ELEMENTS = {'Bi': 'metal with even oxidation states in its salts (BiCl2, BiS, BiO2 rows are written as such in the table)'}


def rule_valence_parity(ck, repo, R):
    ck.rule(R, 'p-block exception tables: for every row (charge, radical, implicit H, environment) the total valence  H + sum of bond orders  has the '
               'parity of the element\'s common valences, shifted by one for every unit of charge and for a radical (329 of 340 rows; the 11 others are a '
               'frozen table with reasons). A wrong hydrogen count or bond order in a row breaks the parity')
    n = 0
    for m in repo.modules.values():
        if m.name.rsplit('.', 1)[-1] not in PARITY_MODULES or not m.name.startswith('chython.periodictable.'):
            continue
        for c in m.classes.values():
            cv, ve = c.method('_common_valences'), c.method('_valences_exceptions')
            if cv is None or ve is None:
                continue

            def lit(f):
                for s in ast.walk(f.node):
                    if isinstance(s, ast.Return):
                        return ast.literal_eval(s.value)
            try:
                common, exc = lit(cv), lit(ve)
            except (ValueError, SyntaxError):
                raise AnalysisError(f'{c.name}: valence tables are no longer literals')
            par = {v % 2 for v in common if v}
            if len(par) != 1 or c.name in PARITY_EXEMPT_ELEMENTS:
                continue
            for row in exc:
                charge, rad, h, env = row
                n += 1
                total = h + sum(o for o, _ in env)
                p = (total + abs(charge) + (1 if rad else 0)) % 2
                key = (c.name, (charge, rad, h, tuple(tuple(x) for x in env)))
                if p in par or key in PARITY_EXEMPT:
                    continue
                ck.bad(R, f'{c.name}:{row}', f'{c.name}: exception row {row} has total valence {total} (H {h} + bonds {total - h}) with charge {charge}, radical {rad}: parity '
                                              f'does not fit the common valences {common}; a hydrogen count or bond order of the row is off by one',
                       file=m.relpath, line=ve.lineno, func=f'{c.name}._valences_exceptions', construct=str(row))
    ck.ok(R, 'rows', f'{n} rows of p-block exception tables fit the parity rule ({len(PARITY_EXEMPT)} frozen exceptions, {len(PARITY_EXEMPT_ELEMENTS)} exempt element)')
    ck.require(n >= 300, f'{R}: only {n} rows inspected')


def rule_tentative_removal_set(ck, repo, R):
    """C04/C14: implicify_hydrogens tries, for i = all .. 1, to drop the first i explicit hydrogens of an atom: it recomputes the atom's environment WITHOUT those i
    hydrogens, looks the valence rule up, and on success removes exactly those i. The set left out of the environment and the set removed must be the same object."""
    ck.rule(R, 'in Standardize.implicify_hydrogens the neighbours excluded from the recomputed environment (`m not in X`) and the hydrogens scheduled for removal '
               '(`to_remove.update(Y)`) are one and the same per-iteration slice of the atom\'s explicit hydrogens (X is Y is `hs[:i]`)')
    f = repo.func('chython.algorithms.standardize.molecule:Standardize.implicify_hydrogens')
    loops = [l for l in ast.walk(f.node) if isinstance(l, ast.For) and isinstance(l.iter, ast.Call) and src(l.iter.func) == 'range']
    found = 0
    for l in loops:
        slices = {a.targets[0].id: a for a in l.body if isinstance(a, ast.Assign) and isinstance(a.targets[0], ast.Name) and isinstance(a.value, ast.Subscript)
                  and isinstance(a.value.slice, ast.Slice)}
        if not slices:
            continue
        # the exclusion is whatever `m not in X` holds where the environment is accumulated (nested test or guard clause alike)
        excl = []
        parents = enclosing_map(f.node)
        for inner in ast.walk(l):
            if isinstance(inner, ast.For) and inner is not l and 'bonds[' in src(inner.iter):
                for acc in ast.walk(inner):
                    if isinstance(acc, ast.AugAssign):
                        for c in reach_conditions(acc, inner, parents):
                            if isinstance(c, ast.Compare) and len(c.ops) == 1 and isinstance(c.ops[0], ast.NotIn) and isinstance(c.comparators[0], ast.Name) \
                                    and src(c) not in [src(e) for e in excl]:
                                excl.append(c)
        upd = [c for c in ast.walk(l) if isinstance(c, ast.Call) and isinstance(c.func, ast.Attribute) and c.func.attr in ('update', 'extend') and len(c.args) == 1
               and isinstance(c.args[0], ast.Name) and 'remove' in src(c.func.value)]
        if not excl or not upd:
            continue
        found += 1
        x, y = excl[0].comparators[0].id, upd[0].args[0].id
        ck.decide(x == y and x in slices, R, 'excluded-is-removed', (x, y),
                  f'implicify_hydrogens: the environment is recomputed without `{x}` but `{y}` is what gets removed (per-iteration slices: {sorted(slices)}): for a partial removal '
                  f'the valence rule is looked up for a neighbourhood that will not exist, and the hydrogen count written to the heavy atom is wrong',
                  file=f.file, line=excl[0].lineno, func=f.qualname, construct=src(excl[0]))
    ck.require(found >= 1, 'implicify_hydrogens: tentative-removal loop not recognised')
