# -*- coding: utf-8 -*-
"""
Engine C: literal data extraction (periodic table, duplicated tables in .pyx, permutation tables, code books).
Pure ast.literal_eval on `return <literal>` bodies and module-level assignments.
"""
import ast
import os
import re
from .core import AnalysisError
from .model import ClassInfo, const

STANDARD_SYMBOLS = (
    'H He Li Be B C N O F Ne Na Mg Al Si P S Cl Ar K Ca Sc Ti V Cr Mn Fe Co Ni Cu Zn Ga Ge As Se Br Kr Rb Sr Y Zr '
    'Nb Mo Tc Ru Rh Pd Ag Cd In Sn Sb Te I Xe Cs Ba La Ce Pr Nd Pm Sm Eu Gd Tb Dy Ho Er Tm Yb Lu Hf Ta W Re Os Ir '
    'Pt Au Hg Tl Pb Bi Po At Rn Fr Ra Ac Th Pa U Np Pu Am Cm Bk Cf Es Fm Md No Lr Rf Db Sg Bh Hs Mt Ds Rg Cn Nh Fl '
    'Mc Lv Ts Og').split()
assert len(STANDARD_SYMBOLS) == 118

# IUPAC group of each element (lanthanides/actinides are filed under group III by the repo and by convention here)
STANDARD_GROUP = {}
_g = {
    1: 'H Li Na K Rb Cs Fr', 2: 'Be Mg Ca Sr Ba Ra',
    3: 'Sc Y La Ce Pr Nd Pm Sm Eu Gd Tb Dy Ho Er Tm Yb Lu Ac Th Pa U Np Pu Am Cm Bk Cf Es Fm Md No Lr',
    4: 'Ti Zr Hf Rf', 5: 'V Nb Ta Db', 6: 'Cr Mo W Sg', 7: 'Mn Tc Re Bh', 8: 'Fe Ru Os Hs', 9: 'Co Rh Ir Mt',
    10: 'Ni Pd Pt Ds', 11: 'Cu Ag Au Rg', 12: 'Zn Cd Hg Cn', 13: 'B Al Ga In Tl Nh', 14: 'C Si Ge Sn Pb Fl',
    15: 'N P As Sb Bi Mc', 16: 'O S Se Te Po Lv', 17: 'F Cl Br I At Ts', 18: 'He Ne Ar Kr Xe Rn Og'}
for _k, _v in _g.items():
    for _s in _v.split():
        STANDARD_GROUP[_s] = _k
assert len(STANDARD_GROUP) == 118
ROMAN = {1: 'I', 2: 'II', 3: 'III', 4: 'IV', 5: 'V', 6: 'VI', 7: 'VII', 8: 'VIII', 9: 'IX', 10: 'X', 11: 'XI',
         12: 'XII', 13: 'XIII', 14: 'XIV', 15: 'XV', 16: 'XVI', 17: 'XVII', 18: 'XVIII'}
STANDARD_PERIOD = {}
for _i, _s in enumerate(STANDARD_SYMBOLS, 1):
    STANDARD_PERIOD[_s] = (1 if _i <= 2 else 2 if _i <= 10 else 3 if _i <= 18 else 4 if _i <= 36 else
                           5 if _i <= 54 else 6 if _i <= 86 else 7)

ELEMENT_PROPS = ('atomic_number', 'isotopes_distribution', 'isotopes_masses', '_common_valences',
                 '_valences_exceptions', 'atomic_radius', 'mdl_isotope', 'is_forming_single_bonds',
                 'is_forming_double_bonds')


def literal_return(func):
    """the literal returned by a one-statement property body, or raise"""
    body = [s for s in func.node.body if not (isinstance(s, ast.Expr) and isinstance(s.value, ast.Constant)
                                              and isinstance(s.value.value, str))]
    if len(body) != 1 or not isinstance(body[0], ast.Return) or body[0].value is None:
        raise AnalysisError(f'{func.fq}: table property is not a single `return <literal>`')
    try:
        return ast.literal_eval(body[0].value)
    except Exception:
        raise AnalysisError(f'{func.fq}: returned expression is not a literal: {ast.unparse(body[0].value)[:80]}')


class ElementTable:
    """all concrete element classes with their literal tables"""

    def __init__(self, repo):
        self.repo = repo
        self.element = repo.cls('chython.periodictable.base.element:Element')
        self.rows = {}  # symbol -> dict
        self.classes = {}
        for m in repo.modules.values():
            if not m.name.startswith('chython.periodictable.group'):
                continue
            for c in m.classes.values():
                # direct subclasses of Element only: from_symbol uses Element.__subclasses__()
                if self.element in [b for b in c.bases if isinstance(b, ClassInfo)]:
                    self.classes[c.name] = c
        for sym, c in self.classes.items():
            row = {'class': c, 'bases': [b.name if isinstance(b, ClassInfo) else b for b in c.bases]}
            for p in ELEMENT_PROPS:
                f = c.method(p)
                if f is None:
                    inh = repo.lookup(c, p)
                    if inh is None or inh.cls is self.element:
                        # Element defaults (is_forming_*: False) or abstract
                        if p.startswith('is_forming'):
                            row[p] = False
                            continue
                        row[p] = None
                        continue
                    f = inh
                if 'property' not in f.decorators:
                    raise AnalysisError(f'{f.fq}: expected @property')
                row[p] = literal_return(f)
                row.setdefault('lines', {})[p] = f.lineno
            self.rows[sym] = row

    def by_number(self):
        out = {}
        for sym, r in self.rows.items():
            out.setdefault(r['atomic_number'], []).append(sym)
        return out


# -- .pyx literal tables (tokenisation only; no Cython needed) -------------------------------------------------------
def pyx_source(repo_root, rel):
    path = os.path.join(repo_root, rel)
    if not os.path.exists(path):
        raise AnalysisError(f'{rel} vanished')
    with open(path, encoding='utf-8') as fh:
        return fh.read()


def strip_comments(src):
    out = []
    for line in src.split('\n'):
        # no string literal in these files contains '#'
        i = line.find('#')
        out.append(line if i < 0 else line[:i])
    return '\n'.join(out)


def pyx_list_assign(src, name, as_names=False):
    """`name[:] = [...]` or `name = [...]` at module level of a .pyx; returns list of ints or names"""
    s = strip_comments(src)
    m = re.search(r'^%s(?:\[:\])?\s*=\s*\[' % re.escape(name), s, re.M)
    if not m:
        raise AnalysisError(f'.pyx table {name} not found')
    i = m.end() - 1
    depth = 0
    for j in range(i, len(s)):
        if s[j] == '[':
            depth += 1
        elif s[j] == ']':
            depth -= 1
            if depth == 0:
                break
    else:
        raise AnalysisError(f'.pyx table {name}: unbalanced brackets')
    text = s[i:j + 1]
    tree = ast.parse(text, mode='eval').body
    if as_names:
        out = []
        for e in tree.elts:
            if isinstance(e, ast.Name):
                out.append(e.id)
            elif isinstance(e, ast.Constant) and e.value is None:
                out.append(None)
            else:
                raise AnalysisError(f'.pyx table {name}: unexpected element {ast.unparse(e)}')
        return out
    return ast.literal_eval(tree)


def pyx_decl_len(src, name):
    m = re.search(r'cdef\s+\w+(?:\s+\w+)?\[(\d+)\]\s+%s\b' % re.escape(name), strip_comments(src))
    return int(m.group(1)) if m else None


def pyx_import_names(src, module):
    s = strip_comments(src)
    m = re.search(r'from\s+%s\s+import\s+\(([^)]*)\)' % re.escape(module), s, re.S)
    if not m:
        m = re.search(r'from\s+%s\s+import\s+([^\n]*)' % re.escape(module), s)
        if not m:
            return None
    return [x.strip() for x in m.group(1).replace('\n', ' ').split(',') if x.strip()]


# -- valence table compilation (a data transform re-implemented here; not chython code execution) --------------------
def compile_valence_rules(row, numbers):
    """
    mirrors Element._compiled_valence_rules as a transform over literals.
    returns (rules dict, problems list). problems = the only ways the original can raise.
    """
    problems = []
    rules = {}
    cv = row['_common_valences']
    if not isinstance(cv, tuple) or not cv:
        problems.append('empty or non-tuple _common_valences (IndexError at first use)')
        cv = ()
    if cv and cv[0] and row['atomic_number'] != 1:
        valence = cv[0]
        for h in range(valence + 1):
            rules.setdefault((0, False, valence - h), []).append((frozenset(), {}, h))
        for valence in cv[1:]:
            rules.setdefault((0, False, valence), []).append((frozenset(), {}, 0))
    else:
        for valence in cv:
            rules.setdefault((0, False, valence), []).append((frozenset(), {}, 0))
    for ex in row['_valences_exceptions']:
        try:
            charge, is_radical, implicit, environment = ex
        except (TypeError, ValueError):
            problems.append(f'malformed exception row {ex!r}')
            continue
        try:
            explicit = sum(x for x, _ in environment)
        except (TypeError, ValueError):
            problems.append(f'malformed environment in {ex!r}')
            continue
        d = {}
        s = set()
        bad = False
        for b, e in environment:
            if e not in numbers:
                problems.append(f'unknown element symbol {e!r} in {ex!r} (KeyError when rules are compiled)')
                bad = True
                continue
            be = (b, numbers[e])
            s.add(be)
            d[be] = d.get(be, 0) + 1
        if bad:
            continue
        if implicit:
            valence = explicit + implicit
            for h in range(implicit + 1):
                rules.setdefault((charge, is_radical, valence - h), []).append((frozenset(s), d, h))
        else:
            rules.setdefault((charge, is_radical, explicit), []).append((frozenset(s), d, 0))
    return rules, problems


def permutation_parity(p):
    p = list(p)
    inv = 0
    for i in range(len(p)):
        for j in range(i + 1, len(p)):
            if p[i] > p[j]:
                inv += 1
    return inv % 2


def module_literal(repo, modname, name):
    m = repo.module(modname)
    if name not in m.assigns:
        raise AnalysisError(f'{modname}.{name} vanished')
    try:
        return ast.literal_eval(m.assigns[name])
    except Exception:
        raise AnalysisError(f'{modname}.{name} is not a literal')
