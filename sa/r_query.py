# -*- coding: utf-8 -*-
"""
F-q: normalise the __eq__ decision ladders of query atoms/bonds to a rejection DNF over canonical predicates and
compare with the documented matching semantics (a table in this file). Robust to re-ordering and re-nesting.
"""
import ast
from .core import AnalysisError
from .astutil import src, strip_doc, if_chain, terminates, helper_def, helper_bindings, as_ladder

Q = 'chython.periodictable.base.query'


def canon_atom(e):
    """(predicate, polarity) for an atomic boolean expression"""
    pol = True
    while True:
        if isinstance(e, ast.UnaryOp) and isinstance(e.op, ast.Not):
            e = e.operand
            pol = not pol
        elif isinstance(e, ast.Call) and isinstance(e.func, ast.Name) and e.func.id == 'bool' and len(e.args) == 1 and not e.keywords:
            e = e.args[0]  # bool(x) has the truth value of x
        else:
            break
    if isinstance(e, ast.Compare) and len(e.ops) == 1:
        a, b, op = src(e.left), src(e.comparators[0]), e.ops[0]
        if isinstance(op, (ast.NotEq, ast.Eq)):
            p = ('ne',) + tuple(sorted((a, b)))
            return p, pol if isinstance(op, ast.NotEq) else not pol
        if isinstance(op, (ast.NotIn, ast.In)):
            return ('notin', a, b), pol if isinstance(op, ast.NotIn) else not pol
        if isinstance(op, (ast.IsNot, ast.Is)):
            if b == 'None' or a == 'None':  # identity and equality with None are the same test for the values compared here
                return ('ne',) + tuple(sorted((a, b))), pol if isinstance(op, ast.IsNot) else not pol
            return ('isnot', a, b), pol if isinstance(op, ast.IsNot) else not pol
        return (type(op).__name__, a, b), pol
    if isinstance(e, ast.Call) and isinstance(e.func, ast.Name) and e.func.id == 'isinstance':
        return ('isinstance', src(e.args[0]), src(e.args[1])), pol
    if isinstance(e, ast.Call) and isinstance(e.func, ast.Attribute) and e.func.attr == 'isdisjoint':
        return ('disjoint',) + tuple(sorted((src(e.func.value), src(e.args[0])))), pol
    return ('truthy', src(e)), pol


HELPER_TREE = [None]  # module tree in which boolean helper functions called from the ladders are looked up


def _helper_truthy_dnf(call):
    """DNF of "helper(args) is truthy" for a same-module boolean helper (if-ladder returning True / False / expressions), arguments substituted"""
    import copy as _copy
    tree = HELPER_TREE[0]
    if tree is None:
        return None
    fdef = helper_def(call, tree)
    if fdef is None:
        return None
    m = helper_bindings(call, fdef)
    if m is None:
        return None

    class Swap(ast.NodeTransformer):
        def visit_Return(self, node):
            self.generic_visit(node)
            v = node.value
            if isinstance(v, ast.Constant) and isinstance(v.value, bool):
                return ast.copy_location(ast.Return(value=ast.Constant(value=not v.value)), node)
            return ast.copy_location(ast.Return(value=ast.UnaryOp(op=ast.Not(), operand=v)), node)

        def visit_Name(self, node):
            if isinstance(node.ctx, ast.Load) and node.id in m:
                return _copy.deepcopy(m[node.id])
            return node
    body = [Swap().visit(_copy.deepcopy(st)) for st in strip_doc(fdef.body)]
    saved = HELPER_TREE[0]
    try:
        clauses, fall = reject_dnf(body)  # after the swap "reject" means "the helper returns True"
    finally:
        HELPER_TREE[0] = saved
    if fall:
        return None
    return list(simplify(clauses))


def dnf(e, pol=True):
    """DNF (list of frozensets of (pred, polarity)) of a boolean expression"""
    if isinstance(e, ast.UnaryOp) and isinstance(e.op, ast.Not):
        return dnf(e.operand, not pol)
    if isinstance(e, ast.Constant) and isinstance(e.value, bool):
        return [frozenset()] if e.value == pol else []
    if isinstance(e, ast.Call) and isinstance(e.func, ast.Name) and pol:
        h = _helper_truthy_dnf(e)
        if h is not None:
            return h
    if isinstance(e, ast.IfExp):
        # (a if t else b) == (t and a) or (not t and b); its negation == (t and not a) or (not t and not b)
        neg = (lambda x: x) if pol else (lambda x: ast.UnaryOp(op=ast.Not(), operand=x))
        e2 = ast.BoolOp(op=ast.Or(), values=[ast.BoolOp(op=ast.And(), values=[e.test, neg(e.body)]),
                                             ast.BoolOp(op=ast.And(), values=[ast.UnaryOp(op=ast.Not(), operand=e.test), neg(e.orelse)])])
        return dnf(e2, True)
    if isinstance(e, ast.Compare) and len(e.ops) > 1:
        # a < b <= c  ==  a < b and b <= c
        parts_, left = [], e.left
        for op, c in zip(e.ops, e.comparators):
            parts_.append(ast.Compare(left=left, ops=[op], comparators=[c]))
            left = c
        return dnf(ast.BoolOp(op=ast.And(), values=parts_), pol)
    if isinstance(e, ast.Compare) and isinstance(e.ops[0], (ast.In, ast.NotIn)) and isinstance(e.comparators[0], (ast.Tuple, ast.List, ast.Set)) \
            and 0 < len(e.comparators[0].elts) <= 4 and all(isinstance(x, ast.Constant) for x in e.comparators[0].elts):
        # x in (a, b)  ==  x == a or x == b  (constants: None is compared with `is` by writers, which is the same test)
        eqs = [ast.Compare(left=e.left, ops=[ast.Eq()], comparators=[x]) for x in e.comparators[0].elts]
        inner = ast.BoolOp(op=ast.Or(), values=eqs) if len(eqs) > 1 else eqs[0]
        return dnf(inner, pol if isinstance(e.ops[0], ast.In) else not pol)
    if isinstance(e, ast.BoolOp):
        is_and = isinstance(e.op, ast.And) == pol
        parts = [dnf(v, pol) for v in e.values]
        if is_and:
            out = [frozenset()]
            for p in parts:
                out = [a | b for a in out for b in p]
            return out
        return [c for p in parts for c in p]
    a, p = canon_atom(e)
    return [frozenset([(a, p if pol else not p)])]


def conj(a, b):
    return [x | y for x in a for y in b]


def _pure_reject(blk):
    """the block always leaves with `return False`"""
    if not blk:
        return False
    last = blk[-1]
    if isinstance(last, ast.Return):
        return isinstance(last.value, ast.Constant) and last.value.value is False
    if isinstance(last, ast.If):
        ch = if_chain(last)
        return ch[-1][0] is None and all(_pure_reject(b) for _, b in ch)
    return False


def reject_dnf(body, path=None):
    """
    rejection DNF of a statement list that decides by `return False` (reject) and a final `return True` / `return <expr>`.
    A later rejection is only reached when the earlier ones did not fire, and (A) or (not A and B) == (A) or (B): the
    negations of earlier *rejecting* branches are therefore dropped. Accepting returns are allowed only as the last
    statement of the function (anything else is an unknown idiom).
    returns (clauses, may_fall_through)
    """
    path = path if path is not None else [frozenset()]
    clauses = []
    for i, st in enumerate(body):
        if isinstance(st, ast.Return):
            v = st.value
            if isinstance(v, ast.Constant) and v.value is False:
                clauses += path
            elif isinstance(v, ast.Constant) and v.value is True:
                pass
            elif v is not None:
                clauses += conj(path, dnf(v, False))
            return clauses, False
        if isinstance(st, ast.If):
            neg_prev = [frozenset()]
            falls = False
            has_else = False
            for test, blk in if_chain(st):
                if test is not None:
                    cond_t = conj(conj(path, neg_prev), dnf(test, True))
                else:
                    cond_t = conj(path, neg_prev)
                    has_else = True
                c, f = reject_dnf(blk, cond_t)
                clauses += c
                falls = falls or f
                if test is not None and not _pure_reject(blk):
                    neg_prev = conj(neg_prev, dnf(test, False))
                    if not f:
                        # the branch always returns and may ACCEPT (return True / return <expr>): what follows the if is reached only when
                        # the branch was not taken
                        path = conj(path, dnf(test, False))
            if not has_else:
                falls = True
            if not falls:
                return clauses, False
            continue
        if isinstance(st, ast.Expr) and isinstance(st.value, ast.Constant):
            continue
        raise AnalysisError(f'__eq__ ladder contains a statement form the normaliser does not know: {src(st)[:80]}')
    return clauses, True


def simplify(clauses):
    """drop contradictory clauses, literals implied by the ladder order, and subsumed clauses"""
    out = set()
    for c in clauses:
        if any((p, not pol) in c for p, pol in c):
            continue
        out.add(c)
    # subsumption
    res = [c for c in out if not any(d < c for d in out)]
    # resolution of complementary pairs produced by sequential ladders: (A) and (notA & B) == (A) or (B)
    changed = True
    res = set(res)
    while changed:
        changed = False
        for c in list(res):
            for lit in c:
                unit = frozenset([(lit[0], not lit[1])])
                if unit in res and len(c) > 1:
                    res.discard(c)
                    res.add(c - {lit})
                    changed = True
                    break
            if changed:
                break
        res = {c for c in res if not any(d < c for d in res)}
    return res


def T(x):
    return (('truthy', x), True)


def opt_member(attr):
    """optional membership: specified and other.attr not in self.attr"""
    return frozenset([T(f'self.{attr}'), (('notin', f'other.{attr}', f'self.{attr}'), True)])


def exact(attr):
    return frozenset([(('ne',) + tuple(sorted((f'self.{attr}', f'other.{attr}'))), True)])


NOT_ELEMENT = frozenset([(('isinstance', 'other', 'Element'), False)])
RING_IN = frozenset([T('self.ring_sizes'), T('self.ring_sizes[0]'), (('disjoint', 'other.ring_sizes', 'self.ring_sizes'), True)])
RING_OUT = frozenset([T('self.ring_sizes'), (('truthy', 'self.ring_sizes[0]'), False), T('other.ring_sizes')])
COMMON = [NOT_ELEMENT, exact('charge'), exact('is_radical'), opt_member('neighbors'), opt_member('hybridization'),
          RING_IN, RING_OUT, opt_member('implicit_hydrogens'), opt_member('heteroatoms')]
EXPECTED = {
    'AnyElement': set(COMMON),
    'ListElement': set(COMMON) | {frozenset([(('notin', 'other.atomic_number', 'self.atomic_numbers'), True)])},
    'QueryElement': set(COMMON) | {exact('atomic_number'),
                                   frozenset([T('self.isotope'), (('ne', 'other.isotope', 'self.isotope'), True)])},
    'AnyMetal': {NOT_ELEMENT, frozenset([T('other.is_forming_single_bonds')]),
                 frozenset([(('isinstance', 'other', 'GroupXVIII'), True)]), opt_member('neighbors'), opt_member('hybridization')},
}
DOC = {
    'exact': 'charge, radical: must be equal', 'optional': 'neighbors, hybridization, implicit hydrogens, heteroatoms: '
    'if specified the molecule value must be in the list', 'ring': 'ring sizes: non-empty overlap, or (0,) = not in any ring',
}


def show(c):
    return ' and '.join(('' if pol else 'not ') + (p[1] if p[0] == 'truthy' else f'{p[0]}({", ".join(p[1:])})') for p, pol in sorted(c))


def rule_eq_ladders(ck, repo):
    R = 'C08.D1-predicates'
    ck.rule(R, 'each query atom __eq__ rejects exactly under the documented conditions: wrong type, element (number / list / '
               'any / any-metal), charge and radical exact, isotope optional-exact, neighbors / hybridization / implicit '
               'hydrogens / heteroatoms optional-membership, ring sizes overlap or not-in-ring; the ladder is normalised to a '
               'rejection DNF so re-ordering or re-nesting does not matter')
    m = repo.module(Q)
    for cname, want in EXPECTED.items():
        c = m.classes.get(cname)
        ck.require(c is not None, f'{cname} vanished')
        f = c.method('__eq__')
        ck.require(f is not None, f'{cname}.__eq__ vanished')
        HELPER_TREE[0] = m.tree
        clauses, fall = reject_dnf(strip_doc(f.node.body))
        ck.require(not fall, f'{cname}.__eq__ can fall off the end without a verdict')
        got = simplify(clauses)
        for cl in sorted(want, key=show):
            ck.decide(cl in got, R, f'{cname}:rejects:{show(cl)}', None,
                      f'{cname}.__eq__ no longer rejects when `{show(cl)}` (documented matching condition dropped or altered)',
                      file=f.file, line=f.lineno, func=f.qualname)
        for cl in sorted(got - want, key=show):
            ck.bad(R, f'{cname}:extra:{show(cl)}', f'{cname}.__eq__ rejects when `{show(cl)}`, which the documented semantics does not include',
                   file=f.file, line=f.lineno, func=f.qualname)
    ck.floor(R, 35)
    # sibling agreement is implied by equality with EXPECTED (COMMON shared)

    R2 = 'C08.D1-bond'
    ck.rule(R2, 'QueryBond.__eq__ against a molecule bond: optional ring flag must be equal, order must be one of the listed orders')
    b = repo.cls('chython.containers.bonds:QueryBond').method('__eq__')
    top = [s for s in strip_doc(b.node.body) if isinstance(s, ast.If)]
    ck.require(top, 'QueryBond.__eq__ ladder vanished')
    branch = None
    for test, blk in if_chain(top[0]):
        if test is not None and src(test) == 'isinstance(other, Bond)':
            branch = blk
    ck.require(branch is not None, 'QueryBond.__eq__: isinstance(other, Bond) branch not found')
    clauses, fall = reject_dnf(branch)
    got = simplify(clauses)
    want = {frozenset([(('ne', 'None', 'self.in_ring'), True), (('ne', 'other.in_ring', 'self.in_ring'), True)]),
            frozenset([(('notin', 'other.order', 'self.order'), True)])}
    for cl in want:
        ck.decide(cl in got, R2, f'rejects:{show(cl)}', None, f'QueryBond.__eq__ no longer rejects when `{show(cl)}`', file=b.file, line=b.lineno, func=b.qualname)
    for cl in got - want:
        ck.bad(R2, f'extra:{show(cl)}', f'QueryBond.__eq__ rejects when `{show(cl)}` (undocumented)', file=b.file, line=b.lineno, func=b.qualname)
    # molecule bond vs int / bond
    mb = repo.cls('chython.containers.bonds:Bond').method('__eq__')
    s = src(mb.node)
    ck.decide('return self.order == other' in s and 'return self.order == other.order' in s, R2, 'Bond.__eq__', None,
              'Bond.__eq__ no longer compares orders (int and Bond forms)', file=mb.file, line=mb.lineno)


PRIMITIVE_KEYS = {'D': 'neighbors', 'h': 'implicit_hydrogens', 'r': 'ring_sizes', 'x': 'heteroatoms', 'z': 'hybridization'}


def rule_primitive_plumbing(ck, repo):
    R = 'C08.D2-plumbing'
    ck.rule(R, 'each SMARTS primitive letter parsed by _query_parse produces the keyword its documentation names, every keyword '
               'is a constructor parameter of the query atom classes, and each property setter stores into its own slot')
    f = repo.func('chython.files.daylight.tokenize:_query_parse')
    # t == 'D' ladder
    found = {}
    for n in ast.walk(f.node):
        if isinstance(n, ast.If):
            for test, blk in if_chain(n):
                if test is not None and isinstance(test, ast.Compare) and src(test.left) == 't' and isinstance(test.comparators[0], ast.Constant):
                    for st in blk:
                        if isinstance(st, ast.Assign) and isinstance(st.targets[0], ast.Subscript) and src(st.targets[0].value) == 'out':
                            found[test.comparators[0].value] = st.targets[0].slice.value
                elif test is None and any(isinstance(st, ast.Assign) and isinstance(st.targets[0], ast.Subscript) and src(st.targets[0].value) == 'out' for st in blk):
                    if found:
                        for st in blk:
                            if isinstance(st, ast.Assign) and isinstance(st.targets[0], ast.Subscript):
                                found.setdefault('<else>', st.targets[0].slice.value)
    allowed = None
    for n in ast.walk(f.node):
        if isinstance(n, ast.Compare) and isinstance(n.ops[0], ast.NotIn) and isinstance(n.comparators[0], ast.Tuple):
            try:
                v = ast.literal_eval(n.comparators[0])
            except Exception:
                continue
            if set(v) <= set('Dhrxz') and len(v) >= 3:
                allowed = v
    ck.require(allowed is not None and found, '_query_parse: primitive letter ladder not recognised')
    letters = [x for x in allowed]
    else_letter = [x for x in letters if x not in found]
    if '<else>' in found and len(else_letter) == 1:
        found[else_letter[0]] = found.pop('<else>')
    for letter, key in PRIMITIVE_KEYS.items():
        ck.decide(found.get(letter) == key, R, f'primitive:{letter}', found.get(letter),
                  f'SMARTS primitive {letter} is stored under {found.get(letter)!r}; documented attribute is {key!r}', file=f.file, line=f.lineno, func=f.qualname)
    consts = {}
    for n in ast.walk(f.node):
        if isinstance(n, ast.If):
            for test, blk in if_chain(n):
                if test is not None and isinstance(test, ast.Compare) and src(test.left) == 'p' and isinstance(test.comparators[0], ast.Constant):
                    for st in blk:
                        if isinstance(st, ast.Assign) and isinstance(st.targets[0], ast.Subscript) and src(st.targets[0].value) == 'out' and isinstance(st.value, ast.Constant):
                            consts[test.comparators[0].value] = (st.targets[0].slice.value, st.value.value)
    for p, want in (('a', ('hybridization', 4)), ('!R', ('ring_sizes', 0)), ('M', ('masked', True))):
        ck.decide(consts.get(p) == want, R, f'primitive:{p}', consts.get(p), f'SMARTS primitive {p} sets {consts.get(p)}; documented {want}', file=f.file, line=f.lineno, func=f.qualname)
    # keys -> constructor parameters
    keys = {n.slice.value for n in ast.walk(f.node) if isinstance(n, ast.Subscript) and src(n.value) == 'out' and isinstance(n.slice, ast.Constant) and isinstance(n.ctx, ast.Store)}
    keys -= {'element', 'parsed_mapping'}
    m = repo.module(Q)
    params = set()
    for cname in ('Query', 'ExtendedQuery', 'QueryElement'):
        init = m.classes[cname].method('__init__')
        params |= {a for a in init.params() if a != 'self'}
    ck.decide(keys <= params | {'is_radical', 'stereo'}, R, 'keys-are-parameters', sorted(keys),
              f'_query_parse produces keys {sorted(keys - params)} that no query atom constructor accepts', file=f.file, line=f.lineno)
    # setters store into their own slot
    for cname in ('Query', 'ExtendedQuery', 'QueryElement'):
        c = m.classes[cname]
        for name, fs in c.methods.items():
            for g in fs:
                if any(d.endswith('.setter') for d in g.decorators):
                    stores = {n.attr for n in ast.walk(g.node) if isinstance(n, ast.Attribute) and isinstance(n.ctx, ast.Store) and src(n.value) == 'self'}
                    ck.decide(stores == {f'_{name}'}, R, f'setter:{cname}.{name}', sorted(stores),
                              f'{cname}.{name} setter stores into {sorted(stores)} instead of _{name}', file=g.file, line=g.lineno, func=g.qualname)
                    getter = c.method(name)
                    if getter is not None:
                        rb = strip_doc(getter.node.body)
                        ck.decide(len(rb) == 1 and isinstance(rb[0], ast.Return) and src(rb[0].value) == f'self._{name}', R, f'getter:{cname}.{name}', None,
                                  f'{cname}.{name} getter does not return self._{name}', file=getter.file, line=getter.lineno, func=getter.qualname)
    ck.floor(R, 20)


def rule_constructor_kwargs(ck, repo):
    R = 'C08.D2-constructor-kwargs'
    ck.rule(R, 'smarts() builds query atoms with e(**parsed_keys): either every atom class accepts every key _query_parse can '
               'produce, or the call is inside a try that turns TypeError into IncorrectSmarts')
    f = repo.func('chython.files.daylight.smarts:smarts')
    calls = [n for n in ast.walk(f.node) if isinstance(n, ast.Call) and any(k.arg is None for k in n.keywords) and isinstance(n.func, ast.Name)]
    ck.require(len(calls) == 1, 'smarts(): the e(**a) constructor call not found')
    call = calls[0]
    from .r_readers import parent_map, converted
    m = repo.module('chython.files.daylight.smarts')
    parents = parent_map(m.tree)
    from .r_readers import handlers_over, exc_root
    ok = False
    for t in handlers_over(parents, call):
        for h in t.handlers:
            r = exc_root(repo, m, h.type) if h.type is not None and not isinstance(h.type, ast.Tuple) else None
            if r is TypeError or h.type is None:
                raises = [x for x in ast.walk(ast.Module(body=h.body, type_ignores=[])) if isinstance(x, ast.Raise) and x.exc is not None]
                ok = bool(raises) and all((c := exc_root(repo, m, x.exc)) is not None and issubclass(c, ValueError) for x in raises)
    q = repo.module(Q)
    accepted = {}
    for cname in ('AnyMetal', 'AnyElement', 'ListElement', 'QueryElement'):
        c = q.classes[cname]
        params = set()
        for k in repo.mro(c):
            init = k.method('__init__')
            if init is not None:
                params |= set(init.params()) - {'self'}
                if init.node.args.kwarg is None:
                    break
        accepted[cname] = params
    pf = repo.func('chython.files.daylight.tokenize:_query_parse')
    keys = {n.slice.value for n in ast.walk(pf.node) if isinstance(n, ast.Subscript) and src(n.value) == 'out' and isinstance(n.slice, ast.Constant) and isinstance(n.ctx, ast.Store)}
    keys -= {'element', 'parsed_mapping'}
    keys |= {'is_radical', 'stereo'}
    lacking = {c: sorted(keys - p) for c, p in accepted.items() if keys - p}
    ck.decide(ok or not lacking, R, 'e(**a)', lacking or 'all classes accept all keys',
              f'smarts(): e(**a) can raise TypeError for {lacking} (e.g. [M;h1]) and the call is not inside a try that re-raises IncorrectSmarts',
              file=f.file, line=call.lineno, func=f.qualname, construct=src(call))


# ---- constraint normalisers (the setters behind neighbors / heteroatoms / implicit_hydrogens / hybridization / ring_sizes) ----------------
class _Unknown(Exception):
    pass


_BINOPS = {ast.Add: lambda a, b: a + b, ast.Sub: lambda a, b: a - b, ast.Mult: lambda a, b: a * b, ast.FloorDiv: lambda a, b: a // b,
           ast.Mod: lambda a, b: a % b, ast.BitAnd: lambda a, b: a & b, ast.BitOr: lambda a, b: a | b, ast.LShift: lambda a, b: a << b,
           ast.RShift: lambda a, b: a >> b}


def _ev(e, env):
    """tiny evaluator for guard expressions over one sample value (finite-domain decision of a predicate, like the regex enumeration)"""
    if isinstance(e, (ast.Call, ast.Attribute, ast.Subscript)) and env and src(e) in env:
        return env[src(e)]  # an opaque sub-expression the caller gave a sample value to (`self._file.tell()`)
    if isinstance(e, ast.Constant):
        return e.value
    if isinstance(e, ast.Name):
        if e.id in env:
            return env[e.id]
        if e.id in ('int', 'tuple', 'list', 'bool', 'str', 'float'):
            return {'int': int, 'tuple': tuple, 'list': list, 'bool': bool, 'str': str, 'float': float}[e.id]
        raise _Unknown(e.id)
    if isinstance(e, ast.Tuple):
        return tuple(_ev(x, env) for x in e.elts)
    if isinstance(e, ast.UnaryOp) and isinstance(e.op, ast.Not):
        return not _ev(e.operand, env)
    if isinstance(e, ast.UnaryOp) and isinstance(e.op, ast.USub):
        return -_ev(e.operand, env)
    if isinstance(e, ast.BoolOp):
        vals = [_ev(x, env) for x in e.values]  # guards have no side effects: eager evaluation is equivalent unless an operand is unknown
        return all(vals) if isinstance(e.op, ast.And) else any(vals)
    if isinstance(e, ast.Compare):
        left = _ev(e.left, env)
        for op, c in zip(e.ops, e.comparators):
            right = _ev(c, env)
            try:
                r = {ast.Lt: lambda a, b: a < b, ast.LtE: lambda a, b: a <= b, ast.Gt: lambda a, b: a > b, ast.GtE: lambda a, b: a >= b,
                     ast.Eq: lambda a, b: a == b, ast.NotEq: lambda a, b: a != b, ast.Is: lambda a, b: a is b, ast.IsNot: lambda a, b: a is not b,
                     ast.In: lambda a, b: a in b, ast.NotIn: lambda a, b: a not in b}[type(op)](left, right)
            except TypeError:
                raise _Unknown('type error in comparison')
            if not r:
                return False
            left = right
        return True
    if isinstance(e, ast.Attribute) and src(e) in env:
        return env[src(e)]
    if isinstance(e, ast.BinOp) and type(e.op) in _BINOPS:
        try:
            return _BINOPS[type(e.op)](_ev(e.left, env), _ev(e.right, env))
        except (TypeError, ZeroDivisionError):
            raise _Unknown('arithmetic on unsuitable operands')
    if isinstance(e, ast.IfExp):
        return _ev(e.body, env) if _ev(e.test, env) else _ev(e.orelse, env)
    if isinstance(e, ast.Subscript) and src(e) not in env:
        recv = _ev(e.value, env)
        if not isinstance(recv, (list, tuple, str, dict, range)):
            raise _Unknown('subscript of a non-sequence')
        try:
            if isinstance(e.slice, ast.Slice):
                lo, hi, st = (None if x is None else _ev(x, env) for x in (e.slice.lower, e.slice.upper, e.slice.step))
                return recv[lo:hi:st]
            return recv[_ev(e.slice, env)]
        except (TypeError, KeyError, IndexError):
            raise _Unknown('subscript out of the sample domain')
    if isinstance(e, ast.Subscript):
        return env[src(e)]
    if isinstance(e, (ast.List, ast.Set)):
        return [_ev(x, env) for x in e.elts]
    if isinstance(e, ast.Call) and isinstance(e.func, ast.Name) and e.func.id == 'range' and 1 <= len(e.args) <= 3 and 'range' not in env:
        try:
            return range(*[_ev(a, env) for a in e.args])
        except TypeError:
            raise _Unknown('range of non-integers')
    if isinstance(e, ast.Call) and isinstance(e.func, ast.Name) and e.func.id == 'bool' and len(e.args) == 1:
        return bool(_ev(e.args[0], env))
    if isinstance(e, (ast.GeneratorExp, ast.ListComp, ast.SetComp)) and len(e.generators) == 1 and isinstance(e.generators[0].target, ast.Name):
        g = e.generators[0]
        seq = _ev(g.iter, env)
        if not isinstance(seq, (list, tuple, set, frozenset, range)):
            raise _Unknown('iteration over a non-sequence')
        out = []
        for x in seq:
            env2 = dict(env)
            env2[g.target.id] = x
            if all(_ev(c, env2) for c in g.ifs):
                out.append(_ev(e.elt, env2))
        return set(out) if isinstance(e, ast.SetComp) else out
    if isinstance(e, ast.Call) and isinstance(e.func, ast.Name) and e.func.id in ('any', 'all', 'set', 'sorted', 'tuple', 'list', 'min', 'max', 'sum') \
            and len(e.args) == 1 and not e.keywords and e.func.id not in env:
        seq = _ev(e.args[0], env)
        if not isinstance(seq, (list, tuple, set, frozenset, range)):
            raise _Unknown('builtin over a non-sequence')
        try:
            return {'any': any, 'all': all, 'set': set, 'sorted': sorted, 'tuple': tuple, 'list': list, 'min': min, 'max': max, 'sum': sum}[e.func.id](seq)
        except (TypeError, ValueError):
            raise _Unknown('type error in builtin')
    if isinstance(e, ast.Call) and isinstance(e.func, ast.Attribute) and e.func.attr in ('get', 'keys', 'values') :
        recv = _ev(e.func.value, env)
        if isinstance(recv, dict):
            args = [_ev(a, env) for a in e.args]
            if e.func.attr == 'get':
                return recv.get(*args)
            return list(getattr(recv, e.func.attr)())
        raise _Unknown('method on a non-dict')
    if isinstance(e, ast.Call) and isinstance(e.func, ast.Name) and e.func.id == 'isinstance' and len(e.args) == 2:
        return isinstance(_ev(e.args[0], env), _ev(e.args[1], env))
    if isinstance(e, ast.Call) and isinstance(e.func, ast.Name) and e.func.id == 'len' and len(e.args) == 1:
        return len(_ev(e.args[0], env))
    raise _Unknown(ast.dump(e)[:60])


NORMALISERS = {
    # name -> (where, admitted scalar values within the probe range, admitted list members within the probe range)
    '_validate': ('func', set(range(0, 15)), set(range(0, 15))),
    'hybridization': ('setter', {1, 2, 3, 4}, {1, 2, 3, 4}),
    'ring_sizes': ('setter', {0} | set(range(3, 40)), set(range(3, 40))),
}
PROBE = range(-3, 40)


def rule_constraint_normalisers(ck, repo, R):
    ck.rule(R, 'the normalisers behind the query constraints store "no constraint" (empty tuple) ONLY for None; every documented scalar '
               '(incl. 0: "no neighbours / no hydrogens / no heteroatoms / not in a ring") becomes a one-element constraint, lists become sorted '
               'tuples; the admitted ranges are the documented ones; all three setters of _validate route through it')
    mod = repo.module(Q)
    ck.require(mod is not None, 'query module not found')
    qcls = mod.classes
    for name, (where, scalars, members) in NORMALISERS.items():
        if where == 'func':
            f = mod.functions.get(name)
            par = 'value'
        else:
            f = None
            for c in qcls.values():
                g = c.method(name, setter=True)
                if g is not None:
                    f = g
            par = 'value'
        ck.require(f is not None, f'normaliser {name} not found')
        par = f.params()[-1] if where == 'setter' else f.params()[0]
        body = as_ladder(strip_doc(f.node.body))  # guard clauses `if ..: return` read as the arms of one ladder
        ck.require(len(body) == 1 and isinstance(body[0], ast.If), f'{name}: not a single if-ladder')
        arms = if_chain(body[0])
        # arm selection over sample values
        samples = {'None': None, '0': 0, '1': 1, '3': 3, 'True-ish 14': 14, 'empty tuple': (), 'tuple': (3, 4), 'list': [4, 3]}
        chosen = {}
        for label, v in samples.items():
            for i, (test, blk) in enumerate(arms):
                if test is None:
                    chosen[label] = i
                    break
                try:
                    r = _ev(test, {par: v})
                except _Unknown as e:
                    raise AnalysisError(f'{name}: guard `{src(test)}` not understood ({e})')
                if r:
                    chosen[label] = i
                    break

        def result_kind(blk):
            for s in blk:
                for n in ast.walk(s):
                    v = None
                    if isinstance(n, ast.Return):
                        v = n.value
                    elif isinstance(n, ast.Assign) and isinstance(n.targets[0], ast.Attribute):
                        v = n.value
                    if v is None:
                        continue
                    t = src(v)
                    if t == '()':
                        return 'empty'
                    if t == f'({par},)':
                        return 'single'
                    if t in (f'tuple(sorted({par}))', f'tuple(sorted(set({par})))'):
                        return 'sorted'
                    return 'other:' + t
            return 'raise' if any(isinstance(n, ast.Raise) for s in blk for n in ast.walk(s)) else 'none'

        kinds = {label: result_kind(arms[i][1]) for label, i in chosen.items()}
        ck.decide(kinds.get('None') == 'empty', R, f'{name}:None', kinds.get('None'), f'{name}: None is normalised to {kinds.get("None")}, expected the empty tuple',
                  file=f.file, line=f.lineno, func=f.qualname)
        for label in ('0', '1', '3', 'True-ish 14'):
            ck.decide(kinds.get(label) == 'single', R, f'{name}:scalar {label}', kinds.get(label),
                      f'{name}: the scalar {label} takes the arm `{src(arms[chosen[label]][0]) if arms[chosen[label]][0] is not None else "else"}` and is stored as '
                      f'"{kinds.get(label)}" instead of a one-element constraint: a query built with {name if where == "setter" else "neighbors/heteroatoms/implicit_hydrogens"}={label} '
                      f'silently loses the constraint and matches every atom', file=f.file, line=arms[chosen[label]][0].lineno if arms[chosen[label]][0] is not None else f.lineno,
                      func=f.qualname, construct=src(arms[chosen[label]][0]) if arms[chosen[label]][0] is not None else None)
        for label in ('tuple', 'list'):
            ck.decide(kinds.get(label) == 'sorted', R, f'{name}:{label}', kinds.get(label), f'{name}: a {label} is stored as "{kinds.get(label)}" instead of a sorted tuple',
                      file=f.file, line=f.lineno, func=f.qualname)
        # admitted scalar range: evaluate the raise-guards of the scalar arm over the probe range
        i_int = chosen.get('1')
        if i_int is not None and kinds.get('1') == 'single':
            guards = [s.test for s in arms[i_int][1] if isinstance(s, ast.If) and any(isinstance(n, ast.Raise) for n in ast.walk(s))]
            try:
                admitted = {v for v in PROBE if not any(_ev(g, {par: v}) for g in guards)}
            except _Unknown as e:
                raise AnalysisError(f'{name}: range guard not understood ({e})')
            ck.decide(admitted == {v for v in PROBE if v in scalars}, R, f'{name}:scalar-range', f'{min(admitted)}..{max(admitted)}',
                      f'{name}: admits scalars {sorted(admitted)[:8]}.. but the documented set is {sorted(scalars)[:8]}..', file=f.file, line=f.lineno, func=f.qualname)
        i_seq = chosen.get('tuple')
        if i_seq is not None and kinds.get('tuple') == 'sorted':
            guards = [s_.test for s_ in arms[i_seq][1] if isinstance(s_, ast.If) and any(isinstance(n, ast.Raise) for n in ast.walk(s_))]

            def rejects(seq):
                """evaluate the raise-guards of the sequence arm, in order, on a concrete sequence (any spelling: any/all, chained comparisons)"""
                for g_ in guards:
                    try:
                        if _ev(g_, {par: seq}):
                            return True
                    except _Unknown as e_:
                        if 'type error' in str(e_):
                            return None  # a member of the wrong type reached a comparison: no type guard in front
                        raise AnalysisError(f'{name}: member guard `{src(g_)}` not understood ({e_})')
                return False
            ok_member = next(iter(sorted(members)))
            adm = {v for v in PROBE if rejects([v]) is False}
            uniq = rejects([ok_member, ok_member]) is True
            typed = rejects(['x']) is True
            ck.decide(adm == {v for v in PROBE if v in members} and uniq and typed, R, f'{name}:member-range', None,
                      f'{name}: list members admitted {sorted(adm)[:8]}.., unique-check={uniq}, int-check={typed}; documented set {sorted(members)[:8]}..',
                      file=f.file, line=f.lineno, func=f.qualname)
    # routing: the three counted constraints go through _validate
    routed = 0
    for c in qcls.values():
        for attr in ('neighbors', 'heteroatoms', 'implicit_hydrogens'):
            g = c.method(attr, setter=True)
            if g is None:
                continue
            routed += 1
            calls = [n for n in ast.walk(g.node) if isinstance(n, ast.Call) and isinstance(n.func, ast.Name) and n.func.id == '_validate']
            tgt = [n for n in ast.walk(g.node) if isinstance(n, ast.Assign) and src(n.targets[0]) == f'self._{attr}']
            ck.decide(len(calls) == 1 and len(tgt) == 1 and tgt[0].value is calls[0] and src(calls[0].args[0]) == g.params()[-1], R, f'{c.name}.{attr}:routed', None,
                      f'{c.name}.{attr} setter no longer stores _validate(value)', file=g.file, line=g.lineno, func=g.qualname)
    ck.floor(R, 20)


def rule_isotope_setter(ck, repo, R):
    ck.rule(R, 'Element.isotope accepts exactly the tabulated isotope numbers: the rejecting guard is a KEY test on isotopes_distribution (the tables list '
               'synthetic / radio-label isotopes with abundance 0.0, which must stay representable); evaluated over a sample table {1: 0.5, 2: 0.0}')
    cls = repo.cls('chython.periodictable.base.element:Element')
    ck.require(cls is not None, 'Element not found')
    f = cls.method('isotope', setter=True)
    ck.require(f is not None, 'Element.isotope setter not found')
    par = f.params()[-1]
    body = strip_doc(f.node.body)
    ck.require(body and isinstance(body[0], ast.If), 'isotope setter: guard ladder not found')
    arms = if_chain(body[0])
    table = {1: 0.5, 2: 0.0}
    verdict = {}
    for v in (1, 2, 3, None):
        env = {par: v, 'self.isotopes_distribution': table, 'self.isotopes_masses': {1: 1.0, 2: 2.0}}
        out = 'accept'
        for test, blk in arms:
            try:
                hit = True if test is None else _ev(test, env)
            except _Unknown as e:
                raise AnalysisError(f'isotope setter: guard `{src(test)}` not understood ({e})')
            if hit:
                for st in blk:
                    if isinstance(st, ast.Raise):
                        out = 'reject'
                    elif isinstance(st, ast.If):
                        try:
                            if _ev(st.test, env) and any(isinstance(x, ast.Raise) for x in st.body):
                                out = 'reject'
                        except _Unknown as e:
                            raise AnalysisError(f'isotope setter: guard `{src(st.test)}` not understood ({e})')
                break
        verdict[v] = out
    want = {1: 'accept', 2: 'accept', 3: 'reject', None: 'accept'}
    for v, w in want.items():
        what = {1: 'tabulated isotope with natural abundance', 2: 'tabulated isotope with abundance 0.0', 3: 'isotope that is not tabulated', None: 'None (no isotope mark)'}[v]
        ck.decide(verdict[v] == w, R, f'isotope:{v}', verdict[v], f'Element.isotope setter: {what} is {verdict[v]}ed, must be {w}ed', file=f.file, line=f.lineno, func=f.qualname)
    stores = [n for n in ast.walk(f.node) if isinstance(n, ast.Assign) and src(n.targets[0]) == 'self._isotope']
    ck.decide(len(stores) == 1 and src(stores[0].value) == par, R, 'isotope:stored', None, 'the validated value is no longer what is stored', file=f.file, line=f.lineno)
    ck.floor(R, 5)
