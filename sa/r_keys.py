# -*- coding: utf-8 -*-
"""
Fresh-key discipline for the atom store: a method that inserts a NEW atom number into self._atoms allocates it above every existing number
(max(store) + k), takes it from a parameter, or copies it from the graph it merges.  A number derived from a count (len(store) + 1) collides
with existing atoms as soon as the numbering has gaps (mapped SMILES, remap(), deletions) and silently overwrites an atom and its bonds.
"""
import ast
from .core import AnalysisError
from .astutil import src
from .model import walk_no_nested

CLASSES = ['chython.containers.molecule:MoleculeContainer', 'chython.containers.query:QueryContainer', 'chython.containers.cgr:CGRContainer']


def _store_aliases(fn):
    """local names bound to self._atoms"""
    out = set()
    for n in walk_no_nested(fn):
        if isinstance(n, ast.Assign) and len(n.targets) == 1 and isinstance(n.targets[0], ast.Name) and src(n.value) == 'self._atoms':
            out.add(n.targets[0].id)
    return out


def _is_store(e, aliases):
    return src(e) == 'self._atoms' or (isinstance(e, ast.Name) and e.id in aliases)


def classify(fn, name, aliases, params, seen=None):
    """-> list of (kind, node): kinds 'param', 'max', 'source-key', 'inc', 'count', 'unknown'"""
    seen = seen or set()
    if name in seen:
        return []
    seen.add(name)
    out = []
    if name in params:
        out.append(('param', None))
    for n in walk_no_nested(fn):
        if isinstance(n, ast.Assign):
            for t in n.targets:
                if isinstance(t, ast.Name) and t.id == name:
                    out += classify_expr(fn, n.value, aliases, params, seen)
                elif isinstance(t, (ast.Tuple, ast.List)) and any(isinstance(x, ast.Name) and x.id == name for x in t.elts):
                    out.append(('unknown', n))
        elif isinstance(n, ast.AugAssign) and isinstance(n.target, ast.Name) and n.target.id == name:
            if isinstance(n.op, ast.Add) and isinstance(n.value, ast.Constant) and isinstance(n.value.value, int) and n.value.value >= 1:
                out.append(('inc', n))
            else:
                out.append(('unknown', n))
        elif isinstance(n, (ast.For, ast.comprehension)):
            if any(isinstance(x, ast.Name) and x.id == name for x in ast.walk(n.target)):
                out.append(('source-key', n))
        elif isinstance(n, ast.NamedExpr) and n.target.id == name:
            out += classify_expr(fn, n.value, aliases, params, seen)
    return out


def classify_expr(fn, e, aliases, params, seen):
    if isinstance(e, ast.IfExp):
        return classify_expr(fn, e.body, aliases, params, seen) + classify_expr(fn, e.orelse, aliases, params, seen)
    if isinstance(e, ast.Name):
        r = classify(fn, e.id, aliases, params, seen)
        return r or [('unknown', e)]
    if isinstance(e, ast.BinOp) and isinstance(e.op, ast.Add):
        for a, b in ((e.left, e.right), (e.right, e.left)):
            if isinstance(b, ast.Constant) and isinstance(b.value, int) and b.value >= 1:
                if isinstance(a, ast.Call) and isinstance(a.func, ast.Name) and a.func.id == 'max' and a.args and _is_store(a.args[0], aliases):
                    return [('max', e)]
                if isinstance(a, ast.Call) and isinstance(a.func, ast.Name) and a.func.id == 'len' and a.args and _is_store(a.args[0], aliases):
                    return [('count', e)]
                return classify_expr(fn, a, aliases, params, seen)
    if any(isinstance(n, ast.Call) and isinstance(n.func, ast.Name) and n.func.id == 'len' for n in ast.walk(e)):
        return [('count', e)]
    return [('unknown', e)]


def rule_fresh_keys(ck, repo, R, floor=2):
    ck.rule(R, 'a new atom number inserted into self._atoms is max(self._atoms) + k (k >= 1, then incremented), a parameter, or a key copied from the '
               'graph being merged -- never a count (len(self._atoms) + 1), which collides with existing atoms when the numbering has gaps')
    done = set()
    n_sites = 0
    for cfq in CLASSES:
        cls = repo.cls(cfq)
        ck.require(cls is not None, f'{cfq} not found')
        for c in repo.mro(cls):
            for fs in c.methods.values():
                for f in fs:
                    if f.fq in done:
                        continue
                    done.add(f.fq)
                    aliases = _store_aliases(f.node)
                    params = set(f.params())
                    for n in walk_no_nested(f.node):
                        if not isinstance(n, ast.Assign):
                            continue
                        for t in n.targets:
                            if isinstance(t, ast.Subscript) and _is_store(t.value, aliases):
                                k = t.slice
                                key = f'{f.fq}:{src(t)}'
                                n_sites += 1
                                if not isinstance(k, ast.Name):
                                    raise AnalysisError(f'{f.fq}: atom store insertion with a key expression `{src(k)}` this rule does not know')
                                kinds = classify(f.node, k.id, aliases, params)
                                bad = [(kd, nd) for kd, nd in kinds if kd == 'count']
                                unk = [(kd, nd) for kd, nd in kinds if kd == 'unknown']
                                if bad:
                                    ck.bad(R, key, f'{f.qualname} inserts atom number `{k.id}` derived from a count: `{src(bad[0][1])}`; with gaps in the numbering '
                                                   f'this number can already be in use and the atom there is overwritten', file=f.file, line=n.lineno,
                                           func=f.qualname, construct=src(bad[0][1]))
                                elif unk or not kinds:
                                    ck.defer(f'{f.fq}: provenance of inserted atom number `{k.id}` not recognised ({[src(x[1])[:60] for x in unk]})')
                                else:
                                    ck.ok(R, key, sorted({kd for kd, _ in kinds}))
    ck.count(f'{R}: insertion sites', n_sites)
    ck.floor(R, floor)
