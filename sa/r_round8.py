# -*- coding: utf-8 -*-
"""rules added after the eighth round of independent seeded changes"""
import ast
import re
from .core import AnalysisError
from .astutil import src, reach_conditions, enclosing_map, expand_locals, positive_conjuncts

ISO = 'chython.algorithms.isomorphism'
RINGS = 'chython.algorithms.rings'
KEK = 'chython.algorithms.aromatics.kekule'
DSMI = 'chython.files.daylight.smiles'
CONV = 'chython.files._convert'
WRITE = 'chython.files.mdl.write'
PACK = 'chython/containers/_pack_v2.pyx'


# ---------------------------------------------------------------------------------------------------------------------------------------
def rule_stereo_gates(ck, repo, R):
    """C07/C08: a mapping of a query leaves QueryIsomorphism.get_mapping only after BOTH stereo filters accepted it"""
    ck.rule(R, 'every `yield` of QueryIsomorphism.get_mapping is reached only through the else-branch (= no break) of the loop that compares the stereo marks of query '
               'ATOMS with the target and of the loop that compares the stereo marks of query BONDS; a shortcut that skips a loop is admitted only under a condition '
               'proving that the query has no mark of that kind (emptiness of a collection derived from self.atoms() / self.bonds() filtered on .stereo)')
    f = repo.func(f'{ISO}:QueryIsomorphism.get_mapping')
    ck.require(f is not None, 'QueryIsomorphism.get_mapping not found')
    parents = enclosing_map(f.node)

    def kind_of_source(expr):
        s = src(expand_locals(expr, f.node))
        k = set()
        if 'self.atoms()' in s or 'self._atoms' in s:
            k.add('atoms')
        if 'self.bonds()' in s or 'self._bonds' in s:
            k.add('bonds')
        return k

    gates = {}
    for n in ast.walk(f.node):
        if isinstance(n, ast.For) and n.orelse and any(isinstance(b, ast.Break) for b in ast.walk(ast.Module(body=n.body, type_ignores=[]))) \
                and '.stereo' in src(ast.Module(body=n.body, type_ignores=[])):
            it = n.iter
            s = src(it)
            if 'self.bonds()' in s or ('bonds' in s and 'self.atoms()' not in src(expand_locals(it, f.node))):
                k = 'bonds' if 'self.bonds()' in src(expand_locals(it, f.node)) else None
            else:
                k = 'atoms' if 'self.atoms()' in src(expand_locals(it, f.node)) else None
            if k:
                gates[n] = k
    ck.require(set(gates.values()) == {'atoms', 'bonds'}, f'get_mapping: stereo filter loops not recognised ({sorted(gates.values())})')
    ys = [n for n in ast.walk(f.node) if isinstance(n, (ast.Yield, ast.YieldFrom))]
    ck.require(ys, 'get_mapping: no yield')
    for y in ys:
        passed = set()
        child, p = y, parents.get(y)
        while p is not None:
            if p in gates and any(child is s or child in list(ast.walk(s)) for s in p.orelse):
                passed.add(gates[p])
            child, p = p, parents.get(p)
        missing = {'atoms', 'bonds'} - passed
        stmt = y
        while not isinstance(stmt, ast.stmt):
            stmt = parents[stmt]
        conds = reach_conditions(stmt, f.node, parents)
        for c in conds:
            # `not X` with X a collection of the marked atoms / bonds of the query
            if isinstance(c, ast.UnaryOp) and isinstance(c.op, ast.Not):
                e = expand_locals(c.operand, f.node)
                s = src(e)
                if '.stereo' in s:
                    if 'self.atoms()' in s:
                        missing.discard('atoms')
                    if 'self.bonds()' in s:
                        missing.discard('bonds')
        ck.decide(not missing, R, f'yield@{src(stmt)}', sorted(passed),
                  f'QueryIsomorphism.get_mapping yields a mapping without the stereo comparison of the query {" and ".join(sorted(missing))}: a query with such a mark matches '
                  f'targets of the opposite (or no) configuration', file=f.file, line=y.lineno, func=f.qualname, construct=src(stmt))
    ck.floor(R, 1)


# ---------------------------------------------------------------------------------------------------------------------------------------
def rule_class_cache_reads_no_instance_state(ck, repo, R):
    """C18 (and any user of element data): a value cached once per CLASS cannot depend on one instance"""
    ck.rule(R, 'a class_cached_property is computed once per class and shared by all instances: its body reads no per-instance state (a slot of the class or a property '
               'whose getter reads one, e.g. isotope, charge, is_radical, coordinates)')
    n = 0
    for m in repo.modules.values():
        for c in m.classes.values():
            fns = [f for fs in c.methods.values() for f in fs if 'class_cached_property' in f.decorators]
            if not fns:
                continue
            slots = set()
            for k in repo.mro(c):
                slots |= set(k.mangle(s) for s in (k.own_slots or ()))
            for k in repo.subclasses(c):
                slots |= set(k.mangle(s) for s in (k.own_slots or ()))
            # properties that depend on the instance (fixpoint over getters)
            dep = set(slots)
            getters = {}
            for k in repo.mro(c):
                for name, fs in k.methods.items():
                    for g in fs:
                        if 'property' in g.decorators and name not in getters:
                            getters[name] = g
            changed = True
            while changed:
                changed = False
                for name, g in getters.items():
                    if name in dep:
                        continue
                    reads = {x.attr for x in ast.walk(g.node) if isinstance(x, ast.Attribute) and isinstance(x.value, ast.Name) and x.value.id == 'self'}
                    if reads & dep:
                        dep.add(name)
                        changed = True
            for f in fns:
                n += 1
                reads = sorted({x.attr for x in ast.walk(f.node) if isinstance(x, ast.Attribute) and isinstance(x.value, ast.Name) and x.value.id == 'self'} & dep)
                ck.decide(not reads, R, f'{c.name}.{f.name}', reads,
                          f'{c.name}.{f.name} is cached once per class but reads the per-instance state {reads}: the first instance asked fixes the value for every other '
                          f'instance of the class (e.g. the mass of an isotope-labelled atom)', file=f.file, line=f.lineno, func=f.qualname)
    ck.count(f'{R}: class-level cached values', n)
    ck.require(n >= 5, f'{R}: {n} class_cached_property found, 5 confirmed by hand')


# ---------------------------------------------------------------------------------------------------------------------------------------
def rule_canonic_ring_orientation(ck, repo, R):
    """C06: _canonic_ring must give ONE tuple per cycle whatever rotation / direction the raw path has"""
    ck.rule(R, '_canonic_ring: for every position of the smallest atom in the raw tuple and both outcomes of the neighbour comparison, the returned tuple starts at the '
               'smallest atom and continues with the SMALLER of its two ring neighbours (decided over positions of a 5- and a 6-ring: every return expression is evaluated '
               'on the tuple of positions, the data-dependent comparison is followed both ways)')
    from .r_query import _ev, _Unknown
    f = repo.func(f'{RINGS}:_canonic_ring')
    ck.require(f is not None, '_canonic_ring not found')
    par = f.params()[0]
    mins, idxs = set(), set()
    for st in f.node.body:
        if isinstance(st, ast.Assign) and isinstance(st.targets[0], ast.Name):
            v = src(st.value)
            if v == f'min({par})':
                mins.add(st.targets[0].id)
            elif any(v == f'{par}.index({m})' for m in mins | {f'min({par})'}):
                idxs.add(st.targets[0].id)
    ck.require(idxs, '_canonic_ring: index of the smallest atom not found')

    def data_compare(t):
        """ring[a] < ring[b] -> (a_expr, op, b_expr)"""
        if isinstance(t, ast.Compare) and len(t.ops) == 1 and isinstance(t.ops[0], (ast.Lt, ast.Gt, ast.LtE, ast.GtE)):
            l, r = t.left, t.comparators[0]
            if all(isinstance(x, ast.Subscript) and src(x.value) == par and not isinstance(x.slice, ast.Slice) for x in (l, r)):
                return l.slice, t.ops[0], r.slice
        return None

    def value(e, env):
        if isinstance(e, ast.Tuple):
            out = []
            for x in e.elts:
                if isinstance(x, ast.Starred):
                    out.extend(value(x.value, env))
                else:
                    out.append(value(x, env))
            return tuple(out)
        return _ev(e, env)

    def paths(stmts, env, assumed):
        for i, st in enumerate(stmts):
            if isinstance(st, ast.Return):
                yield assumed, st
                return
            if isinstance(st, ast.If):
                dc = data_compare(st.test)
                rest = stmts[i + 1:]
                if dc is not None:
                    yield from paths(list(st.body) + rest, env, assumed + [(dc, True)])
                    yield from paths(list(st.orelse) + rest, env, assumed + [(dc, False)])
                else:
                    try:
                        t = _ev(st.test, env)
                    except _Unknown as e:
                        raise AnalysisError(f'_canonic_ring: test `{src(st.test)}` not understood ({e})')
                    yield from paths((list(st.body) if t else list(st.orelse)) + rest, env, assumed)
                return
            if isinstance(st, ast.Assign) and isinstance(st.targets[0], ast.Name) and st.targets[0].id in mins | idxs:
                continue
            if isinstance(st, ast.Expr) and isinstance(st.value, ast.Constant):
                continue
            raise AnalysisError(f'_canonic_ring: statement `{src(st)}` not understood')
        raise AnalysisError('_canonic_ring: a path falls off the end')
    n = 0
    for size in (5, 6):
        for k in range(size):
            env = {par: tuple(range(size))}
            for m in mins | idxs:
                env[m] = k  # the smallest atom, named by its position
            for assumed, ret in paths(list(f.node.body), env, []):
                try:
                    got = value(ret.value, env)
                except _Unknown as e:
                    raise AnalysisError(f'_canonic_ring: return `{src(ret.value)}` not understood ({e})')
                ck.require(len(assumed) == 1, f'_canonic_ring: {len(assumed)} data comparisons on one path')
                (a, op, b), outcome = assumed[0]
                pa, pb = _ev(a, env) % size, _ev(b, env) % size
                less = isinstance(op, (ast.Lt, ast.LtE))
                smaller = pa if less == outcome else pb
                nb = {(k + 1) % size, (k - 1) % size}
                n += 1
                ok = isinstance(got, tuple) and len(got) == size and set(got) == set(range(size)) and got[0] == k and {pa, pb} == nb and got[1] == smaller \
                    and all((got[i + 1] - got[i]) % size == (got[1] - got[0]) % size for i in range(size - 1))
                ck.decide(ok, R, f'size{size}:min@{k}:{src(ret.value)}:{outcome}', got,
                          f'_canonic_ring: with the smallest atom at position {k} of a {size}-ring and `{src(ast.Compare(left=ast.Subscript(value=ast.Name(id=par), slice=a), ops=[op], comparators=[ast.Subscript(value=ast.Name(id=par), slice=b)]))}` '
                          f'{outcome}, `return {src(ret.value)}` gives positions {got}: the canonical tuple must start at the smallest atom and walk to its smaller neighbour '
                          f'(position {smaller}) in ring order; otherwise one cycle has two "canonical" tuples and is reported twice', file=f.file, line=ret.lineno, func=f.qualname, construct=src(ret.value))
    ck.require(n >= 22, f'{R}: {n} (position, outcome) cases, 22 expected')


# ---------------------------------------------------------------------------------------------------------------------------------------
def rule_pyrrole_pair_threshold(ck, repo, R):
    """C05: undecided aromatic N become pyrrole-like in PAIRS; a form with one pair must be buffered like a form with two"""
    ck.rule(R, '_kekule_component: the test that postpones a Kekule form containing pyrrole-like N-H (so that an all-pyridine form is preferred) holds for every non-zero '
               'count of such atoms (they come in pairs: 2, 4, ...) and not for 0')
    from .r_query import _ev, _Unknown
    f = repo.func(f'{KEK}:_kekule_component')
    ck.require(f is not None, '_kekule_component not found')
    cs = [n for n in ast.walk(f.node) if isinstance(n, ast.Compare) and any(isinstance(x, ast.Call) and src(x.func) in ('sum', 'len') and 'pyrroles' in src(x) for x in [n.left] + n.comparators)]
    ck.require(len(cs) == 1, f'_kekule_component: pyrrole-count test not recognised ({len(cs)} candidates)')
    c = cs[0]
    cnt = [x for x in [c.left] + c.comparators if isinstance(x, ast.Call) and 'pyrroles' in src(x)][0]
    got = {}
    for k in (0, 2, 4):
        try:
            got[k] = bool(_ev(c, {src(cnt): k}))
        except _Unknown as e:
            raise AnalysisError(f'_kekule_component: `{src(c)}` not understood ({e})')
    # polarity: the test guards the buffering branch (buffer.append) or its negation guards the direct yield
    parents = enclosing_map(f.node)
    p = parents.get(c)
    while p is not None and not isinstance(p, ast.If):
        p = parents.get(p)
    ck.require(p is not None, '_kekule_component: pyrrole-count test is not an if-test')
    buffering = 'buffer' in src(ast.Module(body=p.body, type_ignores=[]))
    want = {0: not buffering, 2: buffering, 4: buffering}
    ck.decide(got == want, R, 'pairs', got,
              f'_kekule_component: `{src(c)}` is {got} for 0 / 2 / 4 pyrrole-like atoms; a form with ONE pair of N-H must be postponed too, otherwise the dihydro compound is '
              f'returned for some atom numberings (different formula)', file=f.file, line=c.lineno, func=f.qualname, construct=src(c))


# ---------------------------------------------------------------------------------------------------------------------------------------
def _effective(call, fdef, opt):
    for k in call.keywords:
        if k.arg == opt:
            return src(k.value)
        if k.arg is None:
            raise AnalysisError(f'options handed over as `**{src(k.value)}`: effective values not decidable')
    a = fdef.args
    for p, d in zip(a.kwonlyargs, a.kw_defaults):
        if p.arg == opt:
            return src(d) if d is not None else None
    pos = a.posonlyargs + a.args
    for p, d in zip(pos[len(pos) - len(a.defaults):], a.defaults):
        if p.arg == opt:
            return src(d)
    return None


def rule_sibling_options(ck, repo, R):
    """C03: molecules inside a reaction SMILES are built under the same options as stand-alone molecules"""
    ck.rule(R, 'smiles(): the calls of create_molecule and create_reaction receive the same effective value (explicit keyword or the default of the callee) for every '
               'option the two builders share (keep_radicals, keep_implicit, ignore_*, ...); create_reaction forwards every shared option unchanged to create_molecule')
    conv = repo.module(CONV)
    ck.require(conv is not None and 'create_molecule' in conv.functions and 'create_reaction' in conv.functions, '_convert builders not found')
    cm, cr = conv.functions['create_molecule'].node, conv.functions['create_reaction'].node
    shared = [p.arg for p in cm.args.kwonlyargs if p.arg in {q.arg for q in cr.args.kwonlyargs} and not p.arg.startswith('_')]
    ck.require(len(shared) >= 6, f'shared options of the builders: {shared}')
    f = repo.func(f'{DSMI}:smiles')
    ck.require(f is not None, 'daylight smiles() not found')
    calls = {'create_molecule': [], 'create_reaction': []}
    for n in ast.walk(f.node):
        if isinstance(n, ast.Call) and isinstance(n.func, ast.Name) and n.func.id in calls:
            calls[n.func.id].append(n)
    ck.require(len(calls['create_molecule']) == 1 and len(calls['create_reaction']) == 1, 'smiles(): builder calls not recognised')
    a, b = calls['create_molecule'][0], calls['create_reaction'][0]
    for opt in shared:
        va, vb = _effective(a, cm, opt), _effective(b, cr, opt)
        ck.decide(va == vb and va is not None, R, f'smiles:{opt}', (va, vb),
                  f'smiles(): option {opt} is effectively `{va}` for a stand-alone molecule but `{vb}` for the molecules of a reaction: the same component text denotes '
                  f'different molecules inside and outside a reaction', file=f.file, line=b.lineno, func=f.qualname, construct=opt)
    inner = [n for n in ast.walk(cr) if isinstance(n, ast.Call) and isinstance(n.func, ast.Name) and n.func.id == 'create_molecule']
    ck.require(len(inner) == 1, 'create_reaction: call of create_molecule not recognised')
    for opt in shared:
        v = _effective(inner[0], cm, opt)
        ck.decide(v == opt, R, f'forward:{opt}', v, f'create_reaction passes `{v}` as {opt} to create_molecule instead of its own argument: the option given by the caller is ignored for '
                  f'reaction components', file=conv.relpath, line=inner[0].lineno, func='create_reaction', construct=opt)


# ---------------------------------------------------------------------------------------------------------------------------------------
CX_WITNESSES = {
    'cx_radicals': ['^1:0', '^1:0,10', '^7:12,0,3', '^1:100'],
    'cx_fragments': ['f:0.1', 'f:0.10,2.3', 'f:10.0.7'],
}


def rule_cx_index_language(ck, repo, R, modules):
    """C02/C03: CXSMILES indices are 0-based decimal numbers; the writer emits `0` for the first atom"""
    ck.rule(R, 'the literal patterns of the CXSMILES blocks accept every index the writer can emit: 0-based decimal positions (0, 7, 10, 100) in every position of the list '
               '(decided by matching the pattern literal against witness strings; only the literal is used, no library code)')
    n = 0
    for mname in modules:
        m = repo.module(mname)
        ck.require(m is not None, f'{mname} not found')
        for var, wit in CX_WITNESSES.items():
            e = m.assigns.get(var)
            if e is None:
                continue
            ck.require(isinstance(e, ast.Call) and e.args and isinstance(e.args[0], ast.Constant) and isinstance(e.args[0].value, str), f'{mname}.{var} is not compile(<literal>)')
            pat = e.args[0].value
            try:
                rx = re.compile(pat)
            except re.error as x:
                raise AnalysisError(f'{mname}.{var}: pattern does not compile: {x}')
            n += 1
            bad = [w for w in wit if not rx.fullmatch(w)]
            ck.decide(not bad, R, f'{mname.rsplit(".", 1)[1]}.{var}', pat,
                      f'{mname}.{var} = `{pat}` does not accept {bad}: atom indices of CXSMILES blocks are 0-based, so the block written for the first atom (or any index '
                      f'with that shape) is silently skipped on reading', file=m.relpath, line=e.lineno, construct=pat)
    ck.require(n >= 3, f'{R}: {n} CX patterns found, 3 confirmed by hand')


# ---------------------------------------------------------------------------------------------------------------------------------------
def rule_mol_property_positions(ck, repo, R):
    """C11: M  ISO / RAD / CHG lines (and bond lines) address atoms by their POSITION in the atom block, not by atom number"""
    ck.rule(R, 'MOLWrite._write_molecule: the atom field of every `M  ISO/RAD/CHG` line is the running position (first target of an enumerate(..., start=1) over the atoms '
               'in atom-block order); bond lines of both MOL writers index atoms through a map built as {atom: position for position, atom in enumerate(g, start=1)}')
    n = 0
    for cls in ('MOLWrite', 'EMOLWrite'):
        f = repo.func(f'{WRITE}:{cls}._write_molecule')
        ck.require(f is not None, f'{cls}._write_molecule not found')
        parents = enclosing_map(f.node)
        for js in [x for x in ast.walk(f.node) if isinstance(x, ast.JoinedStr)]:
            head = js.values[0].value if js.values and isinstance(js.values[0], ast.Constant) else ''
            fv = [v for v in js.values if isinstance(v, ast.FormattedValue)]
            if head.startswith(('M  ISO', 'M  RAD', 'M  CHG')):
                ck.require(fv and isinstance(fv[0].value, ast.Name), f'{cls}: atom field of `{head}` not recognised')
                name = fv[0].value.id
                loop = parents.get(js)
                while loop is not None and not (isinstance(loop, ast.For) and name in {x.id for x in ast.walk(loop.target) if isinstance(x, ast.Name)}):
                    loop = parents.get(loop)
                ck.require(loop is not None, f'{cls}: loop binding `{name}` not found')
                it = loop.iter
                ok = isinstance(it, ast.Call) and src(it.func) == 'enumerate' and any(k.arg == 'start' and src(k.value) == '1' for k in it.keywords) \
                    and isinstance(loop.target, ast.Tuple) and isinstance(loop.target.elts[0], ast.Name) and loop.target.elts[0].id == name \
                    and src(it.args[0]) in ('g.atoms()', 'g', 'g._atoms.items()', 'g._atoms')
                n += 1
                ck.decide(ok, R, f'{cls}:{head.strip()}', src(loop.iter),
                          f'{cls}: the atom field of `{head.strip()}` is `{name}` bound by `for {src(loop.target)} in {src(loop.iter)}`: property lines address atoms by position in '
                          f'the atom block (1..N); for a molecule whose atom numbers are not 1..N the isotope / radical / charge lands on another atom or is dropped',
                          file=f.file, line=js.lineno, func=f.qualname, construct=head.strip())
        # position maps used by bond lines
        for st in ast.walk(f.node):
            if isinstance(st, ast.Assign) and isinstance(st.value, ast.DictComp) and isinstance(st.targets[0], ast.Name) and st.targets[0].id in ('atoms', 'mapping'):
                d = st.value
                g = d.generators[0]
                ok = len(d.generators) == 1 and isinstance(g.iter, ast.Call) and src(g.iter.func) == 'enumerate' and any(k.arg == 'start' and src(k.value) == '1' for k in g.iter.keywords) \
                    and isinstance(g.target, ast.Tuple) and len(g.target.elts) == 2 and src(d.value) == src(g.target.elts[0]) and src(d.key) == src(g.target.elts[1]) \
                    and src(g.iter.args[0]) in ('g', 'g._atoms', 'g.atoms()')
                n += 1
                ck.decide(ok, R, f'{cls}:map:{st.targets[0].id}', src(d), f'{cls}: the position map `{src(st)}` is not atom -> 1-based position in atom-block order',
                          file=f.file, line=st.lineno, func=f.qualname, construct=src(d))
    ck.require(n >= 5, f'{R}: {n} position uses found, 5 confirmed by hand')


# ---------------------------------------------------------------------------------------------------------------------------------------
def rule_half_float_encoder(ck, repo, R):
    """C10: double_to_float16 (the coordinate encoder): range guard, sub-normal threshold and bias are stated on the IEEE exponent = frexp exponent - 1"""
    from .tables import pyx_source, strip_comments
    ck.rule(R, 'double_to_float16: with E the exponent returned by frexp, the value is rejected (written as 0) exactly when E-1 >= 16 or E-1 < -25, it is sub-normal exactly when '
               'E-1 < -14, and the exponent field of a normal value is E-1+15; the fraction is doubled before the leading one is removed (decided by tracking `e` as E + offset '
               'through the statements in order)')
    text = strip_comments(pyx_source(repo.root, PACK))
    m = re.search(r'cdef void double_to_float16\(double x, unsigned char\* ?p\):\n((?:    .*\n|\n)+)', text)
    ck.require(m is not None, '_pack_v2.pyx: double_to_float16 not found')
    lines = [l[4:] for l in m.group(1).splitlines() if not l.strip().startswith('cdef ')]
    body = '\n'.join(lines)
    body = re.sub(r'<[a-z ]+>\s*', '', body).replace('&e', 'e')
    try:
        tree = ast.parse(body)
    except SyntaxError as e:
        raise AnalysisError(f'double_to_float16: body is not plain statements ({e})')
    found = {'reject': None, 'subnormal': None, 'bias': None, 'doubled': False, 'frexp': False}

    def bounds(test, d):
        out = []
        for c in ast.walk(test):
            if isinstance(c, ast.Compare) and len(c.ops) == 1 and src(c.left) == 'e':
                k = c.comparators[0]
                try:
                    v = ast.literal_eval(k)
                except Exception:
                    raise AnalysisError(f'double_to_float16: bound `{src(k)}` is not a literal')
                out.append((type(c.ops[0]).__name__, v - d - 1))  # in terms of the IEEE exponent E-1
        return sorted(out)

    def run(stmts, d, doubled):
        for i, st in enumerate(stmts):
            s = src(st)
            if isinstance(st, ast.Assign) and 'frexp(' in s:
                found['frexp'] = True
                d = 0
            elif isinstance(st, ast.AugAssign) and src(st.target) == 'e' and isinstance(st.op, (ast.Add, ast.Sub)) and isinstance(st.value, ast.Constant):
                if d is not None:
                    d += st.value.value if isinstance(st.op, ast.Add) else -st.value.value
            elif isinstance(st, ast.AugAssign) and src(st.target) == 'f' and isinstance(st.op, ast.Mult) and src(st.value) in ('2.0', '2', '2.'):
                doubled = True
            elif isinstance(st, ast.AugAssign) and src(st.target) == 'f' and isinstance(st.op, ast.Sub) and found['bias'] is None and d is not None:
                found['doubled'] = doubled
            elif isinstance(st, ast.If) and d is not None and any(src(c.left) == 'e' for c in ast.walk(st.test) if isinstance(c, ast.Compare)):
                b = bounds(st.test, d)
                if len(b) == 2 and found['reject'] is None:
                    found['reject'] = b
                elif len(b) == 1 and found['subnormal'] is None:
                    found['subnormal'] = b
                    # normal path: bias
                    normal = st.orelse if b[0][0] in ('Lt', 'LtE') else st.body
                    dd = d
                    for x in normal:
                        if isinstance(x, ast.AugAssign) and src(x.target) == 'e' and isinstance(x.value, ast.Constant):
                            dd += x.value.value if isinstance(x.op, ast.Add) else -x.value.value
                        if isinstance(x, ast.AugAssign) and src(x.target) == 'f' and isinstance(x.op, ast.Sub):
                            found['doubled'] = doubled
                    found['bias'] = dd + 1  # field = (E-1) + bias
                    continue
                run(st.body, d, doubled)
        return d
    run(tree.body, None, False)
    ck.require(found['frexp'] and found['reject'] is not None and found['subnormal'] is not None, f'double_to_float16: guards not recognised ({found})')
    ck.decide(found['reject'] == [('GtE', 16), ('Lt', -25)], R, 'range-guard', found['reject'],
              f'double_to_float16 rejects IEEE exponents {found["reject"]} (expected >= 16 or < -25): values in a whole octave of the half-float range are written as 0 '
              f'(or out-of-range values are encoded as garbage)', file=PACK)
    ck.decide(found['subnormal'] == [('Lt', -14)], R, 'subnormal-threshold', found['subnormal'],
              f'double_to_float16 switches to the sub-normal encoding at IEEE exponent {found["subnormal"]} (expected < -14)', file=PACK)
    ck.decide(found['bias'] == 15, R, 'bias', found['bias'], f'double_to_float16 stores exponent field = IEEE exponent + {found["bias"]} (expected 15)', file=PACK)
    ck.decide(found['doubled'], R, 'fraction-doubled', found['doubled'], 'double_to_float16 removes the leading one before the fraction of frexp (0.5 <= f < 1) is doubled', file=PACK)


# ---------------------------------------------------------------------------------------------------------------------------------------
def rule_no_break_over_sets(ck, repo, R):
    """C09: the ring sizes of a molecule atom are a SET: leaving the encoding loop at the first unsupported size drops sizes at random"""
    ck.rule(R, 'MoleculeIsomorphism._cython_compiled_structure: a loop over the (unordered) ring-size set of an atom runs to the end: no break / return inside it')
    f = repo.func(f'{ISO}:MoleculeIsomorphism._cython_compiled_structure')
    ck.require(f is not None, '_cython_compiled_structure not found')
    loops = [n for n in ast.walk(f.node) if isinstance(n, ast.For) and src(expand_locals(n.iter, f.node)).endswith('.ring_sizes')]
    ck.require(loops, '_cython_compiled_structure: loop over ring sizes not found')
    for l in loops:
        esc = [x for x in ast.walk(ast.Module(body=l.body, type_ignores=[])) if isinstance(x, (ast.Break, ast.Return))]
        ck.decide(not esc, R, f'loop:{src(l.iter)}', len(esc),
                  f'_cython_compiled_structure: the loop over `{src(l.iter)}` (a set, iteration order arbitrary) is left by `{src(esc[0]) if esc else ""}`: the ring-size bits '
                  f'encoded for an atom in a >65-membered and a small ring depend on set order, the compiled matcher disagrees with the reference one',
                  file=f.file, line=(esc[0].lineno if esc else l.lineno), func=f.qualname, construct=src(l.iter))
