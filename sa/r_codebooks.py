# -*- coding: utf-8 -*-
"""C-d code-book rules (writer <-> reader agreement) built on sa/codebooks.py"""
import ast
from .core import AnalysisError
from .astutil import src
from .codebooks import regex_literal, group_language, whole_language, atom_re_groups, TOK
from .tables import module_literal

SMI = 'chython.algorithms.smiles'


def rule_charge_spellings(ck, repo, R):
    ck.rule(R, 'every charge spelling listed in charge_dict is reachable: it belongs to the language of the charge group of atom_re '
               '(SMILES) and of chg_re (SMARTS); every string those groups accept is either a key or rejected under try/except KeyError')
    cd = module_literal(repo, TOK, 'charge_dict')
    m = repo.module(TOK)
    names = atom_re_groups(repo)
    ck.require('charge' in names, 'charge group of atom_re not identifiable')
    lang = group_language(regex_literal(repo, TOK, 'atom_re'), names.index('charge') + 1)
    chg = whole_language(regex_literal(repo, TOK, 'chg_re'))
    line = m.assigns['charge_dict'].lineno
    for k in sorted(cd):
        ck.decide(k in lang, R, f'smiles:{k}', cd[k], f'charge spelling {k!r} is listed in charge_dict but atom_re can never match it: [X{k}] is rejected',
                  file=m.relpath, line=m.assigns['atom_re'].lineno)
        ck.decide(k in chg, R, f'smarts:{k}', cd[k], f'charge spelling {k!r} is listed in charge_dict but chg_re can never match it',
                  file=m.relpath, line=m.assigns['chg_re'].lineno)
    # values
    for k, v in sorted(cd.items()):
        sign = 1 if k[0] == '+' else -1
        mag = int(k[1:]) if k[1:].isdigit() else len(k)
        ck.decide(v == sign * mag, R, f'value:{k}', v, f'charge_dict[{k!r}] = {v}, the spelling denotes {sign * mag}', file=m.relpath, line=line)
    ck.floor(R, 40)
    return cd, lang, chg
