# -*- coding: utf-8 -*-
"""C-d code-book rules (writer <-> reader agreement) built on sa/codebooks.py"""
import ast
from .core import AnalysisError
from .astutil import src, helper_returns, reach_conditions, enclosing_map, positive_conjuncts
from .codebooks import regex_literal, group_language, whole_language, atom_re_groups, TOK
from .tables import module_literal

SMI = 'chython.algorithms.smiles'


def _ifexp_arms(e, conds=()):
    """leaves of a conditional expression with the (textual) conditions selecting them"""
    if isinstance(e, ast.IfExp):
        t = [src(c) for c in positive_conjuncts(e.test)]
        return _ifexp_arms(e.body, tuple(conds) + tuple(t)) + _ifexp_arms(e.orelse, tuple(conds))
    return [(e, list(conds))]


def rule_charge_spellings(ck, repo, R):
    ck.rule(R, 'every charge spelling listed in charge_dict is reachable: it belongs to the language of the charge group of atom_re '
               '(SMILES) and of chg_re (SMARTS); every string those groups accept is either a key or rejected under try/except KeyError')
    cd = module_literal(repo, TOK, 'charge_dict')
    m = repo.module(TOK)
    names = atom_re_groups(repo)
    ck.require('charge' in names, 'charge group of atom_re not identifiable')
    lang = group_language(regex_literal(repo, TOK, 'atom_re'), names.index('charge') + 1)
    chg = whole_language(regex_literal(repo, TOK, 'chg_re'))
    line = m.assigns['charge_dict'].lineno
    for k in sorted(cd):
        ck.decide(k in lang, R, f'smiles:{k}', cd[k], f'charge spelling {k!r} is listed in charge_dict but atom_re can never match it: [X{k}] is rejected',
                  file=m.relpath, line=m.assigns['atom_re'].lineno)
        ck.decide(k in chg, R, f'smarts:{k}', cd[k], f'charge spelling {k!r} is listed in charge_dict but chg_re can never match it',
                  file=m.relpath, line=m.assigns['chg_re'].lineno)
    # values
    for k, v in sorted(cd.items()):
        sign = 1 if k[0] == '+' else -1
        mag = int(k[1:]) if k[1:].isdigit() else len(k)
        ck.decide(v == sign * mag, R, f'value:{k}', v, f'charge_dict[{k!r}] = {v}, the spelling denotes {sign * mag}', file=m.relpath, line=line)
    # spellings the regex admits but the table does not list must be rejected by the decoding branch
    for fn, language, what in (('_atom_parse', lang, 'atom_re charge group'), ('_query_parse', chg, 'chg_re')):
        extra = sorted(language - set(cd))
        f = repo.func(f'{TOK}:{fn}')
        blocks = [n for n in ast.walk(f.node) if isinstance(n, ast.If) and (src(n.test) == 'charge' or isinstance(n.test, ast.NamedExpr) and src(n.test.target) == 'charge')]
        if not blocks:
            raise AnalysisError(f'{fn}: charge decoding branch not found')
        rejects = any(isinstance(x, ast.Raise) for x in ast.walk(ast.Module(body=blocks[0].body, type_ignores=[])))
        ck.decide(not extra or rejects, R, f'{fn}:rejects-non-charges', extra,
                  f'{what} also matches {extra}, which are not charge spellings, and the charge branch of {fn} has no rejection: such tokens are read as some charge '
                  f'instead of raising the invalid-SMILES error', file=f.file, line=blocks[0].lineno, func=fn)
    ck.floor(R, 40)
    return cd, lang, chg


def _ladder_returns(func, var='bond'):
    """{order constant | 'else': set of returned string constants} for an if/elif ladder on `var == K`"""
    from .astutil import if_chain
    body_ = func.node.body
    tops = [s for s in body_ if isinstance(s, ast.If) and any(t is not None and (src(t).startswith(f'{var} == ') or src(t).startswith(f'{var}.order == ')) for t, _ in if_chain(s))]
    if not tops:
        raise AnalysisError(f'{func.fq}: `{var} == K` ladder not found')
    # one if/elif/else chain, or the flattened form: consecutive `if var == K: ... return` statements followed by the default return(s)
    entries = []
    for i_, top in enumerate(tops):
        ch = if_chain(top)
        if len(tops) > 1 and any(t is None for t, _ in ch) and top is not tops[-1]:
            raise AnalysisError(f'{func.fq}: `{var} == K` ladder has an else arm before its last statement')
        entries += ch
    if len(tops) > 1 or not any(t is None for t, _ in entries):
        tail = body_[body_.index(tops[-1]) + 1:]
        if tail and not any(t is None for t, _ in entries):
            entries.append((None, tail))
    out = {}
    for test, blk in entries:
        key = 'else'
        if test is not None:
            # Bond.__eq__(int) compares the order: `bond == K` and `bond.order == K` are the same test
            if not (isinstance(test, ast.Compare) and src(test.left) in (var, f'{var}.order') and isinstance(test.ops[0], ast.Eq) and isinstance(test.comparators[0], ast.Constant)):
                raise AnalysisError(f'{func.fq}: ladder guard `{src(test)}` not recognised')
            key = test.comparators[0].value
        rets = set()
        for n in ast.walk(ast.Module(body=blk, type_ignores=[])):
            if isinstance(n, ast.Return):
                if isinstance(n.value, ast.Constant) and isinstance(n.value.value, str):
                    rets.add(n.value.value)
                elif isinstance(n.value, ast.IfExp):
                    for v in (n.value.body, n.value.orelse):
                        if isinstance(v, ast.Constant):
                            rets.add(v.value)
                elif n.value is not None:
                    raise AnalysisError(f'{func.fq}: returned bond token `{src(n.value)}` is not a constant')
        out[key] = (rets, blk)
    return out


def rule_smiles_codebooks(ck, repo, R):
    ck.rule(R, 'writer and reader code books are mutually inverse: charge_str -> atom_re charge group -> charge_dict gives the charge back; '
               'bond symbols of _format_bond map back through replace_dict and a single bond between two aromatic atoms is written '
               'explicitly; H / Hn; @ <-> True; ring-closure numbers 1..99 as digit / %nn; unbracketed symbols are symbols the tokenizer '
               'accepts bare; aromatic (lower-case) symbols the writer can emit are accepted by the reader')
    tok = repo.module(TOK)
    smi = repo.module(SMI)
    cd = module_literal(repo, TOK, 'charge_dict')
    cs = module_literal(repo, SMI, 'charge_str')
    names = atom_re_groups(repo)
    pat = regex_literal(repo, TOK, 'atom_re')
    lang = group_language(pat, names.index('charge') + 1)
    line = smi.assigns['charge_str'].lineno
    for c in range(-4, 5):
        if c == 0:
            continue
        t = cs.get(c)
        ck.decide(t is not None and t in lang and cd.get(t) == c, R, f'charge:{c}', t,
                  f'charge {c} is written {t!r}; the reader {"cannot match it" if t not in lang else "reads it as " + repr(cd.get(t))}',
                  file=smi.relpath, line=line)
    fa = repo.func(f'{SMI}:MoleculeSmiles._format_atom')
    uses = [n for n in ast.walk(fa.node) if isinstance(n, ast.Subscript) and src(n.value) == 'charge_str']
    ck.decide(len(uses) == 1 and src(uses[0].slice) == 'atom.charge', R, 'charge:index', None, '_format_atom no longer indexes charge_str by atom.charge', file=fa.file, line=fa.lineno)
    # bonds
    rd = module_literal(repo, TOK, 'replace_dict')
    fb = repo.func(f'{SMI}:MoleculeSmiles._format_bond')
    lad = _ladder_returns(fb)
    ck.require(set(lad) == {4, 1, 2, 3, 'else'}, f'_format_bond ladder covers {sorted(lad, key=str)}')
    for o, (rets, blk) in lad.items():
        order = 8 if o == 'else' else o
        for s in sorted(rets):
            if s in ('', '/', '\\'):
                continue
            ck.decide(rd.get(s) == order, R, f'bond:{order}:{s}', rd.get(s), f'bond order {order} is written {s!r}, the tokenizer reads {s!r} as {rd.get(s)}',
                      file=fb.file, line=fb.lineno, func=fb.qualname)
        if order in (2, 3, 8):
            ck.decide('' not in rets and len(rets) == 1, R, f'bond:{order}:explicit', sorted(rets), f'bond order {order} can be written as {sorted(rets)}; it must always have its own symbol',
                      file=fb.file, line=fb.lineno, func=fb.qualname)
    r1, blk1 = lad[1]
    ck.decide({'/', '\\'} <= r1 and '-' in r1, R, 'bond:1:tokens', sorted(r1), f'single bond tokens are {sorted(r1)}; expected "", "-", "/" and "\\\\"', file=fb.file, line=fb.lineno)
    arom_guard = False
    for n in ast.walk(ast.Module(body=blk1, type_ignores=[])):
        if isinstance(n, ast.If) and 'hybridization' in src(n.test) and '== 4' in src(n.test) and any(isinstance(x, ast.Return) and isinstance(x.value, ast.Constant) and x.value.value == '-' for x in n.body):
            t = src(n.test)
            arom_guard = '[n]' in t and '[m]' in t
    ck.decide(arom_guard, R, 'bond:1:between-aromatic-atoms', None,
              '_format_bond no longer writes an explicit "-" between two aromatic atoms: cc would be read back as an aromatic bond', file=fb.file, line=fb.lineno, func=fb.qualname)
    # slash polarity: True -> '/'
    sl = [n for n in ast.walk(fb.node) if isinstance(n, ast.IfExp) and {src(n.body), src(n.orelse)} == {"'/'", "'\\\\'"}]
    tk = repo.func(f'{TOK}:_tokenize')
    up = [n for n in ast.walk(tk.node) if isinstance(n, ast.Compare) and src(n) in ("s == '/'", "s == '\\\\'")]
    ck.require(len(sl) == 1 and up, 'direction-mark emission / tokenisation not recognised')
    ck.decide((src(sl[0].body) == "'/'") == (src(up[0]) == "s == '/'"), R, 'bond:direction-polarity', src(sl[0]),
              f'writer emits {src(sl[0])} while the tokenizer codes Up as `{src(up[0])}`: cis/trans marks flip on re-reading', file=fb.file, line=sl[0].lineno)
    # hydrogens
    hl = group_language(pat, names.index('hydrogen') + 1)
    hw = set()
    h_sites = []
    parents = enclosing_map(fa.node)
    for n in ast.walk(fa.node):
        if isinstance(n, ast.Assign) and src(n.targets[0]) == 'smi[4]':
            rets = helper_returns(n.value, fa.module.tree)  # token chosen by an extracted helper: its return expressions, arguments substituted
            if rets is not None:
                hw |= {src(r) for r in rets if src(r) != "''"}
            elif src(n.value) != "''":  # the empty token is the initial value of the slot
                for leaf, conds in _ifexp_arms(n.value):
                    hw.add(src(leaf))
                    if src(leaf) == "'H'":
                        h_sites.append((n, conds + [src(c) for c in reach_conditions(n, fa.node, parents)]))
    ck.decide(hw == {"'H'", "f'H{atom.implicit_hydrogens}'"} and 'H' in hl and all(f'H{i}' in hl for i in range(2, 5)), R, 'hydrogens', sorted(hw),
              f'hydrogen tokens written {sorted(hw)} vs read {sorted(hl)}', file=fa.file, line=fa.lineno)
    for n, conds in h_sites:
        ck.decide('atom.implicit_hydrogens == 1' in conds, R, 'hydrogens:bare-H-means-one', conds,
                  f"the bare 'H' token is written under {conds}: the reader decodes it as exactly one hydrogen", file=fa.file, line=n.lineno)
    ap = repo.func(f'{TOK}:_atom_parse')
    s = src(ap.node)
    ck.decide('hydrogen = int(hydrogen[1:])' in s and 'hydrogen = 1' in s and 'hydrogen = 0' in s, R, 'hydrogens:reader', None,
              '_atom_parse no longer decodes H / Hn / absent as 1 / n / 0', file=ap.file, line=ap.lineno)
    # closures
    sm = repo.func(f'{SMI}:Smiles._smiles')
    heap = [n for n in ast.walk(sm.node) if isinstance(n, ast.Assign) and src(n.targets[0]) == 'heap']
    ck.require(len(heap) == 1, '_smiles: closure number heap not found')
    rng = None
    for n in ast.walk(heap[0].value):
        if isinstance(n, ast.Call) and src(n.func) == 'range':
            try:
                rng = [ast.literal_eval(a) for a in n.args]
            except Exception:
                pass
    fc = repo.func(f'{SMI}:Smiles._format_closure')
    b = [x for x in fc.node.body if isinstance(x, ast.Return)]
    ok_fmt = len(b) == 1 and src(b[0].value) == "str(c) if c < 10 else f'%{c}'"
    ck.decide(rng is not None and len(rng) == 2 and rng[0] >= 1 and rng[1] <= 100 and ok_fmt, R, 'closures', rng,
              f'closure numbers {rng} written by `{src(b[0].value) if b else None}`: the tokenizer reads one digit or % followed by exactly two digits (1..99)',
              file=fc.file, line=fc.lineno)
    ck.decide('len(token) == 2' in src(tk.node), R, 'closures:reader', None, 'tokenizer no longer reads exactly two digits after %', file=tk.file, line=tk.lineno)
    # organic subset
    org = module_literal(repo, SMI, 'organic_set')
    bare = set()
    for n in ast.walk(tk.node):
        if isinstance(n, ast.Compare) and isinstance(n.ops[0], ast.In) and src(n.left) == 's' and isinstance(n.comparators[0], ast.Constant) and \
                isinstance(n.comparators[0].value, str) and n.comparators[0].value.isalpha() and n.comparators[0].value.isupper():
            bare |= set(n.comparators[0].value)
    for n in ast.walk(tk.node):
        if isinstance(n, ast.Call) and src(n.func) == 'tokens.append' and isinstance(n.args[0], ast.Tuple) and isinstance(n.args[0].elts[1], ast.Constant) and \
                isinstance(n.args[0].elts[1].value, str):
            bare.add(n.args[0].elts[1].value)
    ck.decide(org <= bare, R, 'organic-subset', sorted(org), f'writer leaves {sorted(org - bare)} unbracketed but the tokenizer does not accept them bare', file=smi.relpath,
              line=smi.assigns['organic_set'].lineno)
    # aromatic symbols
    arom_bare = set()
    for n in ast.walk(tk.node):
        if isinstance(n, ast.Compare) and isinstance(n.ops[0], ast.In) and src(n.left) == 's' and isinstance(n.comparators[0], ast.Constant) and \
                isinstance(n.comparators[0].value, str) and n.comparators[0].value.islower():
            arom_bare |= set(n.comparators[0].value)
    arom_br = set()
    for n in ast.walk(ap.node):
        if isinstance(n, ast.Compare) and isinstance(n.ops[0], ast.In) and src(n.left) == 'element' and isinstance(n.comparators[0], ast.Tuple):
            arom_br |= set(ast.literal_eval(n.comparators[0]))
    kek = repo.func('chython.algorithms.aromatics.kekule:Kekule.__prepare_rings')
    km = repo.module('chython.algorithms.aromatics.kekule')
    consts = {k: ast.literal_eval(v) for k, v in km.assigns.items() if isinstance(v, ast.Constant) and isinstance(v.value, int)}
    from .tables import STANDARD_SYMBOLS
    writer_arom = {STANDARD_SYMBOLS[z - 1].lower() for z in consts.values() if 1 <= z <= 118}
    ck.decide(writer_arom <= arom_br and {x for x in writer_arom if x.capitalize() in org} <= arom_bare, R, 'aromatic-symbols', sorted(writer_arom),
              f'aromatic atoms the Kekule/Thiele code admits {sorted(writer_arom)}; reader accepts bracketed {sorted(arom_br)} and bare {sorted(arom_bare)}',
              file=ap.file, line=ap.lineno)
    ck.floor(R, 22)


def rule_mark_parity(ck, repo, R):
    ck.rule(R, 'writer and reader map the chirality mark the same way (True <-> "@") and both reverse it under the same predicate: the chiral '
               'atom has implicit hydrogens and no preceding atom in the written order (first atom of each component); CX radical indices are '
               'positions in the written order on both sides')
    fa = repo.func(f'{SMI}:MoleculeSmiles._format_atom')
    marks = [n for n in ast.walk(fa.node) if isinstance(n, ast.Assign) and src(n.targets[0]) == 'smi[3]' and isinstance(n.value, ast.IfExp)]
    ck.require(len(marks) == 3, f'_format_atom: expected three chirality-mark assignments (allene, first atom, normal), found {len(marks)}')
    parents = {}
    for p in ast.walk(fa.node):
        for c in ast.iter_child_nodes(p):
            parents[c] = p
    kinds = {}
    for mk in marks:
        pol = src(mk.value.body) == "'@'"  # True -> '@'
        if not {src(mk.value.body), src(mk.value.orelse)} == {"'@'", "'@@'"}:
            raise AnalysisError(f'_format_atom: chirality mark expression {src(mk.value)} not recognised')
        p = parents[mk]
        guard = src(p.test) if isinstance(p, ast.If) and mk in p.body else 'else'
        kinds[guard] = (pol, mk, src(mk.value.test))
    first = [g for g in kinds if 'implicit_hydrogens' in g]
    ck.require(len(first) == 1, '_format_atom: first-atom branch (implicit_hydrogens and ...) not found')
    g = first[0]
    others = [k for k in kinds if k != g]
    ck.decide(all(kinds[k][0] for k in others) and not kinds[g][0], R, 'writer:polarity', {k: v[0] for k, v in kinds.items()},
              'writer: the normal/allene branches must map True -> "@" and the no-predecessor branch must reverse it', file=fa.file, line=fa.lineno, func=fa.qualname)
    ck.decide('next((x for x in adjacency)) == n' in g, R, 'writer:predicate', g,
              f'writer reverses the mark under `{g}`; expected "implicit hydrogens and first atom of the per-component predecessor map"', file=fa.file, line=fa.lineno)
    # adjacency passed to _format_atom is created per component
    sm = repo.func(f'{SMI}:Smiles._smiles')
    vis = [n for n in ast.walk(sm.node) if isinstance(n, ast.Assign) and src(n.targets[0]) == 'visited']
    wh = [n for n in ast.walk(sm.node) if isinstance(n, ast.While) and src(n.test) == 'True']
    per_component = bool(vis) and any(vis[0] in ast.walk(w) for w in wh) and src(vis[0].value) == '{start: []}'
    ck.decide(per_component, R, 'writer:per-component-map', None, 'the predecessor map handed to _format_atom is no longer created per component with the start atom first',
              file=sm.file, line=sm.lineno)
    ap = repo.func(f'{TOK}:_atom_parse')
    rp = [n for n in ast.walk(ap.node) if isinstance(n, ast.Assign) and src(n.targets[0]) == 'stereo']
    ck.decide(len(rp) == 1 and src(rp[0].value) == "stereo == '@'", R, 'reader:polarity', src(rp[0].value) if rp else None,
              'reader no longer maps "@" -> True', file=ap.file, line=ap.lineno)
    pm = repo.func('chython.files.daylight.smiles:postprocess_molecule')
    inv = [n for n in ast.walk(pm.node) if isinstance(n, ast.If) and any(src(s) == 's = not s' for s in n.body)]
    ck.require(len(inv) == 1, 'postprocess_molecule: chirality reversal not found')
    t = src(inv[0].test)
    from .astutil import conjuncts
    cs = [src(c) for c in conjuncts(inv[0].test)]
    ck.decide(any('implicit_hydrogens' in c for c in cs), R, 'reader:needs-implicit-h', t, 'reader reverses the mark without testing implicit hydrogens', file=pm.file, line=inv[0].lineno)
    idx0 = any(c in ('not i', 'i == 0') for c in cs)
    member = [c for c in cs if c.startswith('i in ') and 'data[' in c]
    ck.decide(not idx0 and len(member) == 1, R, 'reader:predicate', t,
              f'reader reverses the mark under `{t}`: an index-zero test is only the first atom of the whole string, the writer (and SMILES) reverse for the '
              f'first atom of every component', file=pm.file, line=inv[0].lineno, func=pm.qualname)
    if member:
        key = member[0].split("data[")[1].split(']')[0].strip("'\"")
        pr = repo.func('chython.files.daylight.parser:parser')
        adds = [n for n in ast.walk(pr.node) if isinstance(n, ast.Call) and src(n.func) == f'{key}.add']
        ret_ok = f"'{key}': {key}" in src(pr.node)
        # one add for "no atoms yet", one for "after a dot"
        parents = {}
        for p in ast.walk(pr.node):
            for c in ast.iter_child_nodes(p):
                parents[c] = p
        ctxs = set()
        for a in adds:
            child, p = a, parents.get(a)
            while p is not None and not isinstance(p, ast.For):
                if isinstance(p, ast.If):
                    ctxs.add(('' if child in p.body else 'not ') + src(p.test))
                child, p = p, parents.get(p)
        # the recorded atom is the one being created: the index variable incremented after atoms.append(...)
        idx = [src(n.target) for n in ast.walk(pr.node) if isinstance(n, ast.AugAssign) and isinstance(n.op, ast.Add) and src(n.value) == '1'
               and isinstance(n.target, ast.Name)]
        appended = any(isinstance(n, ast.Call) and src(n.func) == 'atoms.append' for n in ast.walk(pr.node))
        new_idx = [v for v in idx if v != 'last_num']
        if not appended or len(new_idx) != 1:
            raise AnalysisError(f'parser: index variable of the atom being created not identifiable ({idx})')
        args = sorted({src(a.args[0]) for a in adds if a.args})
        ck.decide(args == [new_idx[0]], R, 'reader:starts-records-new-atom', args,
                  f'parser records {args} as chain-start atoms; it must record the atom being created (`{new_idx[0]}`), not the previous one',
                  file=pr.file, line=adds[0].lineno if adds else pr.lineno, func=pr.qualname)
        ck.decide(ret_ok and len(adds) == 2 and 'not atoms' in ctxs and any(c.startswith('not bt in (1, 10, 12)') or c == 'not bt in (1, 10, 12)' for c in ctxs), R, 'reader:starts-set', sorted(ctxs),
                  f'parser fills `{key}` under {sorted(ctxs)}; expected exactly: no atom yet, and atom after a dot', file=pr.file, line=pr.lineno, func=pr.qualname)
    # CX radicals
    fx = repo.func(f'{SMI}:MoleculeSmiles._format_cxsmiles')
    ck.decide('for n, m in enumerate(order) if self._atoms[m].is_radical' in src(fx.node), R, 'cx:writer-positions', None,
              'CX radical indices are no longer positions in the written atom order', file=fx.file, line=fx.lineno)
    st = repo.func(f'{SMI}:Smiles.__str__')
    ck.decide('self._format_cxsmiles(order)' in src(st.node), R, 'cx:always-appended', None, '__str__ no longer appends the CX block', file=st.file, line=st.lineno)


def rule_field_coverage(ck, repo, R):
    ck.rule(R, 'the atom token carries every attribute the property lists: the writer reads element, isotope, charge, radical (CX block), implicit '
               'hydrogens and stereo; the reader produces the same set of keys')
    fa = repo.func(f'{SMI}:MoleculeSmiles._format_atom')
    reads = {n.attr for n in ast.walk(fa.node) if isinstance(n, ast.Attribute) and src(n.value) == 'atom'}
    need = {'isotope', 'charge', 'implicit_hydrogens', 'stereo', 'atomic_symbol', 'is_radical', 'hybridization'}
    ck.decide(need <= reads, R, 'writer-reads', sorted(reads), f'_format_atom no longer reads {sorted(need - reads)}: molecules differing in it print alike', file=fa.file, line=fa.lineno, func=fa.qualname)
    ap = repo.func(f'{TOK}:_atom_parse')
    ret = [n for n in ast.walk(ap.node) if isinstance(n, ast.Return) and isinstance(n.value, ast.Tuple)]
    keys = set()
    if ret and isinstance(ret[-1].value.elts[1], ast.Dict):
        keys = {k.value for k in ret[-1].value.elts[1].keys}
    want = {'element', 'isotope', 'parsed_mapping', 'charge', 'implicit_hydrogens', 'stereo'}
    ck.decide(keys == want, R, 'reader-keys', sorted(keys), f'_atom_parse returns keys {sorted(keys)}, expected {sorted(want)}', file=ap.file, line=ap.lineno, func=ap.qualname)
    # bracket decision: anything non-default forces brackets
    s = src(fa.node)
    ck.decide("any(smi) or atom.atomic_symbol not in organic_set or atom.is_radical or kwargs.get('hydrogens', False)" in s, R, 'bracket-condition', None,
              'the bracket condition no longer covers isotope/stereo/charge/map (any(smi)), non-organic symbols and radicals', file=fa.file, line=fa.lineno)


def rule_closure_slots(ck, repo, R):
    """ring-closure digits: the neighbour-order slot reserved when the digit opens is the slot filled when it closes"""
    ck.rule(R, 'opening a ring-closure digit appends a placeholder to the ordered neighbour list of the atom and records its index (len(order[atom]) '
               'taken BEFORE the append) in the closure record; closing the digit writes the partner at exactly that recorded index of that atom. '
               'Chirality marks are interpreted against this order, so filling another free slot (first None, last) inverts a centre that opens '
               'two rings closed in a different order')
    f = repo.func('chython.files.daylight.parser:parser')
    ck.require(f is not None, 'parser() not found')
    opens = []
    for n in ast.walk(f.node):
        if isinstance(n, ast.Call) and isinstance(n.func, ast.Attribute) and n.func.attr == 'append' and len(n.args) == 1 and \
                isinstance(n.args[0], ast.Constant) and n.args[0].value is None and isinstance(n.func.value, ast.Subscript) and src(n.func.value.value) == 'order':
            opens.append(n)
    ck.require(len(opens) == 1, f'expected one placeholder reservation `order[x].append(None)`, found {len(opens)}')
    res = opens[0]
    atom = src(res.func.value.slice)
    # the block containing the reservation
    blk = None
    for n in ast.walk(f.node):
        for fld in ('body', 'orelse'):
            b = getattr(n, fld, None)
            if isinstance(b, list) and any(isinstance(s, ast.Expr) and s.value is res for s in b):
                blk = b
    ck.require(blk is not None, 'reservation statement not found in a block')
    idx_stmt = [i for i, s in enumerate(blk) if isinstance(s, ast.Expr) and s.value is res][0]
    rec = [(i, s) for i, s in enumerate(blk) if isinstance(s, ast.Assign) and isinstance(s.targets[0], ast.Subscript) and src(s.targets[0].value) == 'cycles']
    ck.require(len(rec) == 1 and isinstance(rec[0][1].value, ast.Tuple), 'closure record `cycles[token] = (...)` not found next to the reservation')
    ri, rs = rec[0]
    elts = [src(e) for e in rs.value.elts]
    want_len = f'len(order[{atom}])'
    pos_len = [i for i, e in enumerate(elts) if e == want_len]
    pos_atom = [i for i, e in enumerate(elts) if e == atom]
    ck.decide(bool(pos_len) and ri < idx_stmt, R, 'open:index-recorded', elts,
              f'the closure record {elts} does not hold {want_len} evaluated before the placeholder is appended: the reserved slot is not remembered',
              file=f.file, line=rs.lineno, func='parser', construct=src(rs))
    ck.decide(bool(pos_atom), R, 'open:atom-recorded', elts, f'the closure record {elts} does not hold the opening atom `{atom}`', file=f.file, line=rs.lineno, func='parser')
    # close site: unpacking of the record
    unp = [n for n in ast.walk(f.node) if isinstance(n, ast.Assign) and isinstance(n.targets[0], ast.Tuple) and
           (isinstance(n.value, ast.Subscript) and src(n.value.value) == 'cycles' or
            isinstance(n.value, ast.Call) and src(n.value.func) in ('cycles.pop', 'cycles.get'))]  # cycles[token] / cycles.pop(token)
    ck.require(len(unp) == 1, 'closure record unpacking not found')
    names = [src(e) for e in unp[0].targets[0].elts]
    ck.decide(len(names) == len(elts), R, 'close:record-shape', names, f'record is written with {len(elts)} fields and read with {len(names)}', file=f.file, line=unp[0].lineno, func='parser')
    fills = [n for n in ast.walk(f.node) if isinstance(n, ast.Assign) and isinstance(n.targets[0], ast.Subscript) and isinstance(n.targets[0].value, ast.Subscript) and
             src(n.targets[0].value.value) == 'order']
    ck.require(len(fills) == 1, f'expected one fill `order[a][i] = ...`, found {len(fills)}')
    fl = fills[0]
    got_atom, got_idx = src(fl.targets[0].value.slice), src(fl.targets[0].slice)
    ok = bool(pos_len) and bool(pos_atom) and len(names) == len(elts) and got_atom == names[pos_atom[0]] and got_idx == names[pos_len[0]]
    ck.decide(ok, R, 'close:fills-reserved-slot', f'order[{got_atom}][{got_idx}]',
              f'closing writes `{src(fl)}`; the slot reserved at opening is order[<opening atom>][<recorded index>]'
              + (f' = order[{names[pos_atom[0]]}][{names[pos_len[0]]}]' if pos_len and pos_atom and len(names) == len(elts) else ' (index not recorded)'),
              file=f.file, line=fl.lineno, func='parser', construct=src(fl))
    ck.decide(src(fl.value) == atom, R, 'close:partner', src(fl.value), f'the reserved slot is filled with `{src(fl.value)}` instead of the closing atom `{atom}`', file=f.file, line=fl.lineno, func='parser')
    # and the closing atom gets the opening atom appended (its own order)
    back = [n for n in ast.walk(f.node) if isinstance(n, ast.Call) and isinstance(n.func, ast.Attribute) and n.func.attr == 'append' and isinstance(n.func.value, ast.Subscript) and
            src(n.func.value.value) == 'order' and src(n.func.value.slice) == atom and n.args and pos_atom and len(names) == len(elts) and src(n.args[0]) == names[pos_atom[0]]]
    ck.decide(len(back) == 1, R, 'close:back-reference', len(back), 'the closing atom no longer appends the opening atom to its own neighbour order', file=f.file, func='parser')
    ck.floor(R, 6)


def rule_cx_radical_lists(ck, repo, R, modules):
    """CX radical block `^N:i,j,k`: the text the consumer splits on ',' covers the whole index list"""
    import re._parser as sre
    ck.rule(R, 'the CXSMILES / CXSMARTS radical block ^N:i,j,k: what findall() hands to the consumer, cut as the consumer cuts it, is the WHOLE index list '
               '(no capture group and the 3-character prefix ^N: sliced off, or one capture group spanning the full list and no slicing); decided for the SMILES and the SMARTS reader separately')
    shapes = {}
    for mname in modules:
        m = repo.module(mname)
        ck.require(m is not None, f'{mname} not found')
        pat = None
        for n in m.tree.body:
            if isinstance(n, ast.Assign) and isinstance(n.targets[0], ast.Name) and n.targets[0].id == 'cx_radicals' and isinstance(n.value, ast.Call) and n.value.args and \
                    isinstance(n.value.args[0], ast.Constant):
                pat = n.value.args[0].value
        ck.require(pat is not None, f'{mname}: cx_radicals pattern not found')
        parsed = sre.parse(pat)
        groups = parsed.state.groups - 1
        # consumers: for/comprehension over findall(cx_radicals, ...) followed by <cut>.split(',')
        cuts = []
        for n in ast.walk(m.tree):
            gens = []
            if isinstance(n, (ast.ListComp, ast.SetComp, ast.GeneratorExp)):
                gens = n.generators
            elif isinstance(n, ast.For):
                gens = [n]
            for i, g in enumerate(gens):
                if isinstance(g.iter, ast.Call) and src(g.iter.func) == 'findall' and g.iter.args and src(g.iter.args[0]) == 'cx_radicals' and isinstance(g.target, ast.Name):
                    var = g.target.id
                    scope = n if not isinstance(n, ast.For) else ast.Module(body=n.body, type_ignores=[])
                    for c in ast.walk(scope):
                        if isinstance(c, ast.Call) and isinstance(c.func, ast.Attribute) and c.func.attr == 'split' and c.args and isinstance(c.args[0], ast.Constant) and c.args[0].value == ',':
                            recv = c.func.value
                            if any(isinstance(x, ast.Name) and x.id == var for x in ast.walk(recv)):
                                cuts.append((src(recv).replace(var, 'X'), c.lineno))
        ck.require(cuts, f'{mname}: no consumer of findall(cx_radicals, ...) found')
        for cut, line in cuts:
            if groups == 0:
                ok = cut == 'X[3:]'
                why = f'pattern has no capture group, so findall yields the full match `^N:i,j,..`; the consumer cuts `{cut}` (expected X[3:])'
            elif groups == 1:
                # the single group must span everything after the colon
                tail_ok = False
                items = list(parsed)
                if items and items[-1][0] == sre.SUBPATTERN and items[-1][1][0] == 1:
                    sub = items[-1][1][3]
                    tail_ok = any(op in (sre.MAX_REPEAT, sre.MIN_REPEAT) and any(o2 == sre.LITERAL and a2 == ord(',') for o2, a2 in av[2]) for op, av in sub)
                ok = cut == 'X' and tail_ok
                why = f'pattern has one capture group, so findall yields only that group; it {"spans" if tail_ok else "does NOT span"} the whole index list and the consumer cuts `{cut}`'
            else:
                ok, why = False, f'pattern has {groups} capture groups: findall yields tuples'
            ck.decide(ok, R, f'{mname}:{cut}@{groups}', why, f'{mname}: {why}: indices after the first one are lost (or the prefix is parsed as an index)',
                      file=m.relpath, line=line, construct=pat)
        shapes[mname] = (pat, tuple(sorted({c for c, _ in cuts})))
    ck.floor(R, 2)  # one consumer per reader at least (the SMILES reader may parse the block once or once per branch)


def rule_allene_reference_choice(ck, repo, R):
    """writer and reader pick the reference substituent of an allene terminal the same way: first neighbour of the terminal IN WRITTEN ORDER that is in the stereo environment"""
    ck.rule(R, 'the @/@@ mark of an allene is relative to one substituent per terminal; the writer (MoleculeSmiles._format_atom) and the reader '
               '(postprocess_molecule) both choose, for each terminal t, the first element of the written-order neighbour list of t (adjacency[t] / order[t]) that '
               'belongs to the stereo environment. Iterating the environment instead (and testing membership in the neighbour list) picks by the storage '
               'order of the environment, which depends on how the input was spelled')
    sites = (('chython.algorithms.smiles:MoleculeSmiles._format_atom', 'adjacency'), ('chython.files.daylight.smiles:postprocess_molecule', 'order'))
    for fq, seqname in sites:
        f = repo.func(fq)
        ck.require(f is not None, f'{fq} not found')
        picks = []
        for n in ast.walk(f.node):
            if isinstance(n, ast.Call) and isinstance(n.func, ast.Name) and n.func.id == 'next' and n.args and isinstance(n.args[0], ast.GeneratorExp):
                g = n.args[0]
                if len(g.generators) == 1 and len(g.generators[0].ifs) == 1 and isinstance(g.generators[0].ifs[0], ast.Compare) and \
                        isinstance(g.generators[0].ifs[0].ops[0], ast.In):
                    it, cont = g.generators[0].iter, g.generators[0].ifs[0].comparators[0]
                    names = {src(it), src(cont)}
                    if any(x.startswith(f'{seqname}[') for x in names):
                        picks.append((n, it, cont))
        ck.require(len(picks) >= 2, f'{fq}: the two reference-substituent selections of the allene branch were not found')
        for n, it, cont in picks:
            ok = isinstance(it, ast.Subscript) and src(it.value) == seqname and not isinstance(cont, ast.Subscript)
            ck.decide(ok, R, f'{f.qualname}:{src(n)[:50]}', f'iterates {src(it)}',
                      f'{f.qualname}: `{src(n)}` iterates `{src(it)}` and tests membership in `{src(cont)}`; the reference substituent must be the first element of '
                      f'`{seqname}[terminal]` (written order) found in the environment', file=f.file, line=n.lineno, func=f.qualname, construct=src(n))
    ck.floor(R, 4)


def rule_not_bond_complement(ck, repo, R):
    """SMARTS `!<bond>`: the order list stored for a negated bond symbol is the complement of that symbol's order within the four ordinary orders"""
    ck.rule(R, 'tokenize.not_dict[s] == {1, 2, 3, 4} - {replace_dict[s]} for every bond symbol s that has an ordinary order: `!#` must still match aromatic bonds, etc.')
    rd = module_literal(repo, TOK, 'replace_dict')
    nd = module_literal(repo, TOK, 'not_dict')
    m = repo.module(TOK)
    line = m.assigns['not_dict'].lineno
    ordinary = {k for k, v in rd.items() if v in (1, 2, 3, 4)}
    ck.decide(set(nd) == ordinary, R, 'keys', sorted(nd), f'not_dict has keys {sorted(nd)}; the bond symbols with an ordinary order are {sorted(ordinary)}', file=m.relpath, line=line)
    for k in sorted(set(nd) & ordinary):
        want = sorted({1, 2, 3, 4} - {rd[k]})
        ck.decide(sorted(nd[k]) == want and len(nd[k]) == len(set(nd[k])), R, f'!{k}', nd[k],
                  f'not_dict[{k!r}] = {nd[k]}: "not {k}" must admit exactly the other ordinary orders {want}', file=m.relpath, line=line, construct=f'not_dict[{k!r}]')
    ck.floor(R, 5)


def rule_list_regex_items(ck, repo, R, specs):
    """a regex for `ITEM(,ITEM)*` must use the same ITEM before and inside the repetition (the two copies are written out by hand)"""
    import re._parser as sre
    ck.rule(R, 'comma-separated list patterns of the CXSMILES reader (cx_fragments: f:a.b.c,d.e ; cx_radicals: ^N:i,j) have the shape PREFIX ITEM (?:,ITEM)*: the ITEM '
               'inside the repetition is structurally the same sub-pattern as the first ITEM, so that every list element is read with the same grammar')
    n = 0
    for mname, var in specs:
        m = repo.module(mname)
        e = m.assigns.get(var) if m else None
        if e is None:
            continue
        ck.require(isinstance(e, ast.Call) and e.args and isinstance(e.args[0], ast.Constant) and isinstance(e.args[0].value, str), f'{mname}.{var} is not compile(<literal>)')
        pat = e.args[0].value
        try:
            items = list(sre.parse(pat))
        except Exception as x:
            raise AnalysisError(f'{mname}.{var}: pattern does not parse: {x}')

        def flat(seq):
            out = []
            for op, av in seq:
                if op == sre.SUBPATTERN and av[0] is None:
                    out.extend(flat(av[3]))
                else:
                    out.append((op, av))
            return out

        def dump(seq):
            out = []
            for op, av in flat(seq):
                if op in (sre.MAX_REPEAT, sre.MIN_REPEAT):
                    out.append((str(op), av[0], str(av[1]), dump(list(av[2]))))
                elif op == sre.SUBPATTERN:
                    out.append((str(op), 'group', dump(list(av[3]))))
                else:
                    out.append((str(op), repr(av)))
            return out
        items = flat(items)
        while items and items[-1][0] == sre.SUBPATTERN:  # a capture group around the whole list
            items = items[:-1] + flat(list(items[-1][1][3]))
        if not (items and items[-1][0] in (sre.MAX_REPEAT, sre.MIN_REPEAT) and items[-1][1][0] == 0):
            raise AnalysisError(f'{mname}.{var}: pattern `{pat}` does not end in a (?:,ITEM)* repetition')
        rep = flat(list(items[-1][1][2]))
        if rep and rep[0][0] == sre.SUBPATTERN:  # a capturing group around ,ITEM
            rep = flat(list(rep[0][1][3]))
        if not (rep and rep[0] == (sre.LITERAL, ord(','))):
            raise AnalysisError(f'{mname}.{var}: the trailing repetition of `{pat}` does not start with a comma')
        item2 = dump(rep[1:])
        head = items[:-1]
        item1 = dump(head)[-len(item2):] if item2 else []
        n += 1
        ck.decide(bool(item2) and item1 == item2, R, f'{mname.rsplit(".", 1)[1]}.{var}', pat,
                  f'{mname}.{var} = `{pat}`: the list element inside the repetition differs from the first element: later elements of the list are read with another grammar '
                  f'(e.g. `f:0.1,2.3.4` is cut short)', file=m.relpath, line=e.lineno, construct=pat)
    ck.count(f'{R}: list patterns', n)
    ck.require(n >= 2, f'{n} list patterns found, 2 confirmed by hand')
