# -*- coding: utf-8 -*-
"""
Engine A: repository model. Parses /repo/chython (tests excluded), resolves package-internal imports,
linearises class hierarchies (C3), collects slots, cached values and a by-name call graph.
Nothing of chython is imported or executed.
"""
import ast
import os
from .normalize import normalise_module
from .core import AnalysisError


def unparse(node):
    return ast.unparse(node)


class FuncInfo:
    def __init__(self, name, node, module, cls=None):
        self.name = name
        self.node = node
        self.module = module
        self.cls = cls
        self.decorators = [decorator_name(d) for d in node.decorator_list]

    @property
    def qualname(self):
        return f'{self.cls.name}.{self.name}' if self.cls else self.name

    @property
    def fq(self):
        return f'{self.module.name}:{self.qualname}'

    @property
    def file(self):
        return self.module.relpath

    @property
    def lineno(self):
        return self.node.lineno

    @property
    def is_property(self):
        return any(d in ('property', 'cached_property', 'class_cached_property', 'abstractproperty') or
                   d.endswith('.setter') for d in self.decorators)

    @property
    def cache_kind(self):
        for d in self.decorators:
            if d in ('cached_property', 'cached_method', 'cached_args_method', 'class_cached_property'):
                return d
        return None

    def params(self):
        a = self.node.args
        return [x.arg for x in a.posonlyargs + a.args + a.kwonlyargs]

    def __repr__(self):
        return f'<Func {self.fq}>'


def decorator_name(d):
    if isinstance(d, ast.Call):
        d = d.func
    if isinstance(d, ast.Name):
        return d.id
    if isinstance(d, ast.Attribute):
        return f'{decorator_name(d.value)}.{d.attr}'
    return '?'


class ClassInfo:
    def __init__(self, name, node, module):
        self.name = name
        self.node = node
        self.module = module
        self.methods = {}  # name -> [FuncInfo] (property getter/setter share a name)
        self.assigns = {}  # class-level NAME = expr
        self.annotations = {}
        self.bases = []  # resolved ClassInfo or str (external)
        self.own_slots = None
        for st in node.body:
            if isinstance(st, (ast.FunctionDef, ast.AsyncFunctionDef)):
                self.methods.setdefault(st.name, []).append(FuncInfo(st.name, st, module, self))
            elif isinstance(st, ast.Assign):
                for t in st.targets:
                    if isinstance(t, ast.Name):
                        self.assigns[t.id] = st.value
            elif isinstance(st, ast.AnnAssign) and isinstance(st.target, ast.Name):
                self.annotations[st.target.id] = st.annotation
                if st.value is not None:
                    self.assigns[st.target.id] = st.value
        if '__slots__' in self.assigns:
            try:
                v = ast.literal_eval(self.assigns['__slots__'])
                self.own_slots = (v,) if isinstance(v, str) else tuple(v)
            except Exception:
                self.own_slots = None

    @property
    def fq(self):
        return f'{self.module.name}:{self.name}'

    @property
    def file(self):
        return self.module.relpath

    def method(self, name, setter=False):
        """own method (getter by default)"""
        for f in self.methods.get(name, ()):
            is_setter = any(d.endswith('.setter') for d in f.decorators)
            if is_setter == setter:
                return f
        return None

    def mangle(self, name):
        if name.startswith('__') and not name.endswith('__'):
            return f'_{self.name.lstrip("_")}{name}'
        return name

    def __repr__(self):
        return f'<Class {self.fq}>'


class ModuleInfo:
    def __init__(self, name, path, relpath, tree, is_pkg, source):
        self.name = name
        self.path = path
        self.relpath = relpath
        self.tree = tree
        self.is_pkg = is_pkg
        self.source = source
        self.classes = {}
        self.functions = {}
        self.assigns = {}  # module-level NAME = expr (last one wins)
        self.imports = {}  # local -> (module_name, attr or None)
        self.stars = []  # module names star-imported
        self.all = None
        pkg = name if is_pkg else name.rpartition('.')[0]
        for st in self._toplevel(tree.body):
            if isinstance(st, ast.ClassDef):
                self.classes[st.name] = ClassInfo(st.name, st, self)
            elif isinstance(st, (ast.FunctionDef, ast.AsyncFunctionDef)):
                self.functions[st.name] = FuncInfo(st.name, st, self)
            elif isinstance(st, ast.Assign):
                for t in st.targets:
                    if isinstance(t, ast.Name):
                        self.assigns[t.id] = st.value
                    elif isinstance(t, ast.Tuple):
                        for e in t.elts:
                            if isinstance(e, ast.Name):
                                self.assigns.setdefault(e.id, st.value)
            elif isinstance(st, ast.AnnAssign) and isinstance(st.target, ast.Name) and st.value is not None:
                self.assigns[st.target.id] = st.value
            elif isinstance(st, ast.ImportFrom):
                base = pkg
                if st.level:
                    parts = pkg.split('.')
                    if st.level > 1:
                        parts = parts[:-(st.level - 1)]
                    base = '.'.join(parts)
                    mod = f'{base}.{st.module}' if st.module else base
                else:
                    mod = st.module
                for a in st.names:
                    if a.name == '*':
                        self.stars.append(mod)
                    else:
                        self.imports[a.asname or a.name] = (mod, a.name)
            elif isinstance(st, ast.Import):
                for a in st.names:
                    self.imports[a.asname or a.name.split('.')[0]] = (a.name, None)
        if '__all__' in self.assigns:
            try:
                self.all = list(ast.literal_eval(self.assigns['__all__']))
            except Exception:
                self.all = None

    @staticmethod
    def _toplevel(body):
        """module-level statements, descending into `if TYPE_CHECKING`/try blocks"""
        for st in body:
            yield st
            if isinstance(st, ast.If):
                yield from ModuleInfo._toplevel(st.body)
                yield from ModuleInfo._toplevel(st.orelse)
            elif isinstance(st, ast.Try):
                yield from ModuleInfo._toplevel(st.body)
                for h in st.handlers:
                    yield from ModuleInfo._toplevel(h.body)

    def __repr__(self):
        return f'<Module {self.name}>'


class Repo:
    def __init__(self, root='/repo', package='chython'):
        self.root = root
        self.package = package
        self.modules = {}
        self.inlined_helpers = {}  # module -> new helper functions whose calls were replaced by their bodies (sa/normalize.py)
        base = os.path.join(root, package)
        if not os.path.isdir(base):
            raise AnalysisError(f'package directory {base} not found')
        for dp, dns, fns in os.walk(base):
            dns[:] = sorted(d for d in dns if d not in ('test', 'tests', '__pycache__'))
            for fn in sorted(fns):
                if not fn.endswith('.py'):
                    continue
                path = os.path.join(dp, fn)
                rel = os.path.relpath(path, root)
                parts = rel[:-3].split(os.sep)
                is_pkg = parts[-1] == '__init__'
                if is_pkg:
                    parts = parts[:-1]
                name = '.'.join(parts)
                with open(path, encoding='utf-8') as fh:
                    src = fh.read()
                try:
                    tree = ast.parse(src, filename=path)
                except SyntaxError as e:
                    raise AnalysisError(f'{rel} does not parse: {e}')
                try:
                    inlined = normalise_module(tree, name)
                except RecursionError:
                    inlined = []
                self.modules[name] = ModuleInfo(name, path, rel, tree, is_pkg, src)
                if inlined:
                    self.inlined_helpers[name] = inlined
        self._resolving = set()
        self._mro = {}
        for m in self.modules.values():
            for c in m.classes.values():
                c.bases = [self._resolve_base(m, b) for b in c.node.bases]

    # -- name resolution ---------------------------------------------------------------------------------------
    def module(self, name):
        m = self.modules.get(name)
        if m is None:
            raise AnalysisError(f'module {name} vanished')
        return m

    def resolve(self, module, name, _depth=0):
        """
        resolve a module-level name to ClassInfo / FuncInfo / ('assign', module, expr) / ('module', ModuleInfo)
        / ('external', dotted) / None
        """
        if isinstance(module, str):
            module = self.modules.get(module)
            if module is None:
                return None
        if _depth > 12:
            return None
        if name in module.classes:
            return module.classes[name]
        if name in module.functions:
            return module.functions[name]
        if name in module.imports:
            mod, attr = module.imports[name]
            if attr is None:
                if mod in self.modules:
                    return 'module', self.modules[mod]
                return 'external', mod
            if mod in self.modules:
                r = self.resolve(self.modules[mod], attr, _depth + 1)
                if r is not None:
                    return r
                sub = f'{mod}.{attr}'
                if sub in self.modules:
                    return 'module', self.modules[sub]
                return None
            sub = f'{mod}.{attr}'
            if sub in self.modules:
                return 'module', self.modules[sub]
            return 'external', f'{mod}.{attr}'
        if name in module.assigns:
            return 'assign', module, module.assigns[name]
        for s in module.stars:
            if s in self.modules:
                sm = self.modules[s]
                if sm.all is not None and name not in sm.all:
                    # dynamic additions to __all__ are possible; fall through to a direct look
                    pass
                r = self.resolve(sm, name, _depth + 1)
                if r is not None:
                    return r
        if module.is_pkg:
            sub = f'{module.name}.{name}'
            if sub in self.modules:
                return 'module', self.modules[sub]
        return None

    def _resolve_base(self, module, expr):
        if isinstance(expr, ast.Subscript):
            expr = expr.value
        if isinstance(expr, ast.Name):
            r = self.resolve(module, expr.id)
            if isinstance(r, ClassInfo):
                return r
            return expr.id
        return unparse(expr)

    def cls(self, fq):
        """'chython.containers.molecule:MoleculeContainer' -> ClassInfo"""
        mod, _, name = fq.partition(':')
        m = self.module(mod)
        c = m.classes.get(name)
        if c is None:
            r = self.resolve(m, name)
            if isinstance(r, ClassInfo):
                return r
            raise AnalysisError(f'class {fq} vanished')
        return c

    def func(self, fq):
        """'module:Class.method' or 'module:function' -> FuncInfo (getter)"""
        mod, _, q = fq.partition(':')
        m = self.module(mod)
        if '.' in q:
            cn, fn = q.split('.', 1)
            c = m.classes.get(cn)
            if c is None:
                raise AnalysisError(f'class {mod}:{cn} vanished')
            f = c.method(fn)
            if f is None:
                raise AnalysisError(f'method {fq} vanished')
            return f
        f = m.functions.get(q)
        if f is None:
            raise AnalysisError(f'function {fq} vanished')
        return f

    # -- hierarchy ----------------------------------------------------------------------------------------------
    def mro(self, cls):
        if cls in self._mro:
            return self._mro[cls]
        seqs = []
        for b in cls.bases:
            if isinstance(b, ClassInfo):
                seqs.append(list(self.mro(b)))
        seqs.append([b for b in cls.bases if isinstance(b, ClassInfo)])
        res = [cls]
        seqs = [s for s in seqs if s]
        while seqs:
            for s in seqs:
                cand = s[0]
                if not any(cand in t[1:] for t in seqs):
                    break
            else:
                raise AnalysisError(f'inconsistent MRO for {cls.fq}')
            res.append(cand)
            for s in seqs:
                if s and s[0] is cand:
                    del s[0]
            seqs = [s for s in seqs if s]
        self._mro[cls] = tuple(res)
        return self._mro[cls]

    def lookup(self, cls, name, setter=False, after=None):
        """method `name` of cls through the MRO; `after`: start after that class (super())"""
        mro = self.mro(cls)
        if after is not None:
            mro = mro[mro.index(after) + 1:] if after in mro else ()
        for c in mro:
            f = c.method(name, setter=setter)
            if f is not None:
                return f
        return None

    def lookup_assign(self, cls, name):
        for c in self.mro(cls):
            if name in c.assigns:
                return c, c.assigns[name]
        return None

    def slots(self, cls):
        """union of __slots__ over the MRO (mangled), or None if some class in the MRO has no __slots__"""
        out = []
        for c in self.mro(cls):
            if c.own_slots is None:
                return None
            for s in c.own_slots:
                out.append(c.mangle(s))
        return tuple(dict.fromkeys(out))

    def subclasses(self, cls):
        return [c for m in self.modules.values() for c in m.classes.values() if c is not cls and cls in self.mro(c)]

    def all_classes(self):
        for m in self.modules.values():
            yield from m.classes.values()

    def all_functions(self):
        for m in self.modules.values():
            yield from m.functions.values()
            for c in m.classes.values():
                for fs in c.methods.values():
                    yield from fs

    # -- cache registry -----------------------------------------------------------------------------------------
    def cache_registry(self, cls):
        """
        key in instance __dict__ -> FuncInfo, for every cached value visible on cls
        functools.cached_property: key = name; CachedMethods.cached_property/class_cached_property: mangled name;
        cached_method: __cached_method_<name>; cached_args_method: __cached_args_method_<name>
        """
        reg = {}
        for c in reversed(self.mro(cls)):
            for name, fs in c.methods.items():
                for f in fs:
                    k = f.cache_kind
                    if k is None:
                        continue
                    if k == 'cached_property':
                        # functools version uses the attribute name given by __set_name__ (mangled by the compiler
                        # for private names); CachedMethods version mangles explicitly. Same key.
                        key = c.mangle(name)
                    elif k == 'class_cached_property':
                        key = c.mangle(name)
                    elif k == 'cached_method':
                        key = f'__cached_method_{name}'
                    else:
                        key = f'__cached_args_method_{name}'
                    reg[key] = f
        return reg


def walk_no_nested(node):
    """ast.walk that does not descend into nested function/class definitions or lambdas' own scopes"""
    stack = list(ast.iter_child_nodes(node))
    while stack:
        n = stack.pop()
        yield n
        if isinstance(n, (ast.FunctionDef, ast.AsyncFunctionDef, ast.ClassDef)):
            continue
        stack.extend(ast.iter_child_nodes(n))


def const(node, default=None):
    try:
        return ast.literal_eval(node)
    except Exception:
        return default
