# -*- coding: utf-8 -*-
"""
Generic dataflow / idiom lints H8-H12, run by rule_hygiene over the modules every property is anchored in. Each one states a small fact that is
visible in the shape of the code and whose violation is a slip, never a style choice; exceptions are frozen tables with a reason per row.
"""
import ast
from .astutil import src, if_chain, single_defs
from .normalize import KNOWN

# H8 ------------------------------------------------------------------------------------------------------------------------------------
OPTIONAL_COUNTS = {'implicit_hydrogens'}  # Optional[int] attributes where None (unknown / invalid) and 0 are different answers


def _arm_kind(t):
    if isinstance(t, ast.UnaryOp) and isinstance(t.op, ast.Not) and isinstance(t.operand, ast.Attribute):
        return src(t.operand), 'falsy'
    if isinstance(t, ast.Attribute):
        return src(t), 'truthy'
    if isinstance(t, ast.Compare) and len(t.ops) == 1 and isinstance(t.comparators[0], ast.Constant) and isinstance(t.left, ast.Attribute):
        return src(t.left), f'{type(t.ops[0]).__name__}:{t.comparators[0].value!r}'
    return None, None


def lint_tristate_ladders(ck, R, m, qual, fn):
    """a ladder that tells counts apart (`x == 1`, `x`) must not open with `not x` on an Optional count: 0 and None would share an arm"""
    n = 0
    inner = set()
    for top in ast.walk(fn):
        if not isinstance(top, ast.If) or id(top) in inner:
            continue
        cur = top
        while len(cur.orelse) == 1 and isinstance(cur.orelse[0], ast.If):
            cur = cur.orelse[0]
            inner.add(id(cur))
        kinds = [_arm_kind(t) for t, _ in if_chain(top) if t is not None]
        for subj in {s for s, _ in kinds if s and s.rsplit('.', 1)[-1] in OPTIONAL_COUNTS}:
            ks = [k for s, k in kinds if s == subj]
            if len(ks) < 2:
                continue
            n += 1
            if 'falsy' in ks and any(k.startswith('Eq:') and k != 'Eq:0' and k != 'Eq:None' for k in ks):
                ck.bad(R, f'tristate:{m.name}:{qual}:{subj}', f'{qual}: the ladder over `{subj}` ({", ".join(ks)}) distinguishes hydrogen counts but opens with `not {subj}`: '
                                                               f'a known count of 0 and an unknown count (None) take the same arm; test `is None`',
                       file=m.relpath, line=top.lineno, func=qual, construct=src(top.test))
    return n


# H9 ------------------------------------------------------------------------------------------------------------------------------------
MUTATORS = {'append', 'add', 'update', 'extend', 'pop', 'remove', 'discard', 'clear', 'insert', 'setdefault', 'popitem', 'sort', 'reverse',
            'difference_update', 'intersection_update', 'appendleft', 'popleft'}
# (module, function, index of the parameter among the non-self parameters): arguments the function is MEANT to change in place
MUTATES_ARGUMENT = {
    ('chython.algorithms.aromatics.kekule', '_kekule_component', 1): 'working set owned by the caller (Kekule._kekule_form builds it per component)',
    ('chython.algorithms.rings', '_connected_rings', 1): 'memo of ring adjacencies shared across calls on purpose',
    ('chython.algorithms.smiles', '_format_bond', 2): "per-call scratch: adjacency['cache'] memoises the cis/trans map for one string",
    ('chython.algorithms.standardize.saturation', '_saturate', 0): 'works on the private adjacency copy made by saturate()',
    ('chython.algorithms.stereo', '__differentiation', 1): 'out-parameters of the private refinement step',
    ('chython.algorithms.stereo', '__differentiation', 2): 'out-parameters of the private refinement step',
    ('chython.algorithms.stereo', '__differentiation', 3): 'out-parameters of the private refinement step',
    ('chython.files.MRVrw', 'parse_sgroup', 1): 'fills the record being parsed',
    ('chython.files._convert', 'create_molecule', 0): 'adds the log list to the parsed record',
    ('chython.files._convert', 'create_reaction', 0): 'removes ignored components from the parsed record',
    ('chython.files._mapping', 'postprocess_parsed_molecule', 0): 'remaps the parsed record in place (documented)',
    ('chython.files._mapping', 'postprocess_parsed_reaction', 0): 'remaps the parsed record in place (documented)',
    ('chython.reactor.base', '_patcher', 1): 'extends the mapping with the numbers given to new atoms (documented out-parameter)',
}


def lint_argument_mutation(ck, R, m, qual, fn):
    """a function that stores into / calls a mutating method on one of its parameters changes the caller's object; allowed only for the frozen
    list of documented in-place helpers. (A parameter that is re-bound anywhere in the function -- `rings = rings.copy()` -- is a local.)"""
    if KNOWN is not None and fn.name not in KNOWN.get(m.name, {fn.name}):
        return 0  # a new helper: its body is seen inlined at the call sites
    params = [a.arg for a in fn.args.posonlyargs + fn.args.args + fn.args.kwonlyargs if a.arg not in ('self', 'cls')]
    if not params:
        return 0
    rebound = {t.id for n in ast.walk(fn) if isinstance(n, (ast.Assign, ast.AugAssign, ast.AnnAssign))
               for tt in (n.targets if isinstance(n, ast.Assign) else [n.target]) for t in ast.walk(tt) if isinstance(t, ast.Name) and isinstance(t.ctx, ast.Store)}
    n_sites = 0
    reported = set()
    for n in ast.walk(fn):
        p = None
        if isinstance(n, ast.Subscript) and isinstance(n.ctx, (ast.Store, ast.Del)) and isinstance(n.value, ast.Name) and n.value.id in params:
            p = n.value.id
        elif isinstance(n, ast.Call) and isinstance(n.func, ast.Attribute) and n.func.attr in MUTATORS and isinstance(n.func.value, ast.Name) and n.func.value.id in params:
            p = n.func.value.id
        if p is None or p in rebound:
            continue
        n_sites += 1
        key = (m.name, fn.name, params.index(p))
        if key in MUTATES_ARGUMENT or key in reported:
            continue
        reported.add(key)
        ck.bad(R, f'argument-mutated:{m.name}:{qual}:{params.index(p)}', f'{qual}: `{src(n)[:60]}` changes the object passed as `{p}` in place (no copy is taken first): the caller keeps using '
                                                                          f'that object (its own result list / cache), which now holds the helper\'s intermediate values',
               file=m.relpath, line=n.lineno, func=qual, construct=src(n)[:100])
    return n_sites


# H10 -----------------------------------------------------------------------------------------------------------------------------------
def _str_typed(e, fn, cls, depth=0):
    """is the expression certainly a str built by joining / formatting (not a literal character class)?"""
    if isinstance(e, ast.JoinedStr):
        return True
    if isinstance(e, ast.Call) and isinstance(e.func, ast.Attribute) and e.func.attr in ('join', 'format', 'strip', 'lower', 'upper', 'replace'):
        return e.func.attr != 'strip' or _str_typed(e.func.value, fn, cls, depth + 1) or isinstance(e.func.value, ast.Constant)
    if isinstance(e, ast.Name) and depth < 3:
        d = single_defs(fn).get(e.id)
        return d is not None and _str_typed(d, fn, cls, depth + 1)
    if isinstance(e, ast.Attribute) and isinstance(e.value, ast.Name) and e.value.id == 'self' and cls is not None and depth < 3:
        for st in cls.body:
            if isinstance(st, ast.FunctionDef) and st.name == e.attr and any(src(d).endswith('property') for d in st.decorator_list):
                rets = [r.value for r in ast.walk(st) if isinstance(r, ast.Return) and r.value is not None]
                return bool(rets) and all(_str_typed(r, st, cls, depth + 1) for r in rets)
    return False


def lint_substring_membership(ck, R, m, qual, fn, cls):
    """`name in S` where S is a string assembled with join / format is a SUBSTRING test: 'C' in 'Cl,Br' is true"""
    n = 0
    for c in ast.walk(fn):
        if isinstance(c, ast.Compare) and len(c.ops) == 1 and isinstance(c.ops[0], (ast.In, ast.NotIn)) and not isinstance(c.comparators[0], ast.Constant):
            if _str_typed(c.comparators[0], fn, cls) and not (isinstance(c.left, ast.Constant) and isinstance(c.left.value, str) and len(c.left.value) == 1):
                n += 1
                ck.bad(R, f'substring:{m.name}:{qual}:{src(c)[:50]}', f'{qual}: `{src(c)[:80]}` tests membership in a string assembled from several items: that is a substring test '
                                                                      f'(a one-letter symbol is "in" every longer symbol that starts with it); test against the tuple of items',
                       file=m.relpath, line=c.lineno, func=qual, construct=src(c)[:100])
    return n


# H11 -----------------------------------------------------------------------------------------------------------------------------------
def lint_slice_after_truncation(ck, R, m, qual, fn):
    """`x = x[:k]` followed, with x and k untouched, by a read of `x[k:]`: the tail was just cut off, the read is always empty"""
    n = 0
    for node in ast.walk(fn):
        for field in ('body', 'orelse', 'finalbody'):
            blk = getattr(node, field, None)
            if not (isinstance(blk, list) and blk and isinstance(blk[0], ast.stmt)):
                continue
            for i, st in enumerate(blk):
                if not (isinstance(st, ast.Assign) and len(st.targets) == 1 and isinstance(st.targets[0], ast.Name) and isinstance(st.value, ast.Subscript)
                        and isinstance(st.value.value, ast.Name) and st.value.value.id == st.targets[0].id and isinstance(st.value.slice, ast.Slice)
                        and st.value.slice.lower is None and st.value.slice.upper is not None and st.value.slice.step is None):
                    continue
                x, k = st.targets[0].id, src(st.value.slice.upper)
                knames = {z.id for z in ast.walk(st.value.slice.upper) if isinstance(z, ast.Name)}
                n += 1
                for later in blk[i + 1:]:
                    hit = [s_ for s_ in ast.walk(later) if isinstance(s_, ast.Subscript) and isinstance(s_.ctx, ast.Load) and isinstance(s_.value, ast.Name) and s_.value.id == x
                           and isinstance(s_.slice, ast.Slice) and s_.slice.lower is not None and src(s_.slice.lower) == k and s_.slice.upper is None]
                    if hit:
                        ck.bad(R, f'cut-then-read:{m.name}:{qual}:{x}[{k}:]', f'{qual}: `{src(hit[0])}` is read right after `{src(st)}`: the part beyond {k} was just cut off, so the read '
                                                                             f'is always empty (the two statements are in the wrong order)',
                               file=m.relpath, line=hit[0].lineno, func=qual, construct=src(later)[:100])
                        break
                    touched = any((isinstance(z, ast.Name) and not isinstance(z.ctx, ast.Load) and z.id in knames | {x}) or
                                  (isinstance(z, ast.Call) and isinstance(z.func, ast.Attribute) and isinstance(z.func.value, ast.Name) and z.func.value.id == x)
                                  for z in ast.walk(later))
                    if touched:
                        break
    return n


# H12 -----------------------------------------------------------------------------------------------------------------------------------
def lint_swallowing_try_around_loop(ck, R, m, qual, fn):
    """`try: for item in items: ... except E: pass` -- the first item that raises E silently drops every later item; per-item handling puts the try
    inside the loop (handlers that re-raise are fine: they abort on purpose)"""
    n = 0
    for t in ast.walk(fn):
        if isinstance(t, ast.Try) and len(t.body) == 1 and isinstance(t.body[0], (ast.For, ast.While)):
            n += 1
            for h in t.handlers:
                if not any(isinstance(x, ast.Raise) for x in ast.walk(h)) and not any(isinstance(x, (ast.Return,)) for x in ast.walk(h)):
                    ck.bad(R, f'try-around-loop:{m.name}:{qual}:{src(h.type) if h.type else "bare"}',
                           f'{qual}: the loop `{src(t.body[0])[:60]}...` runs inside one try whose `except {src(h.type) if h.type else ""}` handler swallows the error: the first '
                           f'item that raises ends the loop and every later item is silently skipped; the handler belongs inside the loop',
                           file=m.relpath, line=t.lineno, func=qual, construct=f'try: for ... except {src(h.type) if h.type else ""}: pass')
    return n


# H13 -----------------------------------------------------------------------------------------------------------------------------------
def lint_view_signature(ck, R, m, tree_views):
    """which member of a look-alike family of derived views a function consults (terminals vs centres table, ordinary-bond adjacency vs raw adjacency,
    stereogenic vs chiral sets ...) is part of what it computes. For every function of the confirmed tree that read such views, the set it reads now is
    compared with the confirmed one: a view that is no longer consulted (or a sibling consulted in its place) is reported. The normaliser has already
    undone renames and inlined new helpers, so moving the read into a new helper does not change the set."""
    from .normalize import KNOWN_VIEWS, VIEW_FAMILIES, view_reads
    want_all = KNOWN_VIEWS.get(m.name) or {}
    if not want_all:
        return 0
    now_all = view_reads(m.tree)
    fam = {v: f for f, vs in VIEW_FAMILIES.items() for v in vs}
    n = 0
    present = {q for q, _ in __import__('sa.normalize', fromlist=['scoped_functions']).scoped_functions(m.tree)}
    for q, want in sorted(want_all.items()):
        if q not in present:
            continue  # the function itself is gone (inlined / removed): other rules speak about that
        n += 1
        now = set(now_all.get(q, ()))
        lost = sorted(set(want) - now)
        gained = sorted(now - set(want))
        if lost:
            swapped = [g for g in gained if any(fam[g] == fam[l] for l in lost)]
            ck.bad(R, f'views:{m.name}:{q}:{",".join(lost)}', f'{q} no longer consults {lost}' + (f' and consults {swapped} of the same family instead' if swapped else '') +
                   ': the members of one family differ in what they contain (which atoms are keys, whether order-8 bonds count, stereogenic vs actually chiral), '
                   'so the function now decides on another set', file=m.relpath, func=q, construct=', '.join(lost))
    return n


# H14 ---------------------------------------------------------------------------------------------------------------------------------------
_SPLIT = __import__('re').compile(r'[_\W]+')


def _tokens(e):
    out = set()
    for n in ast.walk(e):
        if isinstance(n, ast.Name):
            out |= {t for t in _SPLIT.split(n.id.lower()) if t}
        elif isinstance(n, ast.Attribute):
            out |= {t for t in _SPLIT.split(n.attr.lower()) if t}
    return out


def _provenance_tokens(e, fn, depth=2):
    """names the value of an expression is computed from, followed through every assignment of its variables (tuple unpacking included)"""
    out = _tokens(e)
    names = {n.id for n in ast.walk(e) if isinstance(n, ast.Name)}
    for _ in range(depth):
        new = set()
        for st in ast.walk(fn):
            if isinstance(st, ast.Assign) and any(isinstance(t, ast.Name) and t.id in names for tg in st.targets for t in ast.walk(tg)):
                out |= _tokens(st.value)
                new |= {n.id for n in ast.walk(st.value) if isinstance(n, ast.Name)}
        names = new - names
        if not names:
            break
    return out


def lint_argument_parameter_affinity(ck, R, repo, m, qual, fn):
    """a positional argument that lands on an OPTIONAL parameter although everything it is computed from is named after ANOTHER optional parameter of the
    same callee (QueryBond(order, s1 == s2) with s1, s2 popped from stereo_bonds: bound to in_ring, the callee also has stereo). Callees are resolved
    through the module's own names and imports; only parameters with defaults are considered, and the argument must not mention the parameter it is bound to."""
    from .model import ClassInfo, FuncInfo
    from .astutil import expand_locals
    n = 0
    for c in ast.walk(fn):
        if not (isinstance(c, ast.Call) and isinstance(c.func, ast.Name) and len(c.args) >= 2):
            continue
        r = repo.resolve(m, c.func.id)
        if isinstance(r, ClassInfo):
            r = repo.lookup(r, '__init__')
            skip = 1
        elif isinstance(r, FuncInfo):
            skip = 0
        else:
            continue
        if r is None or any(isinstance(a, ast.Starred) for a in c.args):
            continue
        a = r.node.args
        pos = (a.posonlyargs + a.args)[skip:]
        nd = len(a.defaults)
        optional = [p.arg for p in pos[len(pos) - nd:]] if nd else []
        optional_all = set(optional) | {p.arg for p, d in zip(a.kwonlyargs, a.kw_defaults) if d is not None}
        if len(optional_all) < 2:
            continue
        for i, arg in enumerate(c.args):
            if i >= len(pos) or pos[i].arg not in optional:
                continue
            n += 1
            bound = pos[i].arg
            toks = _tokens(expand_locals(arg, fn, depth=4)) | _provenance_tokens(arg, fn)
            if not toks or bound.lower() in toks or set(_SPLIT.split(bound.lower())) & toks:
                continue
            others = sorted(o for o in optional_all if o != bound and o.lower() in toks)
            if others:
                ck.bad(R, f'affinity:{m.name}:{qual}:{c.func.id}:{bound}', f'{qual}: `{src(c)[:90]}` passes `{src(arg)[:50]}` positionally, which binds it to the parameter `{bound}` of '
                       f'{c.func.id}; the value is computed from {sorted(toks & {o.lower() for o in others})}-named data and the callee has the parameter `{others[0]}`: '
                       f'the argument lands in the wrong slot', file=m.relpath, line=c.lineno, func=qual, construct=src(c)[:100])
    return n
