# -*- coding: utf-8 -*-
"""C20: RDKit bridge -- bond code books, sign conventions, attribute coverage (no RDKit needed: source only)."""
import ast
from .core import AnalysisError
from .astutil import src, expand_locals

RD = 'chython.utils.rdkit'


def _dict_src(m, name):
    e = m.assigns.get(name)
    if not isinstance(e, ast.Dict):
        raise AnalysisError(f'{RD}.{name} is not a dict display')
    return {src(k): src(v) for k, v in zip(e.keys, e.values)}, e.lineno


def rule_bond_books(ck, repo, R):
    ck.rule(R, '_bond_map (chython order -> RDKit bond type) and _rdkit_bond_map (RDKit bond type -> order) are mutually inverse on the five orders 1,2,3,4,8')
    m = repo.module(RD)
    to, l1 = _dict_src(m, '_bond_map')
    back, l2 = _dict_src(m, '_rdkit_bond_map')
    for o in ('1', '2', '3', '4', '8'):
        t = to.get(o)
        ck.decide(t is not None and back.get(t) == o, R, f'order:{o}', t, f'order {o} is exported as {t}, which is imported back as {back.get(t)}', file=m.relpath, line=l1)
    ck.decide(set(to) == {'1', '2', '3', '4', '8'}, R, 'orders-covered', sorted(to), f'_bond_map covers {sorted(to)}', file=m.relpath, line=l1)
    ck.decide(all(v in ('1', '2', '3', '4', '8') for v in back.values()), R, 'import-values', sorted(set(back.values())), 'an RDKit bond type is imported as an order outside {1,2,3,4,8}', file=m.relpath, line=l2)
    tf = repo.func(f'{RD}:to_rdkit_molecule')
    ff = repo.func(f'{RD}:from_rdkit_molecule')
    ck.decide('_bond_map[b.order]' in src(tf.node), R, 'export-lookup', None, 'to_rdkit_molecule no longer looks up _bond_map[b.order]', file=tf.file, line=tf.lineno)
    ck.decide('_rdkit_bond_map[b.GetBondType()]' in src(ff.node), R, 'import-lookup', None, 'from_rdkit_molecule no longer looks up _rdkit_bond_map[b.GetBondType()]', file=ff.file, line=ff.lineno)


def rule_sign_conventions(ck, repo, R):
    ck.rule(R, 'both directions use one sign convention: CCW <-> True for tetrahedra and Z (cis) <-> True for double bonds, and both go through the '
               'sign-translation functions with the neighbour order RDKit reports')
    m = repo.module(RD)
    consts = {k: src(v) for k, v in m.assigns.items() if k in ('_chiral_cw', '_chiral_ccw', '_cis', '_trans')}
    want = {'_chiral_cw': 'ChiralType.CHI_TETRAHEDRAL_CW', '_chiral_ccw': 'ChiralType.CHI_TETRAHEDRAL_CCW', '_cis': 'BondStereo.STEREOZ', '_trans': 'BondStereo.STEREOE'}
    for k, v in want.items():
        ck.decide(consts.get(k) == v, R, f'const:{k}', consts.get(k), f'{k} is bound to {consts.get(k)}, expected {v}', file=m.relpath)
    ff = repo.func(f'{RD}:from_rdkit_molecule')
    tf = repo.func(f'{RD}:to_rdkit_molecule')
    fs, ts = src(ff.node), src(tf.node)
    imp_t = [n for n in ast.walk(ff.node) if isinstance(n, ast.Call) and src(n.func) == 'tetrahedron_stereo.append']
    ck.require(len(imp_t) == 1, 'from_rdkit_molecule: tetrahedron stereo collection not found')
    last = src(imp_t[0].args[0].elts[-1])

    def is_tag_eq(e, const, getter):
        """`<x> == const` where x is whatever holds <rdkit object>.<getter>() (any local name)"""
        if not (isinstance(e, ast.Compare) and len(e.ops) == 1 and isinstance(e.ops[0], ast.Eq)):
            return False
        l, r = e.left, e.comparators[0]
        if src(l) == const:
            l, r = r, l
        if src(r) != const:
            return False
        if isinstance(l, ast.Call):
            return src(l.func).endswith('.' + getter)
        if isinstance(l, ast.Name):
            return any(isinstance(a, ast.Assign) and any(isinstance(t, ast.Name) and t.id == l.id for t in a.targets) and isinstance(a.value, ast.Call)
                       and src(a.value.func).endswith('.' + getter) for a in ast.walk(ff.node))
        return False
    ck.decide(is_tag_eq(imp_t[0].args[0].elts[-1], '_chiral_ccw', 'GetChiralTag'), R, 'import:tetrahedron-polarity', last, f'import maps the chiral tag to a sign by `{last}`; export maps True to CCW', file=ff.file, line=imp_t[0].lineno)
    exp_t = [n for n in ast.walk(tf.node) if isinstance(n, ast.Call) and src(n.func) == 'ra.SetChiralTag']
    ck.require(len(exp_t) == 1, 'to_rdkit_molecule: SetChiralTag not found')
    def polarity(e, fn):
        """(value when the condition is true, value when false, condition) of a conditional expression, `not` folded, single-definition locals expanded"""
        e = expand_locals(e, fn)
        if not isinstance(e, ast.IfExp):
            return None
        t, a, b = e.test, src(e.body), src(e.orelse)
        while isinstance(t, ast.UnaryOp) and isinstance(t.op, ast.Not):
            t, a, b = t.operand, b, a
        return a, b, src(t)
    pt = polarity(exp_t[0].args[0], tf.node)
    ck.decide(pt is not None and pt[:2] == ('_chiral_ccw', '_chiral_cw') and '_translate_tetrahedron_sign' in pt[2], R, 'export:tetrahedron-polarity', src(exp_t[0].args[0]),
              f'export sets the chiral tag as `{src(exp_t[0].args[0])}`; import reads CCW as True', file=tf.file, line=exp_t[0].lineno)
    imp_c = [n for n in ast.walk(ff.node) if isinstance(n, ast.Call) and src(n.func) == 'cis_trans_stereo.append']
    ck.require(len(imp_c) == 1, 'from_rdkit_molecule: cis/trans stereo collection not found')
    ck.decide(is_tag_eq(imp_c[0].args[0].elts[-1], '_cis', 'GetStereo'), R, 'import:cis-polarity', src(imp_c[0].args[0].elts[-1]), 'import no longer maps Z to True', file=ff.file, line=imp_c[0].lineno)
    exp_c = [n for n in ast.walk(tf.node) if isinstance(n, ast.Call) and src(n.func) == 'rb.SetStereo']
    ck.require(len(exp_c) == 1, 'to_rdkit_molecule: SetStereo not found')
    pc = polarity(exp_c[0].args[0], tf.node)
    ck.decide(pc is not None and pc[:2] == ('_cis', '_trans') and pc[2].endswith('.stereo'), R, 'export:cis-polarity', src(exp_c[0].args[0]), 'export no longer maps True to Z', file=tf.file, line=exp_c[0].lineno)
    # neighbour orders
    import re as _re
    ck.decide(_re.search(r'mol\._translate_tetrahedron_sign\(n, \[mapping\[x\] for x in env\], \w+\)', fs) is not None and '[x.GetIdx() for x in ra.GetNeighbors()]' in fs, R, 'import:neighbour-order', None,
              'import no longer translates the tag from RDKit\'s neighbour order', file=ff.file, line=ff.lineno)
    ck.decide('env = [inverted[x.GetIdx()] for x in ra.GetNeighbors()]' in ts and 'data._translate_tetrahedron_sign(n, env)' in ts, R, 'export:neighbour-order', None,
              'export no longer translates the sign to RDKit\'s neighbour order', file=tf.file, line=tf.lineno)
    ck.decide(_re.search(r'mol\._translate_cis_trans_sign\(n, m, nn, nm, \w+\)', fs) is not None and _re.search(r'nn, nm = \w+\.GetStereoAtoms\(\)', fs) is not None
              and 'mapping[nn], mapping[nm]' in fs, R, 'import:stereo-atoms', None,
              'import no longer translates the Z/E flag from RDKit\'s stereo atoms', file=ff.file, line=ff.lineno)
    ck.decide('n1, m1, *_ = data.stereogenic_cis_trans[nm]' in ts and 'rb.SetStereoAtoms(mapping[n1], mapping[m1])' in ts, R, 'export:stereo-atoms', None,
              'export no longer names the reference substituents of the stored sign as stereo atoms', file=tf.file, line=tf.lineno)
    ck.decide('mol.fix_structure(recalculate_hydrogens=False)' in fs and 'mol.fix_stereo()' in fs, R, 'import:finalise', None, 'import no longer finalises labels / stereo', file=ff.file, line=ff.lineno)


def rule_attribute_coverage(ck, repo, R):
    ck.rule(R, 'the atom attributes transferred in one direction are the ones transferred in the other: isotope, charge, radical, hydrogen count, atom map, 2D coordinates')
    ff = repo.func(f'{RD}:from_rdkit_molecule')
    tf = repo.func(f'{RD}:to_rdkit_molecule')
    getters = {n.func.attr for n in ast.walk(ff.node) if isinstance(n, ast.Call) and isinstance(n.func, ast.Attribute) and src(n.func.value) == 'ra'}
    setters = {n.func.attr for n in ast.walk(tf.node) if isinstance(n, ast.Call) and isinstance(n.func, ast.Attribute) and src(n.func.value) == 'ra'}
    pairs = {'GetIsotope': 'SetIsotope', 'GetFormalCharge': 'SetFormalCharge', 'GetNumRadicalElectrons': 'SetNumRadicalElectrons', 'GetAtomMapNum': 'SetAtomMapNum',
             'GetNumExplicitHs': 'SetNumExplicitHs', 'GetChiralTag': 'SetChiralTag'}
    for g, s in pairs.items():
        ck.decide(g in getters and s in setters, R, f'{g}<->{s}', None, f'attribute transferred one way only: import uses {g}: {g in getters}, export uses {s}: {s in setters}', file=ff.file, line=ff.lineno)
    ck.decide('GetNumImplicitHs' in getters, R, 'hydrogens:total', None, 'import no longer adds RDKit implicit and explicit hydrogen counts', file=ff.file, line=ff.lineno)
    kw = {}
    for n in ast.walk(ff.node):
        if isinstance(n, ast.Call) and src(n.func) == 'e':
            kw = {k.arg: src(k.value) for k in n.keywords}
            kw['<isotope>'] = src(n.args[0]) if n.args else None
    want = {'charge': 'ra.GetFormalCharge()', 'is_radical': 'bool(ra.GetNumRadicalElectrons())', 'parsed_mapping': 'ra.GetAtomMapNum()',
            'implicit_hydrogens': 'ra.GetNumExplicitHs() + ra.GetNumImplicitHs()', '<isotope>': 'ra.GetIsotope() or None'}
    ck.decide(kw == want, R, 'import:keywords', kw, f'import builds atoms with {kw}', file=ff.file, line=ff.lineno)
    exp = {}
    for n in ast.walk(tf.node):
        if isinstance(n, ast.Call) and isinstance(n.func, ast.Attribute) and src(n.func.value) == 'ra' and n.func.attr.startswith('Set') and n.args:
            exp[n.func.attr] = src(n.args[0])
    if 'SetChiralTag' in exp:  # its value is decided by the sign-convention rule
        exp['SetChiralTag'] = '<sign>'
    want = {'SetNumExplicitHs': 'a.implicit_hydrogens', 'SetAtomMapNum': 'n', 'SetFormalCharge': 'a.charge', 'SetIsotope': 'a.isotope', 'SetNumRadicalElectrons': '1',
            'SetChiralTag': '<sign>'}
    ck.decide(exp == want, R, 'export:values', exp, f'export sets {exp}', file=tf.file, line=tf.lineno)
    import re as _re2
    ck.decide(_re2.search(r'\b\w+\.xy = \((\w+), (\w+)\)', src(ff.node)) is not None and
              '.SetAtomPosition(' in src(tf.node) and _re2.search(r'\((\w+)\.x, \1\.y, 0\)', src(tf.node)) is not None, R, 'coordinates', None, '2D coordinates are no longer transferred both ways', file=ff.file, line=ff.lineno)


def rule_import_revalidates(ck, repo, R):
    ck.rule(R, 'from_rdkit_molecule copies RDKit stereo tags onto atoms / bonds as raw `_stereo` writes; fix_stereo() must run whenever ANY such write may have '
               'happened: it is unconditional or guarded by a disjunction that is true as soon as one of the label collections is non-empty '
               '(RDKit keeps stale tags after edits, and labels of one kind need the clean-up as much as mixed ones)')
    from .r_query import dnf, simplify
    f = repo.func(f'{RD}:from_rdkit_molecule')
    ck.require(f is not None, 'from_rdkit_molecule not found')
    witnesses = []
    for l in ast.walk(f.node):
        if isinstance(l, ast.For) and isinstance(l.iter, ast.Name) and any(isinstance(a, ast.Assign) and isinstance(a.targets[0], ast.Attribute) and a.targets[0].attr == '_stereo'
                                                                             for a in ast.walk(l)):
            witnesses.append(l.iter.id)
    ck.require(len(witnesses) >= 2, 'from_rdkit_molecule: loops writing _stereo from collected label lists not found')
    calls = [c for c in ast.walk(f.node) if isinstance(c, ast.Call) and isinstance(c.func, ast.Attribute) and c.func.attr == 'fix_stereo']
    ck.require(len(calls) == 1, 'from_rdkit_molecule: fix_stereo() call not found')
    parents = {}
    for p_ in ast.walk(f.node):
        for ch in ast.iter_child_nodes(p_):
            parents[ch] = p_
    guards = []
    p_ = parents.get(calls[0])
    while p_ is not None and p_ is not f.node:
        if isinstance(p_, ast.If):
            guards.append(p_.test)
        p_ = parents.get(p_)
    last_write = max(a.lineno for l in ast.walk(f.node) if isinstance(l, ast.For) for a in ast.walk(l)
                     if isinstance(a, ast.Assign) and isinstance(a.targets[0], ast.Attribute) and a.targets[0].attr == '_stereo')
    ck.decide(calls[0].lineno > last_write, R, 'after-writes', None, 'fix_stereo() runs before the last raw stereo write', file=f.file, line=calls[0].lineno)
    for w in witnesses:
        ok = True
        for g in guards:
            cl = simplify(dnf(g))
            ok = ok and any(c == frozenset([(('truthy', w), True)]) for c in cl)
        ck.decide(ok, R, f'covers:{w}', [src(g) for g in guards] or 'unconditional',
                  f'fix_stereo() in from_rdkit_molecule is guarded by `{" and ".join(src(g) for g in guards)}`, which is not implied by `{w}` being non-empty: labels copied '
                  f'from that collection alone are never re-validated', file=f.file, line=calls[0].lineno, func=f.qualname, construct=src(guards[0]) if guards else None)
    ck.floor(R, 3)


def rule_index_inverse(ck, repo, R):
    """C20: to_rdkit_molecule numbers RDKit atoms in the order it adds them (mapping[n] = mol.AddAtom(..)); whatever is indexed by an RDKit atom index to get
    back the chython atom number must be the inverse of that mapping (or the keys in INSERTION order) -- not the sorted atom numbers"""
    ck.rule(R, 'in to_rdkit_molecule every table subscripted with `<atom>.GetIdx()` is the inverse of the atom-number -> RDKit-index mapping: `{v: k for k, v in mapping.items()}`, '
               '`dict(zip(mapping.values(), mapping))`, or list(mapping) / tuple(mapping) (insertion order = index order); a sorted list is right only for molecules stored in '
               'ascending atom order')
    from .astutil import single_defs
    f = repo.func('chython.utils.rdkit:to_rdkit_molecule')
    defs = single_defs(f.node)
    n = 0
    for s_ in ast.walk(f.node):
        if isinstance(s_, ast.Subscript) and isinstance(s_.ctx, ast.Load) and isinstance(s_.value, ast.Name) and isinstance(s_.slice, ast.Call) \
                and isinstance(s_.slice.func, ast.Attribute) and s_.slice.func.attr == 'GetIdx':
            n += 1
            d = defs.get(s_.value.id)
            ok = False
            if isinstance(d, ast.DictComp) and len(d.generators) == 1 and isinstance(d.generators[0].target, ast.Tuple) and len(d.generators[0].target.elts) == 2:
                k_, v_ = (src(e) for e in d.generators[0].target.elts)
                ok = src(d.key) == v_ and src(d.value) == k_ and src(d.generators[0].iter).endswith('.items()')
            elif isinstance(d, ast.Call) and src(d.func) in ('list', 'tuple') and len(d.args) == 1 and isinstance(d.args[0], (ast.Name, ast.Call)) and 'sorted' not in src(d):
                ok = True
            elif isinstance(d, ast.Call) and src(d.func) == 'dict' and 'zip(' in src(d) and '.values()' in src(d):
                ok = True
            elif d is None or (isinstance(d, ast.Dict) and not d.keys) or (isinstance(d, ast.Call) and src(d) in ('dict()', 'list()')):
                # filled in the atom loop: inverted[idx] = n
                ok = any(isinstance(a, ast.Assign) and isinstance(a.targets[0], ast.Subscript) and src(a.targets[0].value) == s_.value.id for a in ast.walk(f.node))
            ck.decide(ok, R, f'inverse:{s_.value.id}', src(d) if d is not None else None,
                      f'to_rdkit_molecule looks chython atom numbers up as `{src(s_)}` where `{s_.value.id} = {src(d) if d is not None else "?"}`: that is not the inverse of the '
                      f'index mapping (RDKit indices follow the order atoms were added, i.e. the storage order of the molecule, not the sorted atom numbers): stereo neighbours '
                      f'are translated to wrong atoms for molecules stored out of ascending order', file=f.file, line=s_.lineno, func=f.qualname, construct=src(s_))
    ck.require(n >= 1, 'to_rdkit_molecule: no lookup by RDKit atom index found')
